"""C20 — hardware discretisation is faithful: voltages -> DAC codes, sample grids, window indices, driver-side sampling."""
import fractions
import itertools
import math
import os
import warnings

import vlib
from vlib import gZ, gQ, gbool, gopt, glist, gnat

F = fractions.Fraction
PID = 'C20'
COQ_DIRS = ['common', 'C20']
TARGETS = ['C20/Props.vo', 'C20/Corr.vo']
MODEL_TARGETS = ['C20/Corr.vo']
PROPS_FILE = 'C20/Props.v'
PROPS_MODULE = 'QV.C20.Props'
CORR_IMPORTS = ['QV.C20.Model', 'QV.C20.Spec', 'QV.C20.Corr']
CHECK_CORR = 'check_corr'
CHECK_SPEC = 'check_spec'
SHARD = 80     # round 5: smaller shards = less memory per coqc (the OOM killer hit 550 MB coqc processes on the loaded machine)
RULE = ('kinds: volt_tol = TOLERANCE STREAM, counted apart (never non-trivial, own histogram key): decimal amplitudes / '
        'offsets / voltages (binary64 values of decimal strings, handed exactly to the model), codes accepted within '
        '1/2 + 2^-30 of the exact scaled voltage, range / monotonicity / rejection / identity of the variants exact.  '
        'Exact kinds: volt (amplitude 2^k or (2^res-1)*2^k so that the float computation is exact; voltages at exact half '
        'steps, range ends, one grid step inside/outside the range, random dyadics; resolution 1..16, and <1 as malformed), '
        'mono, win (time windows unsorted / tied begins / begins at exact half samples / lengths at and just below an '
        'integer number of samples), shrink (integer windows sorted, touching, overlapping, nested, zero-length, unsorted; '
        'exhaustive over a small universe), avg (sorted time grid, windows sorted / nested / unsorted / empty), nni, '
        'times (durations with integer, half-integer, within/outside-tolerance sample counts), sample (real ProgramEntry '
        'over ConstantWaveform / TableWaveform / MultiChannelWaveform, channel slots with None, transformations, markers, '
        'undefined channels as malformed).  For volt/mono/win/shrink/avg BOTH internal implementations are called '
        'directly and the public entry point as well.  Non-trivial: volt with a non-integer scaled voltage or an error; '
        'win/shrink/avg with >= 2 windows that are not already sorted-and-disjoint; mono with >= 3 elements; sample with a '
        'transformation, a None slot or >= 2 waveforms; times with >= 2 durations or an error.  Distinct = distinct '
        'canonical JSON of the case.  ROUND 3 (argument objects): every routine is called TWICE ON THE SAME ARGUMENT '
        'OBJECTS per variant; exact snapshots (element kind + values, whole base array of a view) of every argument before / '
        'after the first / after the second call, result must not share memory with an argument; check_spec demands the '
        'second observation = the first and all snapshots equal (CTwice).  Argument attributes drawn per case among those '
        'on which the arithmetic stays exact: element kind float64 / float32 / int64 / int32 / uint64, read-only flag, '
        'strided view, amplitude / offset as Python ints, list / tuple / bare waveform.  Family gen_stateful: offset exactly '
        '0 vs 1 x every element kind x (low resolution, large amplitude | high resolution) x read-only / view; one array '
        'object for two parameters (begins is lengths; ends is begins; values is time; begins is time); the same channel id '
        'on 2-4 outputs with pairwise different amplitude / offset / transformation; resolutions 17..32 (must be rejected).  '
        'Pipelines (CAnd): the read-only result of time_windows_to_samples is fed to shrink_overlapping_windows; the result of '
        'a shrink is shrunk again (backends in place on one pair of arrays, twice).  ProgramEntry is built twice from the '
        'same waveform objects / tuples / callables / Loop tree; the first entry must hold the same samples afterwards.  '
        'ROUND 4 (numerics off the dyadic grid): sample rates that are no powers of two (NP2_RATES: 3, 12, 5, 10, 49; 12/5, '
        '6/5, 3/10, 7/10 with float(rate) < rate; 9/5, 18/5, 11/10, 13/10 with float(rate) > rate; 33/10, 1/3, 3/2, 5/4, 7/8): '
        'get_sample_times grids compared BIT-EXACT with the binary64 number nearest to the exact rational k / rate (rate as '
        'TimeType, plain float or int); ProgramEntry over hold tables whose jumps lie exactly on k / rate (staircase jumping on '
        'every sample, random edge subsets, half-sample edges, linear pieces without transformation; thorough: every single '
        'edge of 32 samples x every rate), compared exactly sample by sample (which side of the edge), markers on the very '
        'sample; every sample case also observes get_sample_times on the same waveform objects (CAnd).  win_tol = second '
        'TOLERANCE STREAM (counted apart): decimal begins / lengths / rates for time_windows_to_samples incl. products one ulp '
        'beside an integer / half-way point; check_corr exact (the model rounds the product to binary64), check_spec tolerance '
        '2^-30.  shrink_overlapping_windows is also called with use_numba=True / False.  Cases are shuffled before sharding.  '
        'ROUND 5: volt_tol range-end family (decimal amplitudes; voltages exactly on offset +- amplitude where that sum is '
        'exact, binary64 neighbours inside, with offset 0 one ulp outside = must be rejected).  classify files a failing avg '
        'case under the known finding only if the loop variant shows exactly the documented two-pointer behaviour '
        '(py_avg_loop) and numpy variant and public function are right.  ROUND 6: on the volt_tol stream check_corr is now '
        'EXACT as well (binary64 model Model.volt_numpy64 / volt_loop64 / volt_public64: every operation of the code rounded with '
        'Model.b64; the tolerance relation is kept beside it); check_spec unchanged (tolerance).  Deterministic family '
        'gen_volt_tol_ends2 (offset 0; amplitude / resolution pairs 0.9@16, 1.4@14, 0.7 / 1.1 / 1.3@8, 1.0@16, 0.5@12, 0.1@16, '
        '5.0@14): both range ends with 1..3 ulp inside in one accepted list, 1 / 3 ulp outside either end (must be rejected), and '
        'voltages whose float scaled value is exactly a half-way point k + 1/2.')
TRUSTED = [
    'Coq 8.16.1 kernel + vm_compute (no native_compute)',
    'translator /verif/translate/py2gallina_c20.py (typed Z/Q/bool/arrays, canonical loop state by liveness; fail-closed; output '
    're-proved equal to the clean model on every run) incl. its reading of numpy calls: np.rint/round = half-even, '
    'np.uintNN(float) = truncation without wrap-around, float arithmetic read as exact rational arithmetic, declared '
    'element kinds of unannotated array parameters (GEN table in the harness)',
    'numpy: elementwise float arithmetic is exact on the generated (dyadic) inputs of the exact streams; rint = half-to-even; '
    'searchsorted; binary64 rounding is modelled (Model.b64, proved equal to Flocq round-to-nearest-even) only for the sample '
    'grid, the products of the decimal window stream and (round 6) the four operations of voltage_to_uint16 on the decimal '
    'voltage stream: there numpy / CPython arithmetic is trusted to be correctly rounded IEEE arithmetic',
    'Waveform.get_sampled is the sampling function of a waveform (its own contract is property C08); the harness samples '
    'it on its own grid float(Fraction(k) / rate) (CPython int / int true division is correctly rounded; = k / rate for dyadic '
    'rates) and hands the values to the model',
    'harness: generators, exact float->rational conversion (as_integer_ratio), Gallina printers; the argument snapshots '
    '(numpy array -> element kind code + exact values) and np.shares_memory',
    'store16 (codes of 17..30 bit resolutions as stored by the INTERNAL variants = code mod 2^16) is the observed behaviour of '
    "numpy's float64 -> uint16 conversion on this platform (undefined in C); compared only for the internal variants, "
    'the public function rejects such resolutions',
]
ASSUMPTIONS = [
    'amplitude > 0; resolution outside 1..16 must be rejected (since repair 4036b19); wrap-around of the internal variants '
    'modelled for 17..30 bit only',
    'float32 / integer argument arrays only where every intermediate of the conversion is exactly representable in that kind',
    'window begins and lengths are non-negative (negative values overflow uint64 differently in the two variants)',
    'begins/lengths arrays have equal length; integer windows are int64/uint64 arrays',
    'average_windows: time array sorted (documented precondition), no NaN',
    'amplitudes are powers of two in the sampling cases so that the division by the amplitude is exact; sample rates: powers '
    'of two AND (round 4) the non-power-of-two rates of NP2_RATES; waveforms sampled at those rates are piecewise constant '
    '(hold tables) or have linear pieces without transformation / offset, so that everything after the grid is exact',
    'sample grid: rate numerator < 2^53 and n * denominator <= 2^53 (guard of the repaired get_sample_times; beyond it the old '
    'formula k / float(rate) is used, modelled as grid_old, not generated); plain float rates only where the rate is a '
    'binary64 number',
    'decimal window stream: begins, lengths >= 0, products below 2^22 samples',
    'binary64 theorems (C20_float_*): Flocq format FLT(-1074, 53), round-to-nearest-even, overflow not modelled; they rest '
    'on the real-number axioms of the standard library (sig_forall_dec, sig_not_dec, functional_extensionality_dep, classic)',
    'tolerance stream: the random family stays 1e-6*amplitude away from the range ends; the range-end families (round 5 / 6) use '
    'only offsets for which v - offset is exact at the ends (so that exact specification and float range test speak about the '
    'same number); amplitudes 1e-3 .. 33.3 (theorems: 2^-500 .. 2^500), resolutions 1..16',
    'binary64 voltage model (round 6): numpy / CPython subtraction, addition, multiplication, division are correctly rounded '
    'IEEE operations, 2 * amplitude does not overflow',
]

GEN = [   # (generated file, source file in the repo, kernels, declared element kinds of unannotated / ndarray parameters)
    ('Gen_performance.v', 'qupulse/utils/performance.py',
     ['_is_monotonic_numba', '_shrink_overlapping_windows_numba', '_time_windows_to_samples_sorted_numba'],
     {'_time_windows_to_samples_sorted_numba': {'begins': 'list Q', 'lengths': 'list Q'}}),
    ('Gen_util.v', 'qupulse/hardware/util.py', ['_voltage_to_uint16_numba', 'not_none_indices'],
     {'_voltage_to_uint16_numba': {'voltage': 'list Q'},
      'not_none_indices': {'seq': 'list (option Z)', 'indices': 'list (option Z)'}}),
]


def pregen(ctx):
    import sys
    sys.path.insert(0, os.path.join(vlib.VERIF, 'translate'))
    import py2gallina_c20
    obs = []
    for gen_file, src, kernels, types in GEN:
        name = 'translate:%s::%s' % (src, '+'.join(kernels))
        try:
            txt = py2gallina_c20.translate_functions(os.path.join(vlib.REPO, src), kernels, types=types)
            txt = txt.replace(vlib.REPO, '/repo')
            vlib.write_if_changed(os.path.join(vlib.COQ, 'C20', gen_file), txt + '\n')
            obs.append({'name': name, 'ok': True, 'detail': 'translated'})
        except Exception as e:   # Unsupported, SyntaxError, ...
            obs.append({'name': name, 'ok': False, 'detail': 'translator refused the current source: %s' % e})
    return obs


CHN = {'A': 1, 'B': 2, 'M': 3, 'N': 4, 0: 0, 'Z': 9, -1: 5, -2: 6}       # channel ids -> Z for the model (hash(-1) == hash(-2))


# ---------------------------------------------------------------------------------------------------------------------
# generators

def fs(x):
    return str(F(x))


def is_dyadic(x):
    d = F(x).denominator
    return d & (d - 1) == 0


def dy(rng, lo, hi, bits):
    """random dyadic rational in [lo, hi] with `bits` fractional bits"""
    return F(rng.randint(int(lo * 2 ** bits), int(hi * 2 ** bits)), 2 ** bits)


def gen_volt(rng, tier, out):
    n = {'quick': 1, 'thorough': 12}[tier]
    # boundary family: amp = M * 2^k  -> scale is a power of two, exact half steps are representable
    for res in ([1, 2, 3, 4, 8, 14, 16] if tier == 'quick' else range(1, 17)):
        M = 2 ** res - 1
        for k in ((-1, 0) if tier == 'quick' else (-2, -1, 0, 1)):
            amp = F(M) * F(2) ** k
            off = rng.choice([F(0), F(1, 2), F(-3, 4), F(5)])
            lo = off - amp
            step = 2 * amp / M               # = 2^(k+1)
            js = sorted({0, 1, 2, M - 1, M // 2, max(0, M // 2 - 1), rng.randint(0, M - 1), rng.randint(0, M - 1)})
            vs = []
            for j in js:
                if j < M:
                    vs += [lo + j * step, lo + j * step + step / 2, lo + j * step + step / 4, lo + j * step + 3 * step / 4]
            vs += [lo, lo + 2 * amp, off]
            rng.shuffle(vs)
            out.append({'kind': 'volt', 'amp': fs(amp), 'off': fs(off), 'res': res, 'vs': [fs(v) for v in vs[:24]]})
            # just outside / exactly at the ends
            for bad in (lo - step / 1024, lo + 2 * amp + step / 1024):
                if rng.random() < 0.6:
                    out.append({'kind': 'volt', 'amp': fs(amp), 'off': fs(off), 'res': res,
                                'vs': [fs(lo), fs(bad), fs(lo + 2 * amp)]})
            out.append({'kind': 'volt', 'amp': fs(amp), 'off': fs(off), 'res': res,
                        'vs': [fs(lo + 2 * amp - step / 1024), fs(lo + step / 1024), fs(lo), fs(lo + 2 * amp)]})
    # amp = 2^k family
    for _ in range(120 * n):
        res = rng.choice([1, 2, 3, 5, 8, 10, 12, 14, 15, 16])
        amp = F(2) ** rng.randint(-2, 3)
        off = rng.choice([F(0), F(0), dy(rng, -2, 2, 3)])
        m = rng.randint(0, 12)
        vs = [off + dy(rng, -amp, amp, 10) for _ in range(m)]
        r = rng.random()
        if r < 0.3:
            vs += [off - amp, off + amp]
        if r < 0.12 and vs:
            vs[rng.randrange(len(vs))] = off + rng.choice([-1, 1]) * (amp + F(1, 2 ** rng.randint(1, 12)))   # malformed
        rng.shuffle(vs)
        out.append({'kind': 'volt', 'amp': fs(amp), 'off': fs(off), 'res': res, 'vs': [fs(v) for v in vs]})
    # sorted ramps (monotonicity), all codes of a small resolution
    for res in (1, 2, 3, 4):
        M = 2 ** res - 1
        amp = F(M)
        vs = [F(-M) + F(i, 4) for i in range(0, 8 * M + 1)]
        out.append({'kind': 'volt', 'amp': fs(amp), 'off': '0', 'res': res, 'vs': [fs(v) for v in vs]})
    if tier == 'thorough':      # every quarter step of every resolution <= 6 (amp = M: the scaled voltage is exact)
        for res in range(1, 7):
            M = 2 ** res - 1
            for off in (F(0), F(3, 4)):
                vs = [off - M + F(i, 2) for i in range(0, 4 * M + 1)]
                for i in range(0, len(vs), 40):
                    out.append({'kind': 'volt', 'amp': fs(M), 'off': fs(off), 'res': res, 'vs': [fs(v) for v in vs[i:i + 41]]})
    for res in (0, -1):                                                       # malformed resolution
        out.append({'kind': 'volt', 'amp': '1', 'off': '0', 'res': res, 'vs': ['0', '1/2']})
    for res in (17, 18, 20, 24, 32):          # more bits than the uint16 result has: must be rejected (codes would wrap)
        out.append({'kind': 'volt', 'amp': '1', 'off': '0', 'res': res, 'vs': ['-1', '0', '1/2', '1']})
        amp = F(2) ** rng.randint(-1, 2)
        off = rng.choice([F(0), F(1, 2)])
        out.append({'kind': 'volt', 'amp': fs(amp), 'off': fs(off), 'res': res,
                    'vs': [fs(off + dy(rng, -amp, amp, 6)) for _ in range(rng.randint(1, 5))]})


def gen_volt_tol(rng, tier, out):
    """tolerance stream: decimal (non-dyadic) amplitudes, offsets and voltages.  The numbers handed to the implementation
    are the binary64 values of the decimal strings; the model gets exactly those values, so the only inexactness is the
    rounding of the float operations inside voltage_to_uint16.  Voltages stay 1e-6*amp away from the range ends (the
    float range test could go either way there); clearly out-of-range values test the rejection."""
    n = {'quick': 60, 'thorough': 1500}[tier]
    for k in range(n):
        amp = rng.choice(['0.3', '0.7', '1.5', '2.3', '0.05', '0.123', '4.7', '1e-3'])
        off = rng.choice(['0', '0', '0.1', '-0.25', '0.033', '1.7'])
        res = rng.choice([8, 10, 12, 14, 15, 16])
        fa, fo = float(amp), float(off)
        m = rng.randint(1, 14)
        us = [round(rng.uniform(-0.999, 0.999), rng.choice([1, 2, 3, 6])) for _ in range(m)]
        if k % 3 == 0:
            us = sorted(us)                                  # ramps: monotonicity
        if k % 5 == 0:
            M = 2 ** res - 1                                 # near half-way points of the code grid
            us = [((rng.randint(0, M - 1) + 0.5) * 2 / M - 1) * (1 - 1e-9) for _ in range(m)]
        vs = [fo + fa * u for u in us]
        if rng.random() < 0.1:
            vs[rng.randrange(m)] = fo + rng.choice([-1, 1]) * fa * 1.01      # malformed: clearly outside
        vs = [v for v in vs if abs(abs(F(v) - F(fo)) - F(fa)) > F(fa) / 10 ** 6]
        out.append({'kind': 'volt_tol', 'amp': fs(F(fa)), 'off': fs(F(fo)), 'res': res, 'vs': [fs(F(v)) for v in vs],
                    'decimal': [amp, off]})


def gen_volt_tol_ends(rng, tier, out):
    """round 5 (clause "maps the range ends to the lowest and highest code ... rejects out-of-range input", decimal amplitudes):
    the random tolerance stream stays 1e-6 * amplitude away from the range ends.  Here: voltages EXACTLY on offset +- amplitude
    (only offsets for which that sum is exact in binary64, so that the exact specification and the float range test speak about
    the same number), the binary64 neighbours just inside, and — offset 0, where v - offset is exact — the neighbours just
    OUTSIDE (must be rejected: one ulp beyond the range)."""
    amps = ['0.3', '0.7', '1.5', '2.3', '0.05', '0.123', '4.7', '1e-3']
    for amp in amps:
        for off in ('0', '0.25', '-0.5', '0.1', '1.7'):
            fa, fo = float(amp), float(off)
            ends = [v for v in (fo - fa, fo + fa) if abs(F(v) - F(fo)) == F(fa)]
            if len(ends) < 2:
                continue
            for res in ((1, 2, 8, 13, 16) if tier == 'thorough' else (rng.choice([1, 2, 8]), 16)):
                inside = [math.nextafter(ends[0], fo), math.nextafter(ends[1], fo)]
                out.append({'kind': 'volt_tol', 'amp': fs(F(fa)), 'off': fs(F(fo)), 'res': res,
                            'vs': [fs(F(v)) for v in [ends[0], inside[0], fo, inside[1], ends[1]]], 'decimal': [amp, off], 'ends': True})
                if F(fo) == 0:
                    for v in (math.nextafter(ends[0], -math.inf), math.nextafter(ends[1], math.inf)):
                        out.append({'kind': 'volt_tol', 'amp': fs(F(fa)), 'off': '0', 'res': res,
                                    'vs': [fs(F(x)) for x in (ends[0], v, ends[1])], 'decimal': [amp, off], 'ends': True})


def gen_volt_tol_ends2(tier, out):
    """round 6 (deterministic, draws nothing; class of seed C20-9: a range test on the SCALED value instead of on v - offset).
    Offset 0 (so v - offset is exact and the exact specification and the float range test speak about the same number),
    amplitude / resolution pairs for which (2 amp) * fl((2^r - 1) / (2 amp)) is above, below or exactly 2^r - 1; voltages ON both
    range ends and 1, 2, 3 ulp inside (one accepted list), and each of 1, 2, 3 ulp OUTSIDE either end alone with the two ends
    (must be rejected).  check_corr compares all of them EXACTLY with the binary64 model (Model.volt_numpy64 / volt_loop64)."""
    pairs = [('0.9', 16), ('1.4', 14), ('0.7', 8), ('1.1', 8), ('1.3', 8), ('1.0', 16), ('0.5', 12), ('0.1', 16), ('5.0', 14)]
    if tier == 'thorough':
        pairs += [(a, r) for a in ('0.9', '1.4', '0.7', '1.1', '1.3', '0.1', '5.0', '0.3', '2.3', '1e-3', '33.3') for r in (1, 2, 7, 8, 13, 14, 15, 16)]
    for amp, res in pairs:
        fa = float(amp)

        def step(v, n, towards):
            for _ in range(n):
                v = math.nextafter(v, towards)
            return v
        ins = [-fa] + [step(-fa, n, 0.0) for n in (1, 2, 3)] + [0.0] + [step(fa, n, 0.0) for n in (3, 2, 1)] + [fa]
        out.append({'kind': 'volt_tol', 'amp': fs(F(fa)), 'off': '0', 'res': res, 'vs': [fs(F(v)) for v in ins],
                    'decimal': [amp, '0'], 'ends': True})
        for n in ((1, 2, 3) if tier == 'thorough' else (1, 3)):
            for v in (step(-fa, n, -math.inf), step(fa, n, math.inf)):
                out.append({'kind': 'volt_tol', 'amp': fs(F(fa)), 'off': '0', 'res': res,
                            'vs': [fs(F(x)) for x in (-fa, v, fa)], 'decimal': [amp, '0'], 'ends': True})
        # voltages whose FLOAT scaled value (the code's order of operations) is exactly a half-way point k + 1/2 (the tie goes to
        # the even code) although amplitude and voltage are no dyadic-simple numbers: any other order of the float operations
        # (scale folded differently, division instead of multiplication) lands an ulp beside it and gives the other code
        M = 2 ** res - 1
        scale = M / (2 * fa)
        ties = []
        for k in sorted({0, 1, 2, M // 3, M // 2, M - 2, M - 1} - {M, -1}):
            if k < 0:
                continue
            v0 = (k + 0.5) / scale - fa
            cands = [v0] + [step(v0, n, math.inf) for n in range(1, 9)] + [step(v0, n, -math.inf) for n in range(1, 9)]
            hit = [v for v in cands if abs(v) <= fa and (v + fa) * scale == k + 0.5]
            ties += hit[:2]
        if ties:
            out.append({'kind': 'volt_tol', 'amp': fs(F(fa)), 'off': '0', 'res': res, 'vs': [fs(F(v)) for v in sorted(ties)],
                        'decimal': [amp, '0'], 'ties': True})


def gen_mono(rng, tier, out):
    n = {'quick': 1, 'thorough': 5}[tier]
    for xs in ([], [1], [1, 1], [1, 2], [2, 1], [0, 0, 0], [0, 1, 1, 2], [0, 2, 1, 3], [3, 2, 1], [0, 1, 2, 1],
               [1, 0, 1, 2]):
        out.append({'kind': 'mono', 'xs': [fs(x) for x in xs]})
    for _ in range(60 * n):
        m = rng.randint(2, 7)
        xs = sorted(dy(rng, 0, 4, 2) for _ in range(m))
        if rng.random() < 0.5:
            i = rng.randrange(m)
            xs[i] = dy(rng, 0, 4, 2)
        out.append({'kind': 'mono', 'xs': [fs(x) for x in xs]})


def gen_win(rng, tier, out):
    n = {'quick': 1, 'thorough': 12}[tier]
    fixed = [
        (1, []), (1, [(0, 0)]), (1, [('1/2', 1), ('3/2', 1), ('5/2', 1)]), (2, [('1/4', '1/2'), ('3/4', '3/4')]),
        (1, [(3, 1), (1, 1), (2, 1)]), (1, [(1, 2), (1, 3)]), (1, [(1, 3), (1, 2)]), (1, [(1, 1), (1, 2), (0, 3), (0, 4)]),
        (1, [(0, 1), (1, 2), (1, 3), (1, 4), (0, 5)]), ('1/2', [(1, 1), (3, 3), (5, 5)]), (4, [('1/8', '1/8'), ('3/8', '7/16')]),
        (1, [(0, 1), (0, 2), (0, 3), (0, 4), (0, 5), (0, 6)]),
    ]
    for sr, ws in fixed:
        out.append({'kind': 'win', 'sr': fs(sr), 'ws': [[fs(b), fs(l)] for b, l in ws]})
    if tier == 'thorough':      # exhaustive: <= 3 windows (and a sample of 4) over a half-step universe, rates 1 and 2
        uni = [(F(b, 2), F(l, 4)) for b in range(0, 4) for l in (0, 2, 3, 4)]
        for sr in (F(1), F(2)):
            for k in (1, 2, 3):
                for ws in itertools.product(uni, repeat=k):
                    out.append({'kind': 'win', 'sr': fs(sr), 'ws': [[fs(b), fs(l)] for b, l in ws]})
            for _ in range(2000):
                ws = [rng.choice(uni) for _ in range(rng.choice([4, 5, 6, 8]))]
                out.append({'kind': 'win', 'sr': fs(sr), 'ws': [[fs(b), fs(l)] for b, l in ws]})
    for _ in range(150 * n):
        sr = rng.choice([F(1), F(1), F(2), F(1, 2), F(4), F(3, 2), F(5, 4)])
        m = rng.randint(1, 6)
        ws = []
        for _ in range(m):
            r = rng.random()
            if r < 0.35:
                b = (F(rng.randint(0, 8)) + F(1, 2)) / sr                    # exactly half a sample
            elif r < 0.5:
                b = F(rng.randint(0, 8)) / sr
            else:
                b = dy(rng, 0, 8, 3)
            r = rng.random()
            if r < 0.3:
                l = F(rng.randint(0, 6)) / sr
            elif r < 0.5:
                l = (F(rng.randint(1, 6)) - F(1, 64)) / sr                  # just below an integer number of samples
            else:
                l = dy(rng, 0, 6, 3)
            if not is_dyadic(b):
                b = F(rng.choice([1, 3, 5, 7] if sr == F(3, 2) else [2, 6, 10] if sr == F(5, 4) else [0, 1, 2, 3]))   # b * sr half-integral
            if not is_dyadic(l):
                l = dy(rng, 0, 6, 3)
            ws.append((b, l))
        r = rng.random()
        if r < 0.3:
            ws.sort(key=lambda w: w[0])
        elif r < 0.45 and m >= 2:
            ws[rng.randrange(m)] = (ws[0][0], ws[rng.randrange(m)][1])     # tie
        out.append({'kind': 'win', 'sr': fs(sr), 'ws': [[fs(b), fs(l)] for b, l in ws]})


def gen_win_tol(rng, tier, out):
    """decimal stream for time_windows_to_samples: begins / lengths / sample rates are the binary64 values of decimal strings
    (the model gets exactly those values and rounds the product to binary64 like the code: check_corr is EXACT); check_spec is
    the tolerance specification.  Includes lengths N / rate and begins (N + 1/2) / rate computed in floating point, i.e.
    products that land on or one ulp beside an integer / a half-way point."""
    n = {'quick': 60, 'thorough': 1500}[tier]
    rates = ['1.2', '2.4', '0.1', '10', '100', '3', '0.3', '1e-3', '1.8', '2.5', '0.7', '1.1']
    for _ in range(n):
        sr = float(rng.choice(rates))
        ws = []
        for _ in range(rng.randint(1, 6)):
            r = rng.random()
            if r < 0.3:
                b = (rng.randint(0, 400) + 0.5) / sr
            elif r < 0.5:
                b = rng.randint(0, 400) / sr
            else:
                b = round(rng.uniform(0, 300), rng.choice([1, 2, 3]))
            r = rng.random()
            if r < 0.4:
                l = rng.randint(0, 300) / sr
            elif r < 0.5:
                l = float(rng.randint(0, 300)) * (1 / sr)
            else:
                l = round(rng.uniform(0, 200), rng.choice([1, 2, 3]))
            ws.append((b, l))
        r = rng.random()
        if r < 0.3:
            ws.sort()
        elif r < 0.4 and len(ws) >= 2:
            ws[-1] = (ws[0][0], ws[-1][1])          # tie
        out.append({'kind': 'win_tol', 'sr': fs(F(sr)), 'ws': [[fs(F(b)), fs(F(l))] for b, l in ws]})


def shrink_universe(max_n, top):
    ws1 = [(b, l) for b in range(top + 1) for l in range(top + 1 - b)]
    for k in range(0, max_n + 1):
        for ws in itertools.product(ws1, repeat=k):
            yield ws


def gen_shrink(rng, tier, out):
    n = {'quick': 1, 'thorough': 12}[tier]
    if tier == 'quick':
        allw = list(shrink_universe(3, 3))
        pick = [w for w in allw if len(w) <= 2] + rng.sample([w for w in allw if len(w) == 3], 250)
    else:
        pick = list(shrink_universe(3, 4)) + [w for w in shrink_universe(4, 3) if len(w) == 4]
    for ws in pick:
        out.append({'kind': 'shrink', 'dtype': rng.choice(['int64', 'uint64']), 'ws': [list(w) for w in ws]})
    for _ in range(150 * n):
        m = rng.randint(2, 7)
        ws, t = [], 0
        for _ in range(m):
            b = t + rng.choice([0, 0, 1, 3, -1, -2, -4])
            b = max(b, 0)
            l = rng.choice([0, 1, 2, 3, 5, 8])
            ws.append([b, l])
            t = b + l
        if rng.random() < 0.15:
            rng.shuffle(ws)
        out.append({'kind': 'shrink', 'dtype': rng.choice(['int64', 'uint64']), 'ws': ws})


def gen_avg(rng, tier, out):
    n = {'quick': 1, 'thorough': 12}[tier]
    for _ in range(160 * n):
        ns = rng.randint(0, 9)
        r = rng.random()
        if r < 0.5:
            time = [F(i) for i in range(ns)]
        elif r < 0.8:
            time = sorted(dy(rng, 0, 8, 1) for _ in range(ns))               # duplicates possible
        else:
            time = [F(i, 2) + 1 for i in range(ns)]
        nch = rng.choice([0, 0, 1, 2, 3])
        values = [[F(2520 * rng.randint(-4, 4), 4) for _ in range(max(nch, 1))] for _ in range(ns)]
        m = rng.randint(0, 4)
        ws = []
        shape = rng.random()
        t = F(0)
        for _ in range(m):
            if shape < 0.45:       # sorted, disjoint or touching
                b = t + rng.choice([F(0), F(1, 2), F(1), F(2)])
                e = b + rng.choice([F(0), F(1, 2), F(1), F(2), F(3)])
                t = e
            elif shape < 0.65:     # sorted begins, overlapping
                b = t + rng.choice([F(0), F(1, 2), F(1)])
                e = b + rng.choice([F(1), F(2), F(3), F(5)])
                t = b
            else:                  # anything: nested, unsorted, inverted
                b = dy(rng, -1, 8, 1)
                e = b + rng.choice([F(-1), F(0), F(1, 2), F(1), F(2), F(4), F(9)])
            ws.append((b, e))
        out.append({'kind': 'avg', 'nch': nch, 'time': [fs(t) for t in time],
                    'values': [[fs(v) for v in row] for row in values], 'ws': [[fs(b), fs(e)] for b, e in ws]})
    if tier == 'thorough':        # exhaustive: 5 samples at 0..4, every pair of windows with ends in 0..5
        one = [(b, e) for b in range(0, 6) for e in range(b, 6)]
        vals = [[F(2520 * v)] for v in (1, -2, 3, 0, 2)]
        for w1 in one:
            for w2 in one:
                out.append({'kind': 'avg', 'nch': 0, 'time': [str(i) for i in range(5)],
                            'values': [[fs(v[0])] for v in vals], 'ws': [[str(w1[0]), str(w1[1])], [str(w2[0]), str(w2[1])]]})


def gen_nni(rng, tier, out):
    for l in ([], [None], [5], [None, 0, 1, None, None, 2], [0, None], [None, None]):
        out.append({'kind': 'nni', 'l': l})
    for _ in range(30 if tier == 'quick' else 200):
        out.append({'kind': 'nni', 'l': [rng.choice([None, None, 0, 1, 7]) for _ in range(rng.randint(0, 8))]})


def gen_times(rng, tier, out):
    n = {'quick': 1, 'thorough': 12}[tier]
    out.append({'kind': 'times', 'rate': '1', 'durs': []})
    for _ in range(60 * n):
        rate = F(2) ** rng.randint(-3, 3)
        m = rng.randint(1, 4)
        durs = []
        for _ in range(m):
            k = rng.randint(1, 12)
            r = rng.random()
            if r < 0.7:
                d = F(k) / rate
            elif r < 0.78:
                d = (F(k) + F(1, 2)) / rate          # half a sample: rejected
            elif r < 0.86:
                d = (F(k) + rng.choice([-1, 1]) * F(1, 10 ** 12)) / rate     # inside the tolerance
            elif r < 0.90:
                d = (F(k) + rng.choice([-1, 1]) * F(1, 2 * 10 ** 11)) / rate  # 5e-12: just inside
            elif r < 0.94:
                d = (F(k) + rng.choice([-1, 1]) * rng.choice([F(1, 10 ** 8), F(5, 10 ** 10), F(2, 10 ** 10)])) / rate  # outside
            else:
                d = F(1, 10 ** 12) / rate                                     # rounds to 0 samples: rejected
            durs.append(d)
        out.append({'kind': 'times', 'rate': fs(rate), 'durs': [fs(d) for d in durs]})


# ROUND 4: sample rates that are no powers of two.  k / rate is then no binary64 number; the specification is the correctly
# rounded exact quotient (Model.grid_time = float(Fraction(k) / rate)).  Integer rates (3, 5, 10, 12, 49: float(rate) exact,
# so k / float(rate) is right but k * (1 / float(rate)) is one ulp off at k = 5, 7, 10, 14 ... / 3, 6, 7, 12 ... / 5, 9 ...),
# decimal rates whose binary64 value is BELOW the rate (12/5, 6/5, 3/10, 7/10: k / float(rate) comes out one ulp high) and
# ABOVE it (9/5, 18/5, 11/10, 13/10: one ulp low, the sample on a jump is taken before it), 1/3 and dyadic non-powers.
NP2_RATES = [F(3), F(12), F(5), F(10), F(49), F(12, 5), F(6, 5), F(3, 10), F(7, 10), F(9, 5), F(18, 5), F(11, 10), F(13, 10),
             F(33, 10), F(1, 3), F(3, 2), F(5, 4), F(7, 8)]


def gen_times_np2(rng, tier, out):
    for rate in NP2_RATES:                                        # deterministic: one long grid per rate
        n = 100 if rate in (49, F(9, 5)) else 40
        out.append({'kind': 'times', 'rate': fs(rate), 'durs': [fs(F(n) / rate)]})
    for _ in range({'quick': 40, 'thorough': 600}[tier]):
        rate = rng.choice(NP2_RATES)
        durs = []
        for _ in range(rng.randint(1, 3)):
            k = rng.randint(1, 64)
            r = rng.random()
            if r < 0.8:
                d = F(k) / rate
            elif r < 0.86:
                d = (F(k) + F(1, 2)) / rate                                   # rejected
            elif r < 0.93:
                d = (F(k) + rng.choice([-1, 1]) * F(1, 10 ** 12)) / rate     # inside the tolerance
            else:
                d = (F(k) + rng.choice([-1, 1]) * F(1, 10 ** 8)) / rate      # outside
            durs.append(d)
        out.append({'kind': 'times', 'rate': fs(rate), 'durs': [fs(d) for d in durs]})


def _staircase(rate, n, mk, rng=None, edges=None, half=False):
    """hold table over n samples: a jump to a new level at every edge (in samples; default: every sample), placed EXACTLY on
    k / rate (or on (k + 1/2) / rate)"""
    edges = list(range(1, n)) if edges is None else edges
    tab = [['0', '0' if mk else '1/4', 'hold']]
    for i, k in enumerate(edges):
        v = F((i + 1) % 2) if mk else F(((i * 5 + 3) % 17) - 8, 4)
        if F(tab[-1][1]) == v:
            v += F(1, 4)
        tab.append([fs((F(k) + (F(1, 2) if half else 0)) / rate), fs(v), 'hold'])
    tab.append([fs(F(n) / rate), fs(F(tab[-1][1]) + F(1, 2)), 'hold'])
    return {'table': tab}


def gen_sample_np2(rng, tier, out):
    """waveform edges exactly on the sample grid of a non-power-of-two rate"""
    def case(rate, wfs, chans, markers, **kw):
        c = {'kind': 'sample', 'rate': fs(rate), 'chans': chans, 'markers': markers, 'wfs': wfs, 'via_loop': False,
             'repeat': [], 'rat': True}
        c.update(kw)
        out.append(c)
    plain = lambda ch: {'ch': ch, 'T': None, 'amp': '1', 'off': '0'}
    # deterministic: a staircase that jumps on EVERY sample, channel + marker derived from it
    for rate in NP2_RATES:
        n = 64 if rate in (49, F(9, 5)) else 24
        wf = {'dur': fs(F(n) / rate), 'chs': [['A', _staircase(rate, n, False)], ['M', _staircase(rate, n, True)]]}
        case(rate, [wf], [plain('A'), {'ch': 'A', 'T': ['aff', '2', '1'], 'amp': '2', 'off': '1/2'}], ['M', 'A'])
    if tier == 'thorough':           # small scope, exhaustive: one single jump at every k of 32 samples, every rate
        for rate in NP2_RATES:
            for k in range(1, 32):
                wf = {'dur': fs(F(32) / rate), 'chs': [['A', _staircase(rate, 32, True, edges=[k])]]}
                case(rate, [wf], [plain('A')], ['A'])
    for _ in range({'quick': 40, 'thorough': 500}[tier]):
        rate = rng.choice(NP2_RATES)
        lin = rng.random() < 0.25        # linear pieces: exact only without transformation / offset (the values are arbitrary
        wfs = []                         # binary64 numbers, amplitude 2^j keeps the division exact)
        for _ in range(rng.choice([1, 1, 2, 3])):
            n = rng.randint(2, 48)
            chs = []
            for c in rng.choice([['A'], ['A', 'M'], ['A', 'B', 'M']]):
                mk = c == 'M'
                r = rng.random()
                if r < 0.15:
                    chs.append([c, {'const': fs(F(rng.randint(-8, 8), 4))}])
                    continue
                edges = sorted(rng.sample(range(1, n), rng.randint(1, min(6, n - 1))))
                d = _staircase(rate, n, mk, edges=edges, half=rng.random() < 0.15)
                if lin and not mk:
                    for row in d['table'][1:]:
                        if rng.random() < 0.5:
                            row[2] = 'linear'
                chs.append([c, d])
            w = {'dur': fs(F(n) / rate), 'chs': chs}
            if all([x for x, _ in w['chs']] == [x for x, _ in v['chs']] for v in wfs) and w not in wfs:
                wfs.append(w)
        common = [c for c, _ in wfs[0]['chs']]
        chans = []
        for _ in range(rng.randint(1, 3)):
            if rng.random() < 0.2:
                chans.append(None)
            elif lin:
                chans.append({'ch': rng.choice(common), 'T': None, 'amp': fs(F(2) ** rng.randint(-2, 2)), 'off': '0'})
            else:
                chans.append({'ch': rng.choice(common), 'T': rng.choice(TRAFOS), 'amp': fs(F(2) ** rng.randint(-2, 2)),
                              'off': fs(rng.choice([F(0), F(1, 2), F(-1, 4)]))})
        markers = [rng.choice([None] + common) for _ in range(rng.randint(1, 2))]
        via_loop = rng.random() < 0.3
        case(rate, wfs, chans, markers, via_loop=via_loop,
             repeat=[rng.randint(0, len(wfs) - 1)] if via_loop and rng.random() < 0.5 else [], lin=lin)


TRAFOS = [None, None, ['aff', '2', '1'], ['aff', '1/2', '-1/4'], ['aff', '-1', '0'], ['sq'], ['aff', '0', '3/4']]


def gen_wf(rng, rate):
    """descriptor of a waveform: duration + per channel a constant or a table of (t, v, interp).  Table times are
    multiples of half a sample, linear pieces have a power-of-two length in half samples and values are multiples of
    1/4, so that interpolation, transformation and scaling are exact in binary64."""
    nsamp = rng.randint(1, 7)
    dur = F(nsamp) / rate
    chs = {}
    names = rng.choice([['A'], ['A', 'M'], ['A', 'B', 'M'], ['A', 'B', 'M', 'N'], [0, 'A', 'M'], [-1, -2, 'A']])
    for c in names:
        mk = c in ('M', 'N')
        if rng.random() < 0.4:
            chs[c] = {'const': fs(0 if mk and rng.random() < 0.5 else F(rng.randint(-8, 8), 4))}
        else:
            k = rng.randint(1, 3)
            cuts = sorted(rng.sample(range(1, 2 * nsamp), min(k, 2 * nsamp - 1))) if nsamp > 0 and 2 * nsamp > 1 else []
            hs = [0] + cuts + [2 * nsamp]                    # in half samples
            tab, prev = [], None
            for i, h in enumerate(hs):
                v = F(0) if mk and rng.random() < 0.5 else F(rng.randint(-8, 8), 4)
                while v == prev:
                    v = F(rng.randint(-8, 8), 4)
                prev = v
                seg = h - hs[i - 1] if i > 0 else 1
                lin = (not mk) and seg in (1, 2, 4, 8) and rng.random() < 0.6
                tab.append([fs(F(h, 2) / rate), fs(v), 'linear' if lin else 'hold'])
            chs[c] = {'table': tab}
    return {'dur': fs(dur), 'chs': [[c, chs[c]] for c in names]}


def gen_sample(rng, tier, out):
    n = {'quick': 1, 'thorough': 12}[tier]
    for i in range(140 * n):
        rate = F(2) ** rng.randint(-2, 2)
        nw = rng.choice([1, 1, 2, 3, 4])
        wfs = []
        while len(wfs) < nw:
            w = gen_wf(rng, rate)
            if w not in wfs:
                wfs.append(w)
        common = set(c for c, _ in wfs[0]['chs'])
        for w in wfs[1:]:
            common &= set(c for c, _ in w['chs'])
        common = sorted(common, key=str)
        chans = []
        for _ in range(rng.randint(0, 4)):
            if rng.random() < 0.25:
                chans.append(None)
            else:
                ch = rng.choice(common)
                if rng.random() < 0.04:
                    ch = 'Z'                                                   # malformed: undefined channel
                chans.append({'ch': ch, 'T': rng.choice(TRAFOS), 'amp': fs(F(2) ** rng.randint(-2, 2)),
                              'off': fs(rng.choice([F(0), F(1, 2), F(-1, 4), F(1)]))})
        markers = [rng.choice([None] + common) for _ in range(rng.randint(0, 3))]
        r = rng.random()
        if r < 0.08:      # malformed: a duration that is not a whole number of samples
            wfs[-1]['dur'] = fs(F(wfs[-1]['dur']) + F(1, 2) / rate)
            for c, d in wfs[-1]['chs']:
                if 'table' in d:
                    d['table'][-1][0] = wfs[-1]['dur']
        via_loop = rng.random() < 0.3
        reps = [rng.randint(0, nw - 1) for _ in range(rng.randint(0, 2))] if via_loop else []
        out.append({'kind': 'sample', 'rate': fs(rate), 'chans': chans, 'markers': markers, 'wfs': wfs,
                    'via_loop': via_loop, 'repeat': reps})


def _bits_ok(x, bits=24):
    """x is a dyadic rational with a significand of at most `bits` bits (exactly representable in binary32 for bits=24)"""
    x = F(x)
    if x == 0:
        return True
    n, d = abs(x.numerator), x.denominator
    if d & (d - 1) or d > 2 ** 60:
        return False
    while n % 2 == 0:
        n //= 2
    return n.bit_length() <= bits


def _is_int(x):
    return F(x).denominator == 1


def volt_f4_ok(case):
    """every value and every intermediate of the conversion is exactly representable in binary32"""
    amp, off, res = F(case['amp']), F(case['off']), case['res']
    if res < 1 or res > 16 or amp <= 0:
        return False
    scale = F(2 ** res - 1) / (2 * amp)
    xs = [amp, off, scale]
    for v in case['vs']:
        x = F(v) - off
        xs += [F(v), x, x + amp, (x + amp) * scale]
    return all(_bits_ok(x) for x in xs)


def decorate(rng, c):
    """argument-object attributes: element kind of the arrays, read-only flag, strided view; chosen among the kinds on which
    the computation stays exact"""
    k = c['kind']
    if k == 'volt':
        kinds = ['f8', 'f8', 'f8']
        if volt_f4_ok(c):
            kinds.append('f4')
        if c['vs'] and all(_is_int(v) for v in c['vs']):
            kinds += ['i8', 'i8', 'i4']
        c.setdefault('dtype', rng.choice(kinds))
        c.setdefault('intscalars', rng.random() < 0.25)
        if not c['intscalars']:        # amplitude / offset as numpy scalars (round 4; only kinds in which they are exact)
            sk = ['float', 'float', 'float64']
            if _bits_ok(c['amp']) and _bits_ok(c['off']) and volt_f4_ok(c):
                sk.append('float32')
            if _is_int(c['amp']) and _is_int(c['off']):
                sk += ['int64'] + (['uint8'] if 0 <= F(c['off']) < 100 and F(c['amp']) < 100 else [])
            c.setdefault('scalars', rng.choice(sk))
    if k == 'mono':
        kinds = ['f8', 'f8', 'f4'] + (['i8', 'i4', 'u8'] if all(_is_int(x) and F(x) >= 0 for x in c['xs']) else [])
        c.setdefault('dtype', rng.choice(kinds))
    if k == 'win':
        sr = F(c['sr'])
        kinds = ['f8', 'f8', 'f8']
        vals = [F(x) for w in c['ws'] for x in w]
        if all(_bits_ok(x) and _bits_ok(x * sr) for x in vals):
            kinds.append('f4')
        if vals and all(_is_int(x) for x in vals):
            kinds += ['i8', 'u8', 'i4']
        c.setdefault('dtype', rng.choice(kinds))
    if k == 'avg':
        tk = ['f8', 'f8', 'f4'] + (['i8', 'i4'] if all(_is_int(x) for x in c['time'] + [y for w in c['ws'] for y in w]) else [])
        c.setdefault('dtype', rng.choice(tk))
        vk = ['f8', 'f8'] + (['i8', 'i4'] if all(_is_int(v) for row in c['values'] for v in row) else [])
        if all(_bits_ok(F(v) * n) for row in c['values'] for v in row for n in range(1, len(c['time']) + 2)):
            vk.append('f4')
        c.setdefault('vdtype', rng.choice(vk) if c.get('alias') != 'tv' else c['dtype'])
    if k in ('volt', 'volt_tol', 'mono', 'win', 'win_tol', 'shrink', 'avg'):
        c.setdefault('ro', rng.random() < 0.3)
        c.setdefault('view', rng.random() < 0.25)
    if k == 'shrink':
        c.setdefault('use_numba', rng.choice([None, None, True, False]))     # backend selection argument of the public function
    if k == 'times' and is_dyadic(c['rate']) and F(c['rate']).numerator < 2 ** 40 and not c.get('ratekind'):
        # a plain float as sample rate (no numerator / denominator): get_sample_times keeps k / float(rate), which is the
        # correctly rounded quotient because the rate IS a binary64 number (C20_grid_old_correct)
        c['ratekind'] = rng.choice(['TimeType', 'TimeType', 'float', 'int' if _is_int(c['rate']) else 'float'])
    if k == 'nni':
        c.setdefault('tuple', rng.random() < 0.5)
    if k == 'times':
        c.setdefault('container', rng.choice(['list', 'tuple', 'single'] if len(c['durs']) == 1 else ['list', 'tuple']))
    return c


def gen_stateful(rng, tier, out):
    """Boundary family for the stateful / aliasing classes (round 3): the SAME argument objects are used for two calls by
    run_impl for every case; here the inputs on which an in-place shortcut would show: offset exactly 0 vs non-zero, every
    element kind, low resolution / large amplitude (values written back in place stay inside the range, so a second
    conversion silently gives other codes) and high resolution (the second conversion is out of range), read-only arrays,
    strided views; the same array object passed for two parameters (begins is lengths; ends is begins; values is time;
    begins is time)."""
    n = {'quick': 1, 'thorough': 6}[tier]
    for dt in ('f8', 'f4', 'i8', 'i4'):
        for off in (F(0), F(1)):
            for res, amp in ((1, 8), (2, 8), (4, 16), (8, 2), (16, 1), (16, 4)):
                for ro, view in ((False, False), (True, False), (False, True)):
                    if (ro or view) and rng.random() < 0.5 and tier == 'quick':
                        continue
                    m = rng.randint(1, 6)
                    vs = [off + rng.randint(-amp, amp) for _ in range(m)]
                    c = {'kind': 'volt', 'amp': fs(amp), 'off': fs(off), 'res': res, 'vs': [fs(v) for v in vs],
                         'dtype': dt, 'ro': ro, 'view': view, 'intscalars': rng.random() < 0.3}
                    if dt == 'f4' and not volt_f4_ok(c):
                        c['dtype'] = 'f8'
                    out.append(c)
    for _ in range(12 * n):         # begins is lengths (one array object for both parameters)
        xs = [rng.choice([F(0), F(1, 2), F(1), F(3, 2), F(2), F(5, 2), F(3)]) for _ in range(rng.randint(1, 5))]
        out.append({'kind': 'win', 'sr': fs(rng.choice([F(1), F(2), F(1, 2)])), 'ws': [[fs(x), fs(x)] for x in xs],
                    'alias': True, 'dtype': rng.choice(['f8', 'f4']), 'ro': rng.random() < 0.3, 'view': rng.random() < 0.3})
    for _ in range(30 * n):         # average_windows with one array object in two roles
        ns = rng.randint(1, 6)
        time = sorted(dy(rng, 0, 6, 1) for _ in range(ns)) if rng.random() < 0.5 else [F(i) for i in range(ns)]
        alias = rng.choice(['be', 'tv', 'tb'])
        if alias == 'tv':           # the time stamps are the values: multiples of 30 keep every mean of <= 6 of them dyadic
            time = [30 * t for t in time]
        nch = 0 if alias == 'tv' else rng.choice([0, 1, 2])
        values = [[t] for t in time] if alias == 'tv' else [[F(630 * rng.randint(-4, 4)) for _ in range(max(nch, 1))] for _ in range(ns)]
        if alias == 'tb':
            ws = [(t, t + rng.choice([F(0), F(1, 2), F(1), F(2), F(7)])) for t in time]
        else:
            ws = []
            for _ in range(rng.randint(1, 4)):
                b = dy(rng, 0, 6, 1) * (30 if alias == 'tv' else 1)
                ws.append((b, b if alias == 'be' else b + rng.choice([F(0), F(1), F(2), F(5)]) * (30 if alias == 'tv' else 1)))
        out.append({'kind': 'avg', 'nch': nch, 'time': [fs(t) for t in time], 'values': [[fs(v) for v in row] for row in values],
                    'ws': [[fs(b), fs(e)] for b, e in ws], 'alias': alias})
    # the same channel id on several outputs with pairwise different amplitude / offset / transformation (every order)
    settings = [(None, 1, 0), (['aff', '2', '1'], 2, F(1, 2)), (['sq'], F(1, 2), F(-1, 4)), (['aff', '-1', '0'], 4, 1),
                (None, F(1, 4), F(1, 2))]
    for i in range(16 * n):
        rate = F(2) ** rng.randint(-1, 1)
        wfs = []
        while len(wfs) < rng.choice([1, 2]):
            w = gen_wf(rng, rate)
            if w not in wfs:
                wfs.append(w)
        common = set(c for c, _ in wfs[0]['chs'])
        for w in wfs[1:]:
            common &= set(c for c, _ in w['chs'])
        common = sorted(common, key=str)
        ch = rng.choice(common)
        picks = rng.sample(settings, rng.randint(2, 4))
        chans = [{'ch': ch, 'T': T, 'amp': fs(a), 'off': fs(o)} for T, a, o in picks]
        for _ in range(rng.randint(0, 2)):
            chans.insert(rng.randint(0, len(chans)), rng.choice([None, {'ch': rng.choice(common), 'T': None, 'amp': '1', 'off': '0'}]))
        mk = rng.choice(common)
        markers = rng.choice([[mk, mk], [mk, None, mk], [ch], []])
        out.append({'kind': 'sample', 'rate': fs(rate), 'chans': chans, 'markers': markers, 'wfs': wfs,
                    'via_loop': rng.random() < 0.3, 'repeat': [0] if rng.random() < 0.5 else [], 'dup': True})


def gen_sample_empty(rng, tier, out):
    """a ProgramEntry without waveforms (coverage-driven, round 4): holds no samples; get_sample_times on the empty list fails"""
    for chans, markers in (([], []), ([None], [None]), ([{'ch': 'A', 'T': None, 'amp': '1', 'off': '0'}], ['A']),
                           ([{'ch': 'A', 'T': ['aff', '2', '1'], 'amp': '2', 'off': '1/2'}, None], [None, 'M'])):
        out.append({'kind': 'sample', 'rate': fs(rng.choice([F(1), F(3), F(9, 5)])), 'chans': chans, 'markers': markers,
                    'wfs': [], 'via_loop': False, 'repeat': [], 'rat': True})


def gen_cases(rng, tier, ctx):
    out = []
    gen_stateful(rng, tier, out)
    gen_volt(rng, tier, out)
    gen_volt_tol(rng, tier, out)
    gen_mono(rng, tier, out)
    gen_win(rng, tier, out)
    gen_win_tol(rng, tier, out)
    gen_shrink(rng, tier, out)
    gen_avg(rng, tier, out)
    gen_nni(rng, tier, out)
    gen_times(rng, tier, out)
    gen_sample(rng, tier, out)
    gen_times_np2(rng, tier, out)
    gen_sample_np2(rng, tier, out)
    gen_sample_empty(rng, tier, out)
    gen_volt_tol_ends(rng, tier, out)      # round 5; last, so that the earlier families draw the same numbers as before
    gen_volt_tol_ends2(tier, out)          # round 6; deterministic (no draws)
    drng = __import__('random').Random(rng.getrandbits(64))
    out = [decorate(drng, c) for c in out]
    drng.shuffle(out)       # the Coq shards are contiguous slices: mix the kinds so that no shard gets all the big literals
    return out


# ---------------------------------------------------------------------------------------------------------------------
# running the implementation

EXPECTED = (ValueError, KeyError, AssertionError)


def _outcome(fn, expected=EXPECTED):
    try:
        with vlib.time_limit(10):
            return {'ret': fn()}
    except vlib.Timeout:
        return {'hang': True}
    except expected as e:
        return {'err': type(e).__name__}
    except Exception as e:   # anything else is a crash
        return {'crash': '%s: %s' % (type(e).__name__, str(e)[:200])}


def _fl(x):
    f = F(x)
    r = f.numerator / f.denominator
    assert F(r) == f, 'generated number %s is not a binary64 value' % x
    return r


def _rn(x):
    """the binary64 number nearest to the rational x (int / int true division is correctly rounded)"""
    f = F(x)
    return f.numerator / f.denominator


def _fr_list(arr):
    out = []
    for x in arr:
        x = float(x)
        out.append(None if math.isnan(x) else vlib.frac_json(x))
    return out


def build_waveform(desc, rat=False):
    """rat: the table times are rationals k / rate that need not be binary64 numbers; the entry gets the binary64 number
    nearest to the rational (what evaluating '5/3' in a TablePT gives)"""
    from qupulse.program.waveforms import ConstantWaveform, TableWaveform, TableWaveformEntry, MultiChannelWaveform
    from qupulse.pulses.interpolation import HoldInterpolationStrategy, LinearInterpolationStrategy
    from qupulse.utils.types import TimeType
    interp = {'hold': HoldInterpolationStrategy(), 'linear': LinearInterpolationStrategy()}
    dur = F(desc['dur'])
    parts = []
    for c, d in desc['chs']:
        if 'const' in d:
            parts.append(ConstantWaveform(TimeType.from_fraction(dur.numerator, dur.denominator), _fl(d['const']), c))
        else:
            parts.append(TableWaveform.from_table(c, [TableWaveformEntry(_rn(t) if rat else _fl(t), _fl(v), interp[i])
                                                      for t, v, i in d['table']]))
    return parts[0] if len(parts) == 1 else MultiChannelWaveform.from_parallel(parts)


def make_trafo(T):
    if T is None:
        return None
    if T[0] == 'aff':
        a, b = _fl(T[1]), _fl(T[2])
        return lambda x: a * x + b
    if T[0] == 'sq':
        return lambda x: x * x
    raise ValueError(T)


DTYPES = {'f8': 'float64', 'f4': 'float32', 'i8': 'int64', 'u8': 'uint64', 'i4': 'int32'}
DTCODE = {'float64': 1, 'float32': 2, 'int64': 3, 'uint64': 4, 'int32': 5, 'bool': 6, 'uint16': 7, 'int16': 8}


def _mk(vals, dt='f8', ro=False, view=False, shape=None):
    """argument array: element kind `dt`, optionally a non-contiguous view into a bigger array, optionally read-only"""
    import numpy as np
    a = np.array(vals, dtype=DTYPES[dt])
    assert all(F(float(x)) == F(v) for x, v in zip(a.ravel(), np.array(vals, dtype=object).ravel())), 'inexact %s array' % dt
    if shape is not None:
        a = a.reshape(shape)
    if view:
        big = np.zeros((2 * a.shape[0] + 1,) + a.shape[1:], dtype=a.dtype)
        big[1::2] = a
        a = big[1::2]
    if ro:
        a.flags.writeable = False
    return a


def _snap(arrs):
    """exact snapshot of argument arrays (whole base array for views): [[kind code, len, values...], ...]; NaN -> None"""
    import numpy as np
    out = []
    for a in arrs:
        b = a.base if isinstance(getattr(a, 'base', None), np.ndarray) else a
        row = [str(DTCODE.get(b.dtype.name, 99)), str(b.size)]
        for x in np.asarray(b).ravel():
            x = float(x)
            row.append(None if math.isnan(x) or math.isinf(x) else fs(F(x)))
        out.append(row)
    return out


def _run3(mkargs, fns, call):
    """Every variant gets its own argument objects (mkargs() -> (args, arrays to watch)) and is called TWICE ON THE SAME
    OBJECTS; snapshots of the watched arrays before / after the first / after the second call."""
    first, again, snaps = {}, {}, [[], [], []]
    for name, f in fns.items():
        args, watch = mkargs(name)
        s0 = _snap(watch)
        o1 = call(f, args, name)
        s1 = _snap(watch)
        o2 = call(f, args, name)
        s2 = _snap(watch)
        first[name], again[name] = o1, o2
        for s, x in zip(snaps, (s0, s1, s2)):
            s.extend(x)
    first['again'] = again
    first['ins'] = snaps
    return first


def _twice1(watch_fn, go):
    """single-variant routines: go() twice, snapshot watch_fn() (JSON rows) around the calls"""
    s0 = watch_fn()
    o1 = go()
    s1 = watch_fn()
    o2 = go()
    s2 = watch_fn()
    o1['again'] = o2
    o1['ins'] = [s0, s1, s2]
    return o1


def _shrink_obs(P, bs, ls, own_copy=True, use_numba=None):
    """the three observations of shrink_overlapping_windows on begins/lengths; the in-place backends get copies (they are
    in place by contract) unless own_copy is False (then they work on the given objects)"""
    def backend(f):
        def go():
            b, l = (bs.copy(), ls.copy()) if own_copy else (bs, ls)
            s = f(b, l)
            return {'ws': [[int(x), int(y)] for x, y in zip(b, l)], 'shrank': bool(s)}
        return go

    def public():
        with warnings.catch_warnings(record=True) as rec:
            warnings.simplefilter('always')
            b, l = P.shrink_overlapping_windows(bs, ls) if use_numba is None else P.shrink_overlapping_windows(bs, ls, use_numba=use_numba)
        if any(issubclass(w.category, P.WindowOverlapWarning) and 'measurement windows' not in str(w.message) for w in rec):
            raise RuntimeError('WindowOverlapWarning without its text')
        if b is bs or l is ls:
            raise RuntimeError('shrink_overlapping_windows returned an argument object')
        warned = any(issubclass(w.category, P.WindowOverlapWarning) for w in rec)
        return {'ws': [[int(x), int(y)] for x, y in zip(b, l)], 'shrank': warned}
    return {'np': backend(P._shrink_overlapping_windows_numpy), 'loop': backend(P._shrink_overlapping_windows_numba),
            'pub': public}


def run_impl(case):
    import numpy as np
    from qupulse.utils import performance as P
    from qupulse.hardware import util as U
    k = case['kind']
    dt, ro, view = case.get('dtype', 'f8'), case.get('ro', False), case.get('view', False)
    if k in ('volt', 'volt_tol'):
        amp, off, res = _fl(case['amp']), _fl(case['off']), case['res']
        if case.get('intscalars'):                 # amplitude / offset handed over as Python ints
            amp, off = (int(amp) if amp == int(amp) else amp), (int(off) if off == int(off) else off)
        if case.get('scalars', 'float') != 'float':
            amp, off = getattr(np, case['scalars'])(amp), getattr(np, case['scalars'])(off)
            assert F(float(amp)) == F(case['amp']) and F(float(off)) == F(case['off'])
        vs = [_fl(v) for v in case['vs']]

        def mkargs(name):
            a = _mk(vs, dt, ro, view)
            return [a], [a]

        def call(f, args, name):
            o = _outcome(lambda: f(args[0], amp, off, res))
            if 'ret' in o:
                r = o['ret']
                if str(getattr(r, 'dtype', '')) != 'uint16':
                    return {'crash': 'result dtype %s' % getattr(r, 'dtype', type(r))}
                if r is args[0] or np.shares_memory(r, args[0]):
                    return {'crash': 'result shares memory with the voltage argument'}
                o['ret'] = [int(x) for x in r]
            return o
        return _run3(mkargs, {'np': U._voltage_to_uint16_numpy, 'loop': U._voltage_to_uint16_numba,
                              'pub': U.voltage_to_uint16}, call)
    if k == 'mono':
        xs = [_fl(x) for x in case['xs']]

        def mkargs(name):
            a = _mk(xs, dt, ro, view)
            return [a], [a]

        def call(f, args, name):
            o = _outcome(lambda: f(args[0]))
            if 'ret' in o:
                o['ret'] = bool(o['ret'])
            return o
        return _run3(mkargs, {'np': P._is_monotonic_numpy, 'loop': P._is_monotonic_numba, 'pub': P.is_monotonic}, call)
    if k in ('win', 'win_tol'):
        sr = _fl(case['sr'])

        def mkargs(name):
            bs = _mk([_fl(b) for b, _ in case['ws']], dt, ro, view)
            ls = bs if case.get('alias') else _mk([_fl(l) for _, l in case['ws']], dt, ro, view)
            return [bs, ls], [bs, ls]
        outs = {}

        def call(f, args, name):
            o = _outcome(lambda: f(args[0], args[1], sr))
            if 'ret' in o:
                b, l = o['ret']
                if len(b) != len(l):
                    return {'crash': 'lengths differ'}
                if any(np.shares_memory(x, y) for x in (b, l) for y in args):
                    return {'crash': 'result shares memory with an argument'}
                outs[name] = (b, l)
                o['ret'] = [[int(x), int(y)] for x, y in zip(b, l)]
            return o
        obs = _run3(mkargs, {'np': P._time_windows_to_samples_numpy, 'loop': P._time_windows_to_samples_numba,
                             'pub': P.time_windows_to_samples}, call)
        if 'pub' in outs and case.get('chain', True):
            # pipeline (as in the Alazar driver): the public result (read-only uint64 arrays) goes to shrink_overlapping_windows
            b, l = outs['pub']
            fns = _shrink_obs(P, b, l)
            snap0 = _snap([b, l])
            ch = {name: _outcome(f) for name, f in fns.items()}
            ch['ins'] = [snap0, _snap([b, l])]
            obs['chain'] = ch
            obs['chain_case'] = {'kind': 'shrink', 'dtype': 'uint64', 'ws': [[int(x), int(y)] for x, y in zip(b, l)]}
        return obs
    if k == 'shrink':
        ws = case['ws']
        dts = 'i8' if case['dtype'] == 'int64' else 'u8'

        def mkargs(name):
            bs = _mk([w[0] for w in ws], dts, ro and name == 'pub', view)
            ls = _mk([w[1] for w in ws], dts, ro and name == 'pub', view)
            return [bs, ls], [bs, ls]

        def call(f, args, name):
            return _outcome(_shrink_obs(P, args[0], args[1], use_numba=case.get('use_numba'))[name])
        obs = _run3(mkargs, {'np': None, 'loop': None, 'pub': None}, call)
        if all('ret' in obs[v] for v in ('np', 'loop', 'pub')) and obs['np'] == obs['loop'] == obs['pub']:
            # shrinking again what was shrunk (the backends IN PLACE on one pair of arrays, twice): nothing left to do
            out = obs['pub']['ret']['ws']
            ch = {}
            for name in ('np', 'loop'):
                b = _mk([w[0] for w in ws], dts)
                l = _mk([w[1] for w in ws], dts)
                fn = _shrink_obs(P, b, l, own_copy=False)[name]
                o1 = _outcome(fn)
                ch[name] = _outcome(fn) if 'ret' in o1 and o1 == obs[name] else {'crash': 'in-place run differs from the run on a copy: %s' % o1}
            b = _mk([w[0] for w in out], dts, True)
            l = _mk([w[1] for w in out], dts, True)
            ch['pub'] = _outcome(_shrink_obs(P, b, l)['pub'])
            obs['chain'] = ch
            obs['chain_case'] = {'kind': 'shrink', 'dtype': case['dtype'], 'ws': out}
        return obs
    if k == 'avg':
        nch = case['nch']
        alias = case.get('alias')
        vdt = case.get('vdtype', 'f8')

        def mkargs(name):
            time = _mk([_fl(t) for t in case['time']], dt, ro, view)
            if alias == 'tv':
                vals = time
            else:
                vals = _mk([[_fl(v) for v in row] for row in case['values']], vdt, ro, view, shape=(len(time), max(nch, 1)))
                if nch == 0:
                    vals = vals[:, 0]
            if alias == 'tb':
                assert [b for b, _ in case['ws']] == case['time']
            bs = time if alias == 'tb' else _mk([_fl(b) for b, _ in case['ws']], dt, ro, view)
            es = bs if alias == 'be' else _mk([_fl(e) for _, e in case['ws']], dt, ro, view)
            return [time, vals, bs, es], [time, vals, bs, es]

        def call(f, args, name):
            def go():
                with warnings.catch_warnings():
                    warnings.simplefilter('ignore')
                    r = f(*args)
                if any(np.shares_memory(r, y) for y in args):
                    raise RuntimeError('result shares memory with an argument')
                r = np.asarray(r, dtype=float).reshape((len(args[2]), max(nch, 1)))
                return [_fr_list(row) for row in r]
            return _outcome(go)
        return _run3(mkargs, {'np': P._average_windows_numpy, 'loop': P._average_windows_numba, 'pub': P.average_windows}, call)
    if k == 'nni':
        seq = tuple(case['l']) if case.get('tuple') else list(case['l'])

        def go():
            o = _outcome(lambda: U.not_none_indices(seq))
            if 'ret' in o:
                if o['ret'][0] is seq:
                    return {'crash': 'the argument sequence itself was returned'}
                o['ret'] = [list(o['ret'][0]), int(o['ret'][1])]
            return o
        return _twice1(lambda: [['0', str(len(seq))] + [('-1' if x is None else str(x)) for x in seq]], go)
    if k == 'times':
        from qupulse.program.waveforms import ConstantWaveform
        from qupulse.utils.types import TimeType
        rate = F(case['rate'])

        wfs = [ConstantWaveform(TimeType.from_fraction(F(d).numerator, F(d).denominator), 0.5, 'A') for d in case['durs']]
        wfs0 = list(wfs)

        arg = wfs
        if case.get('container') == 'tuple':
            arg = tuple(wfs)
        elif case.get('container') == 'single' and len(wfs) == 1:
            arg = wfs[0]                     # a bare waveform instead of a collection

        rate_arg = {'float': lambda: float(rate), 'int': lambda: int(rate)}.get(
            case.get('ratekind'), lambda: TimeType.from_fraction(rate.numerator, rate.denominator))()

        def go():
            t, l = U.get_sample_times(arg, rate_arg)
            return [[vlib.frac_json(float(x)) for x in t], [int(x) for x in np.atleast_1d(l)]]
        return _twice1(lambda: [['0', str(len(wfs))] + [fs(F(int(w.duration.numerator), int(w.duration.denominator))) for w in wfs]
                                + ['1' if a is b else '0' for a, b in zip(wfs, wfs0)]], lambda: _outcome(go))
    if k == 'sample':
        from qupulse.hardware.awgs.base import ProgramEntry
        from qupulse.program.loop import Loop
        from qupulse.utils.types import TimeType
        rate = F(case['rate'])
        tt_rate = TimeType.from_fraction(rate.numerator, rate.denominator)

        def raw_of(wfs):
            # the waveform's own sampling function on the harness' exact grid k / rate
            raw = []
            for d, w in zip(case['wfs'], wfs):
                seg = F(int(w.duration.numerator), int(w.duration.denominator)) * rate
                nn = round(seg) if abs(seg - round(seg)) <= F(1, 10 ** 10) else math.floor(seg)
                grid = np.array([_rn(F(i) / rate) for i in range(max(nn, 0))], dtype=float)   # exact for dyadic rates
                raw.append([[c, _fr_list(w.get_sampled(c, grid))] for c, _ in d['chs']])
            return raw
        try:
            wfs = [build_waveform(d, case.get('rat', False)) for d in case['wfs']]
            durs = [fs(F(int(w.duration.numerator), int(w.duration.denominator))) for w in wfs]
            if not case.get('rat') and durs != [d['dur'] for d in case['wfs']]:
                raise RuntimeError('waveform durations %s differ from the descriptors' % durs)
            raw0 = raw_of(wfs)
        except Exception as e:
            return {'crash': 'raw sampling failed: %s: %s' % (type(e).__name__, str(e)[:200])}
        wfs_arg = list(wfs)
        chans = case['chans']
        # ONE set of argument objects (waveforms, tuples, transformation callables, Loop tree) for both constructions
        kw = dict(channels=tuple(None if c is None else c['ch'] for c in chans),
                  markers=tuple(case['markers']),
                  amplitudes=tuple(1.0 if c is None else _fl(c['amp']) for c in chans),
                  offsets=tuple(0.0 if c is None else _fl(c['off']) for c in chans),
                  voltage_transformations=tuple(None if c is None else make_trafo(c['T']) for c in chans),
                  sample_rate=tt_rate)
        kw0 = {key: (tuple(v) if isinstance(v, tuple) else v) for key, v in kw.items()}
        program = None
        if case['via_loop']:
            leaves = [Loop(waveform=w) for w in wfs] + [Loop(waveform=wfs[i], repetition_count=2) for i in case['repeat']]
            program = Loop(children=leaves)
            program_repr = repr(program)
        entries = []

        def read(entry):
            if list(entry._waveforms.keys()) != wfs:
                raise RuntimeError('waveform keys/order differ from the played waveforms')
            res = []
            for w in wfs:
                cs, ms = entry._waveforms[w]
                res.append([[None if a is None else _fr_list(a) for a in cs],
                            [None if a is None else [bool(x) for x in a] for a in ms]])
            return res

        def go():
            if case['via_loop']:
                entry = ProgramEntry(program, **kw)
            else:
                entry = ProgramEntry(None, waveforms=wfs_arg, **kw)
            entries.append(entry)
            return read(entry)

        def watch_args():
            """raw samples of every waveform object + the argument containers"""
            rows = []
            for wr in raw_of(wfs):
                for c, xs in wr:
                    rows.append(['1', str(len(xs))] + xs)
            same = (len(wfs_arg) == len(wfs) and all(x is y for x, y in zip(wfs_arg, wfs))
                    and all(kw[key] == kw0[key] for key in kw)
                    and (program is None or repr(program) == program_repr))
            rows.append(['0', '1', '1' if same else '0'])
            return rows

        def watch_entry():
            """what the FIRST entry holds (must not change when a second entry is built from the same objects)"""
            rows = []
            for e in entries[:1]:
                try:
                    for cs, ms in read(e):
                        for a in cs:
                            rows.append(['1', '0'] if a is None else ['1', str(len(a))] + a)
                        for a in ms:
                            rows.append(['6', '0'] if a is None else ['6', str(len(a))] + [str(int(x)) for x in a])
                except Exception:
                    rows.append(['0', '1', None])
            return rows
        a0 = watch_args()
        o = _outcome(go)
        a1, e1 = watch_args(), watch_entry()
        o2 = _outcome(go)
        # a third entry from the same waveform objects with OTHER output settings (amplitudes x 2, offsets + 1): whatever it
        # does must not disturb what the first entry holds
        try:
            kw3 = dict(kw, amplitudes=tuple(2 * a for a in kw['amplitudes']), offsets=tuple(b + 1 for b in kw['offsets']))
            e3 = ProgramEntry(program, **kw3) if case['via_loop'] else ProgramEntry(None, waveforms=wfs_arg, **kw3)
            entries.append(e3)
        except Exception:
            pass
        a2, e2 = watch_args(), watch_entry()
        arrs = [[a for w in e._waveforms.values() for part in w for a in part if a is not None] for e in entries]
        if any(np.shares_memory(x, y) for i, xs in enumerate(arrs) for ys in arrs[i + 1:] for x in xs for y in ys):
            return {'crash': 'two ProgramEntry objects built from the same waveforms share sample memory'}
        o['raw'] = raw0
        o['durs'] = durs
        o['again'] = dict(o2, raw=raw0, durs=durs)
        o['ins'] = [a0 + e1, a1 + e1, a2 + e2]
        # the grid itself: get_sample_times on the same waveform objects (the function _sample_waveforms takes its times from)
        from qupulse.hardware import util as U

        def grid():
            t, l = U.get_sample_times(wfs_arg, tt_rate)
            return [[vlib.frac_json(float(x)) for x in t], [int(x) for x in np.atleast_1d(l)]]
        o['chain'] = _outcome(grid)
        o['chain_case'] = {'kind': 'times', 'rate': case['rate'], 'durs': durs}
        return o
    raise ValueError(k)


# ---------------------------------------------------------------------------------------------------------------------
# Gallina printers

def gQs(s):
    return gQ(F(s))


def _bad(o):
    return 'crash' in o or 'hang' in o


def g_out(o, p):
    return 'OErr' if 'err' in o else '(ORet %s)' % p(o['ret'])


def g_zz(w):
    return '(%s, %s)' % (gZ(w[0]), gZ(w[1]))


def g_qq(w):
    return '(%s, %s)' % (gQs(w[0]), gQs(w[1]))


def g_optq(x):
    return 'None' if x is None else '(Some %s)' % gQs(x)


def g_chan(c):
    return gZ(CHN[c])


def g_trafo(T):
    if T is None:
        return 'TNone'
    if T[0] == 'aff':
        return '(TAffine %s %s)' % (gQs(T[1]), gQs(T[2]))
    return 'TSquare'


def g_ins(ins):
    if any(x is None for snap in ins for row in snap for x in row):
        return None
    return glist(lambda snap: glist(lambda row: glist(gQs, row), snap), ins)


def to_coq(case, obs):
    """first call [+ second call on the same argument objects + argument snapshots] [+ pipeline case]"""
    if _bad(obs):
        return 'CCrash'
    t = to_coq1(case, obs)
    if t == 'CCrash':
        return t
    if 'again' in obs:
        again, ins = to_coq1(case, obs['again']), g_ins(obs['ins'])
        if again == 'CCrash' or ins is None:
            return 'CCrash'
        t = '(CTwice %s %s %s)' % (t, again, ins)
    if 'chain' in obs:
        c2 = to_coq1(obs['chain_case'], obs['chain'])
        if c2 == 'CCrash':
            return c2
        if 'ins' in obs['chain']:
            ins = g_ins(obs['chain']['ins'])
            if ins is None:
                return 'CCrash'
            c2 = '(CTwice %s %s %s)' % (c2, c2, ins)
        t = '(CAnd %s %s)' % (t, c2)
    return t


def to_coq1(case, obs):
    k = case['kind']
    if _bad(obs):
        return 'CCrash'
    if k in ('volt', 'volt_tol', 'mono', 'win', 'win_tol', 'shrink', 'avg'):
        if any(_bad(obs[v]) for v in ('np', 'loop', 'pub')):
            return 'CCrash'
    three = lambda p: ' '.join(p(obs[v]) for v in ('np', 'loop', 'pub'))
    if k in ('volt', 'volt_tol'):
        return '(%s %s %s %s %s %s)' % ('CVolt' if k == 'volt' else 'CVoltTol', gQs(case['amp']), gQs(case['off']), gZ(case['res']),
                                              glist(gQs, case['vs']), three(lambda o: g_out(o, lambda r: glist(gZ, r))))
    if k == 'mono':
        if any('err' in obs[v] for v in ('np', 'loop', 'pub')):
            return 'CCrash'
        return '(CMono %s %s)' % (glist(gQs, case['xs']), three(lambda o: gbool(o['ret'])))
    if k in ('win', 'win_tol'):
        if any('err' in obs[v] for v in ('np', 'loop', 'pub')):
            return 'CCrash'
        return '(%s %s %s %s)' % ('CWin' if k == 'win' else 'CWinF', gQs(case['sr']), glist(g_qq, case['ws']),
                                  three(lambda o: glist(g_zz, o['ret'])))
    if k == 'shrink':
        p = lambda o: g_out(o, lambda r: '(%s, %s)' % (glist(g_zz, r['ws']), gbool(r['shrank'])))
        return '(CShrink %s %s)' % (glist(g_zz, case['ws']), three(p))
    if k == 'avg':
        if any('err' in obs[v] for v in ('np', 'loop', 'pub')):
            return 'CCrash'
        nch = max(case['nch'], 1)
        p = lambda o: glist(lambda row: glist(g_optq, row), o['ret'])
        return '(CAvg %s %s %s %s %s)' % (gnat(nch), glist(gQs, case['time']),
                                          glist(lambda row: glist(gQs, row), case['values']), glist(g_qq, case['ws']), three(p))
    if k == 'nni':
        if 'err' in obs:
            return 'CCrash'
        po = lambda x: 'None' if x is None else '(Some %s)' % gZ(x)
        return '(CNni %s (%s, %s))' % (glist(po, case['l']), glist(po, obs['ret'][0]), gZ(obs['ret'][1]))
    if k == 'times':
        return '(CTimes %s %s %s)' % (gQs(case['rate']), glist(gQs, case['durs']),
                                      g_out(obs, lambda r: '(%s, %s)' % (glist(gQs, r[0]), glist(gZ, r[1]))))
    if k == 'sample':
        def g_cfg(c):
            if c is None:
                return 'None'
            return '(Some (%s, %s, %s, %s))' % (g_chan(c['ch']), g_trafo(c['T']), gQs(c['amp']), gQs(c['off']))
        def g_wf(d, raw):
            if any(x is None for _, xs in raw for x in xs):
                raise ValueError('NaN in raw waveform samples')
            return '(%s, %s)' % (gQs(d), glist(lambda cr: '(%s, %s)' % (g_chan(cr[0]), glist(gQs, cr[1])), raw))
        try:
            wfs = glist(lambda dr: g_wf(dr[0], dr[1]), list(zip(obs['durs'], obs['raw'])))
        except ValueError:
            return 'CCrash'
        def g_res(r):
            if any(x is None for a in r[0] if a is not None for x in a):
                return None
            return '(%s, %s)' % (glist(lambda a: 'None' if a is None else '(Some %s)' % glist(gQs, a), r[0]),
                                 glist(lambda a: 'None' if a is None else '(Some %s)' % glist(gbool, a), r[1]))
        if 'err' in obs:
            o = 'OErr'
        else:
            rs = [g_res(r) for r in obs['ret']]
            if any(r is None for r in rs):
                return 'CCrash'
            o = '(ORet [%s])' % '; '.join(rs)
        return '(CSample %s %s %s %s %s)' % (glist(g_cfg, case['chans']),
                                             glist(lambda m: 'None' if m is None else '(Some %s)' % g_chan(m), case['markers']),
                                             gQs(case['rate']), wfs, o)
    raise ValueError(k)


# ---------------------------------------------------------------------------------------------------------------------
# Python-side oracles (second, independent evaluation of the specification; also drive search_failing)

def rint_even(x):
    f = math.floor(x)
    r = x - f
    if r < F(1, 2):
        return f
    if r > F(1, 2):
        return f + 1
    return f if f % 2 == 0 else f + 1


def py_volt(case, o):
    amp, off, res = F(case['amp']), F(case['off']), case['res']
    vs = [F(v) for v in case['vs']]
    if res < 1 or res > 16 or any(abs(v - off) > amp for v in vs):
        return None if 'err' in o else 'input must be rejected (resolution outside 1..16 or a voltage outside offset +- amplitude)'
    if 'err' in o:
        return 'in-range voltages rejected'
    M = 2 ** res - 1
    want = [rint_even((v - off + amp) * M / (2 * amp)) for v in vs]
    if o['ret'] != want:
        i = [a != b for a, b in zip(o['ret'], want)].index(True) if len(o['ret']) == len(want) else -1
        return 'code differs from round-half-even((v - lo) * (2^res - 1) / (2 amp)) at index %d: got %s want %s' % (
            i, o['ret'][i] if i >= 0 else o['ret'], want[i] if i >= 0 else want)
    return None


VOLT_TOL = F(1, 2 ** 30)


def py_volt_tol(case, o):
    amp, off, res = F(case['amp']), F(case['off']), case['res']
    vs = [F(v) for v in case['vs']]
    if any(abs(v - off) > amp for v in vs):
        return None if 'err' in o else 'a voltage clearly outside offset +- amplitude was accepted'
    if 'err' in o:
        return 'in-range voltages rejected'
    M = 2 ** res - 1
    if len(o['ret']) != len(vs):
        return 'number of codes changed'
    for v, c in zip(vs, o['ret']):
        y = (v - off + amp) * M / (2 * amp)
        if not (0 <= c <= M) or abs(c - y) > F(1, 2) + VOLT_TOL:
            return 'code %d is further than 1/2 + 2^-30 from the exact scaled voltage %s' % (c, float(y))
    pairs = sorted(zip(vs, o['ret']))
    if any(a[1] > b[1] for a, b in zip(pairs, pairs[1:])):
        return 'codes are not monotone in the voltage'
    return None


def py_win(case, o):
    sr = F(case['sr'])
    ws = [(F(b), F(l)) for b, l in case['ws']]
    if 'err' in o:
        return 'conversion raised'
    got = [tuple(x) for x in o['ret']]
    order = sorted(range(len(ws)), key=lambda i: ws[i][0])
    want = [(rint_even(ws[i][0] * sr), math.floor(ws[i][1] * sr)) for i in order]
    if len(got) != len(want):
        return 'number of windows changed'
    # windows with equal begin may come in any order
    i = 0
    while i < len(ws):
        j = i
        while j < len(ws) and ws[order[j]][0] == ws[order[i]][0]:
            j += 1
        if sorted(got[i:j]) != sorted(want[i:j]):
            return 'windows %d..%d: got %s, want (sorted by begin, begin rounded half-even, length floored) %s' % (
                i, j, got[i:j], want[i:j])
        i = j
    return None


WIN_TOL = F(1, 2 ** 30)


def py_win_tol(case, o):
    """tolerance specification: ordered by begin (equal begins in any order); begin within 1/2 + 2^-30 of begin * rate; length L
    with L <= length * rate + 2^-30 and length * rate - 2^-30 < L + 1"""
    sr = F(case['sr'])
    ws = [(F(b), F(l)) for b, l in case['ws']]
    if 'err' in o:
        return 'conversion raised'
    got = [tuple(x) for x in o['ret']]
    if len(got) != len(ws):
        return 'number of windows changed'

    def ok(w, g):
        return (abs(g[0] - w[0] * sr) <= F(1, 2) + WIN_TOL and g[1] <= w[1] * sr + WIN_TOL and w[1] * sr - WIN_TOL < g[1] + 1)
    order = sorted(range(len(ws)), key=lambda i: ws[i][0])
    i = 0
    while i < len(ws):
        j = i
        while j < len(ws) and ws[order[j]][0] == ws[order[i]][0]:
            j += 1
        grp = [ws[t] for t in order[i:j]]
        if not any(all(ok(w, g) for w, g in zip(perm, got[i:j])) for perm in itertools.permutations(grp)):
            return 'windows %d..%d: got %s for (begin, length) * rate = %s' % (
                i, j, got[i:j], [(float(w[0] * sr), float(w[1] * sr)) for w in grp])
        i = j
    return None


def py_shrink_expected(ws):
    """the specification as a function: (list, shrank) or None = must fail"""
    out, shrank = [], False
    for i, (b, l) in enumerate(ws):
        if i > 0:
            pe = ws[i - 1][0] + ws[i - 1][1]
            ov = pe - b
            if ov > 0:
                if ov >= l:
                    return None
                b, l, shrank = b + ov, l - ov, True
        out.append([b, l])
    return out, shrank


def py_shrink(case, o):
    want = py_shrink_expected([tuple(w) for w in case['ws']])
    if want is None:
        return None if 'err' in o else 'a window that would lose all its samples was accepted'
    if 'err' in o:
        return 'shrinkable window list rejected'
    if o['ret']['ws'] != want[0] or o['ret']['shrank'] != want[1]:
        return 'result %s differs from the minimal shrink %s' % (o['ret'], want)
    return None


def py_avg(case, o):
    if 'err' in o:
        return 'average raised'
    time = [F(t) for t in case['time']]
    vals = [[F(v) for v in row] for row in case['values']]
    nch = max(case['nch'], 1)
    want = []
    for b, e in case['ws']:
        b, e = F(b), F(e)
        sel = [row for t, row in zip(time, vals) if b <= t < e]
        if not sel:
            want.append([None] * nch)
        else:
            want.append([vlib.frac_json(sum(r[c] for r in sel) / len(sel)) for c in range(nch)])
    if o['ret'] != want:
        return 'window averages %s differ from mean over begin <= t < end %s' % (o['ret'], want)
    return None


def py_times(case, o):
    """get_sample_times: lengths = round-half-even(duration * rate) within 1e-10 and positive; grid = for every k below the
    longest length the binary64 number nearest to the EXACT rational k / rate, bit for bit"""
    rate = F(case['rate'])
    durs = [F(d) for d in case['durs']]
    lens = []
    for d in durs:
        seg = d * rate
        r = rint_even(seg)
        if abs(seg - r) > F(1, 10 ** 10) or r <= 0:
            lens = None
            break
        lens.append(r)
    if not durs or lens is None:
        return None if 'err' in o else 'an empty list / a duration that is no positive whole number of samples was accepted'
    if 'err' in o:
        return 'durations that are whole numbers of samples were rejected'
    ts, ls = o['ret']
    if ls != lens:
        return 'sample counts %s differ from duration * rate = %s' % (ls, lens)
    want = [vlib.frac_json(_rn(F(k) / rate)) for k in range(max(lens))]
    if ts != want:
        if len(ts) != len(want):
            return 'the grid has %d times, the longest waveform has %d samples' % (len(ts), len(want))
        k = [a != b for a, b in zip(ts, want)].index(True)
        return ('sample time %d is %r, the binary64 number nearest to %d / (%s) is %r' %
                (k, float(F(ts[k])), k, rate, float(F(want[k]))))
    return None


def py_sample(case, o):
    """(T(w(k / rate)) - offset) / amplitude per output and sample, markers = (w(k / rate) != 0); w(k / rate) = the waveform's
    own sampling function on the correctly rounded grid (o['raw'])"""
    rate = F(case['rate'])
    lens = []
    for d in o['durs']:
        seg = F(d) * rate
        r = rint_even(seg)
        if abs(seg - r) > F(1, 10 ** 10) or r <= 0:
            return None if 'err' in o else 'a waveform that is no positive whole number of samples long was sampled'
        lens.append(r)
    defined = [dict((c, xs) for c, xs in raw) for raw in o['raw']]
    used = [c['ch'] for c in case['chans'] if c is not None] + [m for m in case['markers'] if m is not None]
    if any(u not in dfn for dfn in defined for u in used):
        return None if 'err' in o else 'an undefined channel was sampled'
    if 'err' in o:
        return 'a well-formed entry was rejected'

    def trafo(T, x):
        return x if T is None else F(T[1]) * x + F(T[2]) if T[0] == 'aff' else x * x
    if len(o['ret']) != len(lens):
        return 'number of sampled waveforms differs'
    for wi, (n, dfn, (cs, ms)) in enumerate(zip(lens, defined, o['ret'])):
        if len(cs) != len(case['chans']) or len(ms) != len(case['markers']):
            return 'number of outputs differs'
        for c, got in zip(case['chans'], cs):
            if (c is None) != (got is None):
                return 'empty output slot mixed up'
            if c is None:
                continue
            want = [vlib.frac_json((trafo(c['T'], F(x)) - F(c['off'])) / F(c['amp'])) for x in dfn[c['ch']][:n]]
            if got != want:
                k = [a != b for a, b in zip(got, want)].index(True) if len(got) == len(want) else -1
                return ('waveform %d, channel %s: sample %d is %s, (T(w(%d / rate)) - offset) / amplitude is %s' %
                        (wi, c['ch'], k, got[k] if k >= 0 else len(got), k, want[k] if k >= 0 else len(want)))
        for m, got in zip(case['markers'], ms):
            if (m is None) != (got is None):
                return 'empty marker slot mixed up'
            if m is None:
                continue
            want = [F(x) != 0 for x in dfn[m][:n]]
            if got != want:
                k = [a != b for a, b in zip(got, want)].index(True) if len(got) == len(want) else -1
                return 'waveform %d, marker %s: sample %d is %s although the voltage there is %s zero' % (
                    wi, m, k, got[k] if k >= 0 else len(got), 'not' if k >= 0 and want[k] else '')
    return None


def _variants_agree(obs):
    return obs['np'] == obs['loop'] == obs['pub']


_META = ('again', 'ins', 'chain', 'chain_case', 'raw', 'durs')


def stateful_why(obs):
    """the second call on the same argument objects must observe what the first did; no argument may be modified"""
    if 'again' in obs:
        a = {k: v for k, v in obs.items() if k not in _META}
        b = {k: v for k, v in obs['again'].items() if k not in _META}
        if a != b:
            return 'a second call on the same argument objects gives another result than the first: %s then %s' % (
                str(a)[:200], str(b)[:200])
    for holder in (obs, obs.get('chain', {})):
        ins = holder.get('ins')
        if ins and any(sn != ins[0] for sn in ins[1:]):
            i = [sn != ins[0] for sn in ins].index(True)
            return 'an argument object was modified by the call (snapshot %d differs from the one taken before the first call)' % i
    return None


def py_spec(case, obs):
    why = py_spec1(case, obs)
    if why:
        return why
    if 'again' in obs and not _bad(obs['again']):
        ag = obs['again']
        if 'np' in ag and any(_bad(ag[v]) for v in ('np', 'loop', 'pub')):
            return 'second call crashed or hung: %s' % (str(ag)[:300])
    elif 'again' in obs:
        return 'second call crashed or hung: %s' % (str(obs['again'])[:300])
    why = stateful_why(obs)
    if why:
        return why
    if 'chain' in obs:
        why = py_spec1(obs['chain_case'], obs['chain'])
        if why:
            if obs['chain_case']['kind'] == 'times':
                return 'get_sample_times on the sampled waveforms: %s' % why
            return 'pipeline (output fed into shrink_overlapping_windows %s): %s' % (obs['chain_case']['ws'], why)
    return None


def py_spec1(case, obs):
    k = case['kind']
    if _bad(obs) or (k in ('volt', 'volt_tol', 'mono', 'win', 'win_tol', 'shrink', 'avg') and any(_bad(obs[v]) for v in ('np', 'loop', 'pub'))):
        return 'implementation crashed or hung: %s' % (str(obs)[:300])
    if k == 'volt':
        r = py_volt(case, obs['pub'])
        if r:
            return r
        if case['res'] > 16 and obs['np'] != obs['loop']:
            return 'the internal implementations of voltage_to_uint16 disagree (resolution > 16)'
        if 1 <= case['res'] <= 16 and not _variants_agree(obs):
            return 'the internal implementations of voltage_to_uint16 disagree'
    if k == 'volt_tol':
        r = py_volt_tol(case, obs['pub'])
        if r:
            return r
        if not _variants_agree(obs):
            return 'the internal implementations of voltage_to_uint16 disagree (decimal inputs)'
    if k == 'mono':
        xs = [F(x) for x in case['xs']]
        if obs['pub'].get('ret') != all(a <= b for a, b in zip(xs, xs[1:])):
            return 'is_monotonic wrong'
        if not _variants_agree(obs):
            return 'the internal implementations of is_monotonic disagree'
    if k == 'win':
        r = py_win(case, obs['pub'])
        if r:
            return r
        if not _variants_agree(obs):
            return 'the internal implementations of time_windows_to_samples disagree'
    if k == 'win_tol':
        r = py_win_tol(case, obs['pub'])
        if r:
            return r
        if not _variants_agree(obs):
            return 'the internal implementations of time_windows_to_samples disagree (decimal inputs)'
    if k == 'shrink':
        r = py_shrink(case, obs['pub'])
        if r:
            return r
        if not _variants_agree(obs):
            return 'the internal implementations of shrink_overlapping_windows disagree'
    if k == 'avg':
        r = py_avg(case, obs['pub'])
        if r:
            return r
        if not _variants_agree(obs):
            return 'the internal implementations of average_windows disagree'
    if k == 'times':
        return py_times(case, obs)
    if k == 'sample':
        return py_sample(case, obs)
    return None


# ---------------------------------------------------------------------------------------------------------------------

def _sorted_disjoint(ws):
    return all(F(a[0]) + F(a[1]) <= F(b[0]) for a, b in zip(ws, ws[1:]))


def nontrivial(case, obs):
    k = case['kind']
    if k == 'volt':
        return len(case['vs']) >= 2
    if k in ('volt_tol', 'win_tol'):
        return False          # tolerance stream: counted apart (histogram key volt_tol), never as an exact non-trivial case
    if k == 'mono':
        return len(case['xs']) >= 3
    if k in ('win', 'shrink'):
        return len(case['ws']) >= 2 and not _sorted_disjoint(case['ws'])
    if k == 'avg':
        ws = case['ws']
        return len(ws) >= 1 and len(case['time']) >= 2
    if k == 'nni':
        return len(case['l']) >= 2
    if k == 'times':
        return len(case['durs']) >= 2 or 'err' in obs
    if k == 'sample':
        return len(case['wfs']) >= 2 or any(c is None or c['T'] for c in case['chans'])
    return True


def py_avg_loop(case):
    """What the two-pointer loop of _average_windows_numba is KNOWN to return (known finding on windows that are not sorted by
    begin and end): windows are closed strictly front to back (the first window whose end has not passed blocks all later
    ones), a sample is added to the windows from the first open one on while their begin has passed (the first window whose
    begin has not passed blocks all later ones).  Used by `classify` only: an observation of the loop variant on unsorted
    windows that differs from THIS is a new behaviour, not the known finding."""
    time = [F(t) for t in case['time']]
    vals = [[F(v) for v in row] for row in case['values']]
    nch = max(case['nch'], 1)
    ws = [(F(b), F(e)) for b, e in case['ws']]
    sums = [[F(0)] * nch for _ in ws]
    cnt = [0] * len(ws)
    start = 0
    for t, row in zip(time, vals):
        while start < len(ws) and ws[start][1] <= t:
            start += 1
        idx = start
        while idx < len(ws) and ws[idx][0] <= t:
            sums[idx] = [a + b for a, b in zip(sums[idx], row)]
            cnt[idx] += 1
            idx += 1
    return [[None] * nch if n == 0 else [vlib.frac_json(x / n) for x in sm] for sm, n in zip(sums, cnt)]


def _avg_windows_sorted(case):
    ws = [(F(b), F(e)) for b, e in case['ws']]
    return all(a[0] <= b[0] and a[1] <= b[1] for a, b in zip(ws, ws[1:]))


def histogram_keys(case, obs):
    k = case['kind']
    keys = [k]
    if k in ('volt', 'volt_tol', 'shrink'):
        keys.append('%s:pub=%s' % (k, 'err' if 'err' in obs.get('pub', {}) else 'ok'))
    if k in ('win', 'win_tol', 'shrink'):
        ws = case['ws']
        n = len(ws)
        keys.append('%s:n=%d' % (k, min(n, 5)))
        if k == 'shrink':
            srt = all(a[0] <= b[0] for a, b in zip(ws, ws[1:]))
            keys.append('shrink:' + ('disjoint' if _sorted_disjoint(ws) else 'overlap-sorted' if srt else 'unsorted'))
            if any(w[1] == 0 for w in ws):
                keys.append('shrink:zero-length')
        else:
            bs = [w[0] for w in ws]
            keys.append(k + ':' + ('ties' if len(set(bs)) < len(bs) else 'distinct'))
    if k == 'avg':
        keys.append('avg:' + ('sorted-windows' if _avg_windows_sorted(case) else 'nested-or-unsorted'))
        keys.append('avg:nch=%d' % case['nch'])
    if k == 'sample':
        keys.append('sample:%s' % ('err' if 'err' in obs else 'ok'))
        keys.append('sample:nw=%d' % len(case['wfs']))
        if case['via_loop']:
            keys.append('sample:via_loop')
    if k == 'times':
        keys.append('times:%s' % ('err' if 'err' in obs else 'ok'))
    if k in ('times', 'sample'):
        r = F(case['rate'])
        keys.append('%s:rate-%s' % (k, 'power-of-two' if is_dyadic(r) and is_dyadic(F(1) / r)
                                    else 'binary64-number' if is_dyadic(r) else 'not-a-binary64-number'))
        if case.get('lin'):
            keys.append('sample:np2-linear-pieces')
    # argument-object classes (round 3)
    for a in ('dtype', 'vdtype'):
        if a in case and k != 'shrink':
            keys.append('%s:%s=%s' % (k, a, case[a]))
    for a, name in (('ro', 'read-only'), ('view', 'strided-view'), ('intscalars', 'int-scalars'), ('tuple', 'tuple'),
                    ('dup', 'same-channel-on-several-outputs')):
        if case.get(a):
            keys.append('%s:%s' % (k, name))
    if case.get('alias'):
        keys.append('%s:alias=%s' % (k, case['alias']))
    if case.get('container'):
        keys.append('%s:container=%s' % (k, case['container']))
    if case.get('scalars', 'float') != 'float':
        keys.append('%s:amp-off-as-np.%s' % (k, case['scalars']))
    if case.get('ratekind'):
        keys.append('times:rate-as-%s' % case['ratekind'])
    if k == 'shrink' and case.get('use_numba') is not None:
        keys.append('shrink:use_numba=%s' % case['use_numba'])
    if k == 'volt':
        keys.append('volt:offset%s0' % ('=' if F(case['off']) == 0 else '!='))
    if 'chain' in obs:
        keys.append('%s:pipeline-into-shrink' % k)
    return keys


def classify(case, obs):
    k = case['kind']
    if _bad(obs) or stateful_why(obs) or ('again' in obs and (_bad(obs['again']) or any(
            _bad(o) for o in obs['again'].values() if isinstance(o, dict)))):
        return None       # a known finding never covers a modified argument or a differing second call
    if 'chain' in obs and py_spec1(obs['chain_case'], obs['chain']):
        return None
    if k == 'shrink' and not _bad(obs) and all(not _bad(obs[v]) for v in ('np', 'loop', 'pub')):
        ws = [tuple(w) for w in case['ws']]
        # a zero-length window that does not overlap its predecessor
        zl = any(l == 0 and (i == 0 or ws[i - 1][0] + ws[i - 1][1] <= b) for i, (b, l) in enumerate(ws))
        if zl and py_shrink(case, obs['loop']) is None and 'err' in obs['np']:
            return 'C20-shrink-numpy-zero-length'
    if k == 'avg' and not _bad(obs) and all(not _bad(obs[v]) for v in ('np', 'loop', 'pub')):
        # round 5: narrowed — only the loop variant is off, and it shows exactly the known two-pointer behaviour (a loop
        # variant that does something ELSE on unsorted windows, e.g. returns zeros, is a new violation)
        if (not _avg_windows_sorted(case) and py_avg(case, obs['np']) is None and py_avg(case, obs['pub']) is None
                and obs['loop'].get('ret') == py_avg_loop(case)):
            return 'C20-average-loop-unsorted-windows'
    if k in ('win', 'win_tol') and not _bad(obs) and all(not _bad(obs[v]) and 'ret' in obs[v] for v in ('np', 'loop', 'pub')):
        bs = [w[0] for w in case['ws']]
        oracle = py_win if k == 'win' else py_win_tol
        if len(set(bs)) < len(bs) and all(oracle(case, obs[v]) is None for v in ('np', 'loop', 'pub')):
            return 'C20-windows-tie-order'
    return None


def shrink(case, obs, ctx):
    """drop windows / voltages / waveforms while the failure (Python oracle) persists"""
    def fails(c):
        o = run_impl(c)
        return (py_spec(c, o) is not None and classify(c, o) == classify(case, obs)), o
    cur, cur_obs = case, obs
    key = {'volt': 'vs', 'mono': 'xs', 'win': 'ws', 'win_tol': 'ws', 'shrink': 'ws', 'avg': 'ws', 'times': 'durs'}.get(case['kind'])
    if key is None or py_spec(case, obs) is None:
        return case, obs
    changed = True
    while changed and len(cur[key]) > 1:
        changed = False
        for i in range(len(cur[key])):
            c2 = dict(cur)
            c2[key] = cur[key][:i] + cur[key][i + 1:]
            bad, o2 = fails(c2)
            if bad:
                cur, cur_obs, changed = c2, o2, True
                break
    return cur, cur_obs


def search_failing(ctx, broken):
    """Specification oracles (Python side) against the implementation on exhaustive small scopes."""
    known, _ = vlib.load_known_findings()
    known = known.get(PID, {})

    def bad(case):
        o = run_impl(case)
        why = py_spec(case, o)
        if why is not None and classify(case, o) not in known:
            return case, o, why
        return None
    # shrink: all lists of <= 3 windows over 0..4
    for ws in shrink_universe(3, 4):
        for dt in ('int64',):
            r = bad({'kind': 'shrink', 'dtype': dt, 'ws': [list(w) for w in ws]})
            if r:
                return r
    # windows: begins/lengths over quarter steps, <= 3 windows, rates 1 and 2
    qs = [F(i, 4) for i in range(0, 11)]
    for sr in (F(1), F(2), F(1, 2)):
        for n in (1, 2, 3):
            for bs in itertools.product(qs[::2] if n == 3 else qs, repeat=n):
                ws = [[fs(b), fs(qs[(3 * i + 5) % len(qs)])] for i, b in enumerate(bs)]
                r = bad({'kind': 'win', 'sr': fs(sr), 'ws': ws})
                if r:
                    return r
        for l in qs:
            r = bad({'kind': 'win', 'sr': fs(sr), 'ws': [['0', fs(l)], ['1', fs(l + F(1, 8))]]})
            if r:
                return r
    # codes: every quarter step of every resolution <= 6 (amp = M so that the scaled voltage is exact)
    for res in range(1, 7):
        M = 2 ** res - 1
        vs = [F(-M) + F(i, 2) for i in range(0, 4 * M + 1)]
        for off in (F(0), F(3, 4)):
            r = bad({'kind': 'volt', 'amp': fs(M), 'off': fs(off), 'res': res, 'vs': [fs(v + off) for v in vs]})
            if r:
                return r
            for out in (off - M - F(1, 1024), off + M + F(1, 1024)):
                r = bad({'kind': 'volt', 'amp': fs(M), 'off': fs(off), 'res': res, 'vs': [fs(off), fs(out)]})
                if r:
                    return r
    # averages: two windows over a 5-sample grid
    one = [(b, e) for b in range(0, 6) for e in range(b, 6)]
    for w1 in one:
        for w2 in one:
            r = bad({'kind': 'avg', 'nch': 0, 'time': [str(i) for i in range(5)],
                     'values': [[fs(2520 * v)] for v in (1, -2, 3, 0, 2)],
                     'ws': [[str(w1[0]), str(w1[1])], [str(w2[0]), str(w2[1])]]})
            if r:
                return r
    for xs in itertools.product(range(3), repeat=4):
        r = bad({'kind': 'mono', 'xs': [str(x) for x in xs]})
        if r:
            return r
    return None


MANIFEST = {
    'level_text': 'Proof (Coq, unbounded, over exact rationals) about an executable model of the discretisation routines: DAC '
                  'codes are monotone, map the range ends to 0 and 2^res-1, err by at most half a step, out-of-range input is '
                  'rejected; window conversion sorts by begin, rounds begins half-to-even and floors lengths; shrinking keeps '
                  'every end, moves begins only forward and leaves the windows disjoint; numpy and loop variants of '
                  'voltage_to_uint16, is_monotonic, time_windows_to_samples and shrink_overlapping_windows are equal for all '
                  'inputs; _average_windows_numpy is the mean over begin <= t < end on sorted time, and so is the two-pointer '
                  'loop _average_windows_numba when the windows are sorted by begin and by end (proved; without that guard the '
                  'equality is refuted: known finding, nested windows); ProgramEntry._sample_waveforms: the flat-memory model '
                  '(compact rows, segment offsets, views read after all writes) equals the direct formula '
                  '(T(sample)-offset)/amplitude at k/rate, markers != 0, for all inputs incl. the error cases (proved).  Five '
                  'kernels (_is_monotonic_numba, _shrink_overlapping_windows_numba, _time_windows_to_samples_sorted_numba, '
                  '_voltage_to_uint16_numba, not_none_indices) are re-translated from /repo on every run and re-proved equal '
                  'to the model.  Separately labelled binary64 theorems (Flocq): the float computation of the code is monotone '
                  'and equals the exact code unless a half-way point lies between exact and float scaled voltage; round 3: for '
                  'amplitudes in 2^-500..2^500, in-range voltage and resolution 1..16 the float scaled voltage is within 2^-30 of '
                  'the exact one, hence |float code - exact code| <= 1, the float code is within 1/2 + 2^-30 of the exact scaled '
                  'voltage (= the tolerance of the decimal stream) and equals the exact code unless the exact scaled voltage is '
                  'within 2^-30 of a half-way point.  uint16 result: storing is the identity for resolutions 1..16 and wraps above '
                  '(refuted monotonicity; the public function rejects > 16 since repair 4036b19).  Purity (arguments unchanged, '
                  'second call on the same objects = first call) is part of check_corr / check_spec for every routine, not a '
                  'theorem (the models are pure functions).  ROUND 4: the sample grid in binary64.  Model.b64 (executable '
                  'nearest-even rounding of a rational to binary64) is proved equal to Flocq\'s rounding operator '
                  '(C20_b64_is_RN); "at the times k / sample rate" is defined as grid_time rate k = b64 (k / rate), one rounding '
                  'of the exact quotient; proved: binary64 division of representable k and r gives it, k * (1 / r) does not '
                  '(refuted at r = 3, k = 5, also on Flocq\'s operator), the pre-repair formula k / float(rate) is correct '
                  'exactly for representable rates (refuted at 9/5, k = 3: one ulp low — finding of /repo, repaired in 168262d), '
                  'the repaired get_sample_times (k * den / num) equals grid_time under its guard and so does every time the '
                  'model of get_sample_times returns.  time_windows_to_samples on arbitrary binary64 inputs: model conv64 '
                  '(product rounded to binary64), variants equal, within 2^-30 of the exact conversion for products up to 2^22, '
                  'equal to it for representable products.  Which side of an edge: the grid is monotone and, below 2^52 samples, strictly '
                  'monotone, so a jump stored at b64 (j / rate) has sample k at or after it iff k >= j (C20_grid_edge_side).  The '
                  'model of get_sample_times meets spec_times under the guard (C20_sample_times_meets_spec).  Not translated: _average_windows_numba (needs while loops with a '
                  'termination measure, lazily evaluated `and` whose right operand subscripts an array, tuple unpacking of '
                  '.shape, 2-D row views with broadcasting += and /=, NaN rows): its model avg_loop is tied to the code by '
                  'correspondence only.  ROUND 5 (audit): the sampling specification in Spec.v no longer uses any routine of the '
                  'model (own sample-count, channel-value and marker-value definitions; bridging lemmas), so C20_sampling relates '
                  'the flat-memory model to a model-free formula; ProofsWitness.v gives a non-trivial input for the hypotheses of '
                  'every guarded theorem; C20_grid_edge_side now includes an edge at time 0.  ROUND 6: range ends and code range in '
                  'binary64 are theorems (amplitude 2^-500..2^500, 1..16 bit): if the binary64 difference v - offset equals '
                  '+amplitude / -amplitude the float code is 2^res-1 / 0; every voltage the code\'s own range test accepts gets a '
                  'float code in 0..2^res-1; an exactly-in-range voltage is accepted when the amplitude is a binary64 number; an '
                  'executable binary64 model of both variants (code64, volt_numpy64, volt_loop64, volt_public64) is proved to be '
                  'that float computation, its variants equal, its accepted results = float codes in the code range, monotone, ends '
                  'on the extreme codes (C20_volt64_accepts) and is compared EXACTLY with the implementation on the decimal stream.  '
                  'TESTED ONLY (no theorem): the numpy '
                  'variants and _average_windows_numba as code (correspondence), purity of every routine, that _sample_waveforms '
                  'samples on the grid of get_sample_times, the half-step error in binary64 beyond the 2^-30 bound, and that the '
                  'binary64 models pass the tolerance checkers spec_volt_tol / spec_tw_tol as wholes.  ROUND 6 also: the models pass '
                  'the executable checkers of check_spec for ALL inputs: spec_shrink (incl. fails exactly when a window would lose '
                  'all samples, minimal shrink, first window untouched, flag iff change), spec_volt (amplitude > 0) and spec_tw '
                  '(C20_shrink_/volt_/windows_model_passes_checker).  Not covered: amplitude 0, '
                  'transformations other than identity / affine / square, float rounding of (T(x) - offset) / amplitude.',
    'level_note': 'Trusted: Coq kernel, the C20 translator (incl. its reading of numpy calls and float arithmetic as exact '
                  'rationals), numpy elementwise float arithmetic on dyadic inputs, Waveform.get_sampled as the sampling '
                  'function, harness.  Models are tied to /repo by an exact correspondence check that calls both internal '
                  'implementations of every routine and the public entry point; decimal (inexact) voltages and decimal windows '
                  'run as separate tolerance streams (correspondence exact through binary64 models, specification with tolerance); sample grids '
                  'are compared bit for bit.',
    'technique': 'Coq proof over hand-written + AST-translated kernels (text-independent simulation proofs), correspondence '
                 'check (vm_compute) against both numpy and loop variants, Flocq for the binary64 statements',
    'design_ref': 'DESIGN.md §5 C20',
}
