"""C01 round 6 — family `wfpart`: every waveform class that only a particular atom recipe x channel mapping produces,
played as a PART of a sequence / repetition / loop / reversal (sampled through `_unsafe_sample_shifted` at a non-zero
offset) and alone (sampled through `unsafe_sample`).

Seed C01-9 (missed by the round-5 check): FunctorWaveform (the negation `Waveform.__neg__` builds for `lhs - rhs` of an
ArithmeticAtomicPT whose lhs yields no waveform because every lhs channel is mapped to None) lost its functor on the
shifted path only.  The generic stream rarely drops EVERY channel of one operand and then rarely nests the atom.  The
class is closed by the product
    recipe (which wrapper waveform the atom becomes)  x  way of dropping (top-level mapping / MappingPT around the atom)
    x  shape (alone, repeated, second / both sequence members, repeated sequence, sequence then repetition, reversed
       sequence, repeated reversal, mapping around repetition, nested repetition, loop with index dependent values)
All node kinds are modelled ones (the Coq model has WNeg / wneg): model and denotation judge the code directly."""
from fractions import Fraction as F

from props import c01_gen as G
from props import c01_gen3 as G3
from props import c01_gen4 as G4

C, V = G.C, G.V


def ramp(ch, d, v0, slope, interp='linear'):
    return G4.a_ramp(ch, d, v0, slope, interp)[0]


def const(chs, d, vs):
    return {'k': 'const', 'd': d, 'amps': [[ch, C(v)] for ch, v in zip(chs, vs)]}


def func(ch, d, a, b):
    return {'k': 'func', 'd': d, 'ch': ch, 'a': a, 'b': b}


def point(ch, d, v0, slope):
    return G4.a_point(ch, d, v0, slope)[0]


def two(c1, c2, d, v=(0, 1, 2, -1)):
    return {'k': 'multi', 'subs': [ramp(c1, d, v[0], v[1]), ramp(c2, d, v[2], v[3])]}


def aar(l, op, r):
    return {'k': 'aarith', 'l': l, 'op': op, 'r': r}


def recipes(d, off=None):
    """(tag, atom, dropped channels, channels of the atom).  off: an expression added to the start value of the surviving
    operand (loop index dependence)"""
    o = (lambda v: C(v)) if off is None else (lambda v: ['+', C(v), off])
    rampo = lambda ch, v0, s, interp='linear': {'k': 'table', 'chs': [[ch, [[C(0), o(v0), 'hold'], [d, ['+', o(v0), G4.mul(C(s), d)], interp]]]]}
    pointo = {'k': 'point', 'entries': [[C(0), [o(1)], 'hold'], [d, [['+', o(1), G4.mul(C(F(-1, 2)), d)]], 'linear']], 'chs': ['B']}
    twoo = lambda c1, c2, v: {'k': 'multi', 'subs': [rampo(c1, v[0], v[1]), ramp(c2, d, v[2], v[3])]}
    out = []
    # lhs - rhs, every lhs channel dropped: the negation FunctorWaveform(rhs)
    out.append(('neg-ramp', aar(ramp('A', d, 1, 1), '-', rampo('B', 0, 2)), ['A'], ['A', 'B']))
    out.append(('neg-func', aar(const(['A'], d, [1]), '-', func('B', d, o(F(1, 2)), C(F(-1)))), ['A'], ['A', 'B']))
    out.append(('neg-point', aar(ramp('A', d, 1, 1), '-', pointo), ['A'], ['A', 'B']))
    out.append(('neg-two', aar(ramp('A', d, 1, 1), '-', twoo('B', 'C', (0, 1, 2, -1))), ['A'], ['A', 'B', 'C']))
    out.append(('neg-jump', aar(ramp('A', d, 1, 1), '-', rampo('B', 1, 2, 'jump')), ['A'], ['A', 'B']))
    out.append(('neg-const', aar(ramp('A', d, 1, 1), '-', {'k': 'const', 'd': d, 'amps': [['B', o(F(3, 2))]]}), ['A'], ['A', 'B']))
    out.append(('neg-two-lhs', aar(two('A', 'C', d), '-', rampo('B', F(1, 2), 1)), ['A', 'C'], ['A', 'B', 'C']))
    # one of two lhs channels dropped (ArithmeticWaveform over a subset), the shared channel subtracted
    out.append(('sub-partial', aar(two('A', 'B', d), '-', twoo('B', 'C', (1, 2, 0, 1))), ['A'], ['A', 'B', 'C']))
    # + with lhs dropped (rhs itself), rhs dropped (lhs itself)
    out.append(('plus-lhs-dropped', aar(ramp('A', d, 1, 1), '+', rampo('B', 0, 2)), ['A'], ['A', 'B']))
    out.append(('minus-rhs-dropped', aar(rampo('A', 1, 1), '-', ramp('B', d, 0, 2)), ['B'], ['A', 'B']))
    # negation of a negation, negation as operand of a further arithmetic atom / inside a multi-channel atom
    out.append(('neg-neg', aar(ramp('A', d, 1, 1), '-', aar(ramp('C', d, 0, 1), '-', rampo('B', 0, 2))), ['A', 'C'], ['A', 'B', 'C']))
    out.append(('neg-plus', aar(aar(ramp('A', d, 1, 1), '-', rampo('B', 0, 2)), '+', ramp('C', d, 1, -1)), ['A'], ['A', 'B', 'C']))
    out.append(('neg-minus-same', aar(aar(ramp('A', d, 1, 1), '-', rampo('B', 0, 2)), '-', ramp('B', d, 1, -1)), ['A'], ['A', 'B']))
    out.append(('neg-in-multi', {'k': 'multi', 'subs': [aar(ramp('A', d, 1, 1), '-', rampo('B', 0, 2)), ramp('C', d, 1, -1)]},
                ['A'], ['A', 'B', 'C']))
    return out


def lead_for(chs, d):
    return {'k': 'const', 'd': d, 'amps': [[ch, C(F(j + 1, 4))] for j, ch in enumerate(chs)]}


WRAPS = ['plain', 'scalar', 'par']


def wrap(x, w, chs):
    """a transformation node directly around the atom (TransformingWaveform over the wrapper waveform)"""
    if w == 'scalar':
        return {'k': 'arith', 'lhs': True, 'op': '*', 'scalar': C(F(-1, 2)), 'body': x}
    if w == 'par':
        return {'k': 'par', 'body': x, 'ow': [['P', C(F(3, 4))]]}
    return x


def _case(pt, params, cm, tag, dec=None):
    c = {'pt': pt, 'params': {k: str(F(v)) for k, v in params.items()}, 'cm': cm}
    if dec:
        c = G3.regrid(c, {'den': dec['den'], 'ptypes': dec.get('ptypes', {}), 'rates': dec.get('rates', []), 'dec_kind': 'wfpart'})
    c['family'] = 'wfpart'
    c['wfpart'], c['wfpart_shape'] = tag.split('/', 1)
    return c


def place(sh, atom, dropped, chs, d, how, n):
    """the atom (with its dropping MappingPT for how == 'map') in the shape; -> (tree, top-level channel mapping)"""
    if how == 'map':
        x = {'k': 'map', 'pm': [], 'chm': [[ch, None] for ch in dropped], 'body': atom}
        lead = lead_for([ch for ch in chs if ch not in dropped], d)
        cm = []
    else:
        x = atom
        lead = lead_for(chs, d)
        cm = [[ch, None] for ch in dropped]
    tree = G4.shape(sh, G4.same(x), lead, n=n)
    return tree[0], cm


def gen_wfpart_cases(rng, tier):
    quick = tier == 'quick'
    shapes = G4.SHAPES[:-1]
    out = []
    for dform in ('lit', 'param'):
        dv = rng.choice([F(1), F(3, 2), F(2), F(5, 4)])
        d = C(dv) if dform == 'lit' else V('d')
        params = {} if dform == 'lit' else {'d': dv}
        for j, (tag, atom, dropped, chs) in enumerate(recipes(d)):
            for s, sh in enumerate(shapes):
                # quick: every recipe in every shape once (the way of dropping and the duration form alternate)
                how = 'top' if (j + s + (dform == 'lit')) % 2 == 0 else 'map'
                if quick and (s % 2 == 0) != (dform == 'lit'):
                    continue
                for hw in ([how] if quick else ['top', 'map']):
                    pt, cm = place(sh, atom, dropped, chs, d, hw, rng.choice([2, 3]))
                    out.append(_case(pt, params, cm, '%s/%s/%s' % (tag, sh, hw)))
    # a transformation node directly around the atom (scalar arithmetic / a further constant channel)
    d = C(F(3, 2))
    for j, (tag, atom, dropped, chs) in enumerate(recipes(d)):
        for w in ('scalar', 'par'):
            for sh in (['rep', 'seq-second', 'rev-seq'] if not quick else [['rep', 'seq-second', 'rev-seq'][(j + (w == 'par')) % 3]]):
                x = wrap(atom, w, chs)
                lead = lead_for(chs + (['P'] if w == 'par' else []), d)
                tree = G4.shape(sh, G4.same(x), lead, n=2)[0]
                out.append(_case(tree, {}, [[ch, None] for ch in dropped], '%s/%s/%s' % (tag, sh, w)))
    # loop index in the surviving operand's values and in the duration
    for tag, atom, dropped, chs in recipes(C(F(3, 2)), off=V('i')):
        pt = {'k': 'for', 'idx': 'i', 'range': [C(0), C(3), C(1)], 'body': atom}
        out.append(_case(pt, {}, [[ch, None] for ch in dropped], tag + '/for-value/top'))
    for tag, atom, dropped, chs in recipes(['*', C(F(1, 2)), V('i')]):
        body = {'k': 'map', 'pm': [], 'chm': [[ch, None] for ch in dropped], 'body': atom}
        pt = {'k': 'for', 'idx': 'i', 'range': [C(1), C(4), C(1)], 'body': body}
        out.append(_case(pt, {}, [], tag + '/for-duration/map'))
    # the surviving channel renamed at the top / by a MappingPT above the repetition
    for tag, atom, dropped, chs in recipes(C(2)):
        keep = [ch for ch in chs if ch not in dropped]
        rp = {'k': 'rep', 'n': C(2), 'body': atom}
        out.append(_case(rp, {}, [[ch, None] for ch in dropped] + [[keep[0], 'Z']], tag + '/renamed/top'))
        m = {'k': 'map', 'pm': [], 'chm': [[ch, None] for ch in dropped] + [[keep[0], 'Y']], 'body': rp}
        out.append(_case(m, {}, [], tag + '/renamed/map'))
    # decimal durations (tolerance constructor)
    for den, dq, form, rates in ((10, F(3, 10), 'float', [[10, 'int']]), (5, F(3, 5), 'time', [[5, 'int']]),
                                 (3, F(2, 3), 'time', [[3, 'int']]), (20, F(7, 20), 'dec_str', [[20, 'float']])):
        rs = recipes(V('d1'))
        for tag, atom, dropped, chs in (rs if not quick else rng.sample(rs, 3)):
            for sh in (['rep', 'seq-second', 'rep-seq', 'rev-seq', 'rep-rev'] if not quick else rng.sample(['rep', 'seq-second', 'rep-seq', 'rev-seq'], 2)):
                pt, cm = place(sh, atom, dropped, chs, V('d1'), 'top', rng.choice([3, 4, 7]))
                out.append(_case(pt, {'d1': dq}, cm, '%s/%s/dec' % (tag, sh), dec={'den': den, 'ptypes': {'d1': form}, 'rates': rates}))
    return out


# ---------------------------------------------------------------------------------------------------------------------
# family `sweep` (seed C01-10, missed by the round-5 check): a HISTORY in which the sampled arrays of earlier programs are
# still referenced while the programs / waveforms themselves are gone.  One template object is instantiated with several
# voltage values (durations and therefore the time grid stay the same), every program is turned into a waveform, sampled on
# the grid of the check without output array, and dropped; the results are kept.  Then the case's own values are
# instantiated and judged as usual (model + denotation).  Anything keyed by object identity / by the time grid instead of
# the content shows here (CPython hands the address of a dead waveform to the next one of the same shape).
def gen_sweep_cases(rng, tier):
    quick = tier == 'quick'
    out = []
    d = C(2)
    v, w = V('v'), V('w')
    atoms = [
        ('ramp', {'k': 'table', 'chs': [['A', [[C(0), v, 'hold'], [d, C(0), 'linear']]]]}, ['A']),
        ('func', func('A', d, v, C(F(-1, 2))), ['A']),
        ('point', {'k': 'point', 'entries': [[C(0), [v], 'hold'], [d, [['+', v, C(1)]], 'linear']], 'chs': ['A']}, ['A']),
        ('two', {'k': 'multi', 'subs': [{'k': 'table', 'chs': [['A', [[C(0), v, 'hold'], [d, w, 'linear']]]]},
                                        {'k': 'table', 'chs': [['B', [[C(0), w, 'hold'], [d, C(1), 'linear']]]]}]}, ['A', 'B']),
        ('aarith', aar({'k': 'table', 'chs': [['A', [[C(0), v, 'hold'], [d, C(0), 'linear']]]]}, '-', ramp('A', d, 1, 1)), ['A']),
        ('scaled', {'k': 'arith', 'lhs': False, 'op': '*', 'scalar': C(3),
                    'body': {'k': 'table', 'chs': [['A', [[C(0), v, 'hold'], [d, C(0), 'linear']]]]}}, ['A']),
        ('scalar-v', {'k': 'arith', 'lhs': True, 'op': '+', 'scalar': v, 'body': ramp('A', d, 0, 1)}, ['A']),
        ('jump', {'k': 'table', 'chs': [['A', [[C(0), v, 'hold'], [C(1), w, 'jump'], [d, C(0), 'linear']]]]}, ['A']),
    ]
    shapes = ['alone', 'rep', 'seq-second', 'seq-both', 'rep-seq', 'rev-seq', 'rep-rev', 'map-rep']
    for j, (tag, atom, chs) in enumerate(atoms):
        for s, sh in enumerate(shapes):
            if quick and (j + s) % 2:
                continue
            pt = G4.shape(sh, G4.same(atom), lead_for(chs, C(1)), n=2)[0]
            v0 = rng.choice([F(1), F(3, 2), F(-1), F(2)])
            w0 = rng.choice([F(1, 2), F(-2), F(3)])
            params = {'v': v0, 'w': w0}
            sweep = [{'v': v0 + 1, 'w': w0}, {'v': 2 * v0, 'w': w0 - 1}, {'v': -v0, 'w': w0 + F(1, 2)}, {'v': v0 + 4, 'w': -w0}]
            c = {'pt': pt, 'params': {k: str(x) for k, x in params.items() if k in G.free_params(pt)}, 'cm': [],
                 'sweep': [{k: str(x) for k, x in sw.items() if k in G.free_params(pt)} for sw in sweep],
                 'family': 'sweep', 'sweep_times': 5, 'sweep_tag': '%s/%s' % (tag, sh)}
            out.append(c)
            out.append(dict(c, sweep_hold=8, sweep_tag=c['sweep_tag'] + '/hold'))
    return out
