"""C08 — waveforms honour their contract: constants, subsets, reversal, equality, pointwise/total/history-free sampling."""
import fractions
import json
import os
import warnings

import vlib
from vlib import gZ, gQ, gbool, gopt, glist

F = fractions.Fraction
PID = 'C08'
COQ_DIRS = ['common', 'C08']
TARGETS = ['C08/Props.vo', 'C08/Corr.vo']
MODEL_TARGETS = ['C08/Corr.vo']
PROPS_FILE = 'C08/Props.v'
PROPS_MODULE = 'QV.C08.Props'
CORR_IMPORTS = ['QV.C08.Model', 'QV.C08.Spec', 'QV.C08.Hist', 'QV.C08.Corr']
CHECK_CORR = 'check_corr'
CHECK_SPEC = 'check_spec'
SHARD = 150
RULE = ('waveform recipes (nesting <= 4) over all classes (table hold/linear/jump, constant, polynomial function, sequence, '
        'multi-channel, repetition, transforming {identity, scaling, offset, linear, parallel, chained; constant and '
        'time-dependent entries}, subset, arithmetic +/-, functor, reversed), every node built through the plain OR the '
        'optimising constructor; dyadic times (multiples of 1/4) and voltages (multiples of 1/2).  Each recipe is sampled on '
        'three grids: "off" (k/4+1/16, k/4+1/8: never a junction), "on" (multiples of 1/4 incl. 0 and every junction), '
        '"end" (on + t=duration); plus malformed grids (unsorted, negative, beyond the end, unknown channel, empty), '
        'malformed recipes (channel clashes, duration mismatches, bad tables, count 0), equality/hash pairs and call '
        'histories (same array object reused, output array supplied or not, interleaved channels, times changed in '
        'place; shadowed linear outputs after a parallel constant).  Round 3 families: grids that leave whole repetitions / '
        'sequence parts without a sample (single late time, one middle piece, every other piece ...), the same through ONE reused '
        'output array; equal sub-recipes built as ONE shared object; histories about array identity (temporaries, a slot freed and '
        're-allocated at the same address, reused output arrays, read-only queries, strided / read-only arrays); coinciding channel '
        'names (linear swap / rotation / x -> 2x, a channel called t); empty dicts / empty channel sets.  Round 4 families: '
        'get_subset_for_channels with a request inside the channels only ONE operand / part contributes (arithmetic +/-, nested '
        'arithmetic, multi-channel parts, parallel-added channels, linear outputs; bare and below sequence / repetition / functor / '
        'reversal / subset; constant operands half of the time; small-scope exhaustive over lhs-only/both/rhs-only assignments of 3 '
        'channels x every proper request set); constructor paths found unreached by the line-coverage audit (constant-expression '
        'FunctionWaveform, from_expression, one-part sequences / multi-channel waveforms, SubsetWaveform over constants below '
        'every optimising constructor); Python-side API probes on every sample case (is_constant vs constant_value_dict vs '
        'constant_value, unary plus, output arrays of the wrong length / empty time arrays).  Round 5 families: the same rational times handed over as '
        'int64 / int32 / int8 / uint8 / uint16 / float32 / float16 arrays for 15 recipe kinds (12 report a constant that is neither '
        'an integer nor a single precision number), with and without a supplied float64 result array; equality pairs that differ '
        'in exactly one slot for every class.  Round 6 family: expressions that ARE their argument (FunctionWaveform t, t*1, t+0, '
        't/1, 1*t, t**1; transformation values spelled t) and 7 other spellings of polynomials, bare and below 30 parents (functors, '
        'multi-channel, subset, transformations, arithmetic, sequence, repetition, reversal), on off / end grids and in a '
        'render-style history (one writeable time array, every channel in turn, first channel again); on every sample case and '
        'history call the caller\'s time array must keep its content and its writeable flag and the answer must not share memory '
        'with it.  A rejected case is filed under a known finding only if Coq confirms that the '
        'implementation equals the model of the unchanged code on it and the specification accepts everything outside the '
        'points the finding is about (Corr.v excused).  Decimal stream (kind dec): durations k/10, k/3, k/5, k/6, k/7, k/100 '
        '(exact TimeType), repetitions 3..10, grid on every junction as correctly rounded doubles, tolerance 2^-30.  '
        'Non-trivial = the recipe has a composite node (not a bare leaf); distinct = canonical JSON.')
TRUSTED = [
    'Coq 8.16.1 kernel + vm_compute (no native_compute)',
    'numpy: searchsorted / slicing / views / elementwise arithmetic behave as modelled (lists, counts, slices); binary64 '
    'rounding is not modelled: generated numbers are dyadic so that float arithmetic is exact',
    'sympy lambdify evaluates the generated polynomial / affine expressions exactly on dyadic inputs',
    'harness: generators, py_build (recipe -> real objects), exact float->rational conversion, Gallina printers',
    'Python hash(): "equal waveforms have equal hashes" is observed on generated pairs, not proved',
    'Waveform.__sampled_cache: keyed by hash(bytes(result)); a 64-bit hash collision between different results is '
    'assumed not to occur',
]
ASSUMPTIONS = [
    'sample times handed to unsafe_sample are sorted (get_sampled enforces it)',
    'channel ids are 0 (int) and the strings A..D; LinearTransformation is used with string channels only',
    'repetition counts are small positive integers in generated cases (the theorems are for all counts)',
]
MANIFEST = {
    'level_text': 'Proof: 91 unbounded theorems over an executable Coq model of waveforms.py (clause map in notes/C08.md). Proved in '
                  'full: vectorised sampler = pointwise meaning on every sorted grid, independent of the other times (all 11 '
                  'classes); __eq__ of the model => identical behaviour; reversed() / double reversal laws on the pointwise reading. '
                  'Proved under executable guards: constant_value sound on [0,duration) for all classes and on [0,duration] '
                  'without sequence/repetition nodes (refuted at t=duration for sequence/repetition); totality (REFUTED on the unchanged '
                  'code: sequence/repetition at t=duration, reversal around them on their junctions, chained parallel+linear KeyError; '
                  'proved - round 6 - for all classes at every time of [0,duration) that the executable junction guard badT does '
                  'not exclude, reversal around sequence/repetition included; the older guard that forbids such reversals '
                  'altogether is proved to be a special case); every optimising constructor samples like the plain '
                  'composite and returns a well-formed waveform, single steps and the COMPOSED statement for EVERY construction '
                  'recipe on [0,duration) (guards: constructor shape of transformations, no KeyError in the plain composite, time '
                  'guard = local time 0 of a reversal); get_subset_for_channels for all classes (same time guard); history '
                  'independence (no transforming nodes: any history; with transformations: arrays not mutated, no shadowing linear '
                  'output, and - since round 5 - no call of the history raises KeyError); code meaning = DESIGN 4.4 denotation for '
                  'reversal anywhere with transformations of any kind away from the junctions an executable guard excludes; '
                  'exclusive-channel laws of ArithmeticWaveform. Only tested (not in the model): independence of a supplied result '
                  'array (content, length check), the representation (dtype, strides) of the time array, is_constant(), '
                  'from_expression, Python hash values, float rounding. '
                  'The model (incl. a state machine for the TransformingWaveform cache, with the state a failing call leaves '
                  'behind) is tied to /repo by an exact correspondence check and an independent denotation on generated waveform '
                  'trees (families: sparse grids, shared objects, re-allocated time arrays, reused output arrays, coinciding channel '
                  'names, exclusive-channel subsets, integer / single precision time arrays, one-slot equality pairs, expressions that '
                  'return their argument + caller\'s time array neither written nor aliased) and a '
                  'decimal-duration stream under tolerance 2^-30.',
    'level_note': 'Trusted: Coq kernel, numpy/sympy semantics as modelled, harness (py_build, printers), Python hash. Float '
                  'rounding not modelled (dyadic inputs exact; decimal stream under a declared tolerance, nothing excused there). '
                  '7 known findings; a rejected case counts as one of them only if Coq confirms implementation = model of the '
                  'unchanged code and the specification holds outside the finding (round 5). 5 defects were repaired in /repo '
                  '(01efa2c, 33916af, 55554c3, 4b5e473, e2c868b).',
    'technique': 'Coq proof over a hand-written model + correspondence check + denotational oracle',
    'design_ref': 'DESIGN.md §5 C08, §4.3, §4.4, Appendix C, D4',
}

CH = [0, 'A', 'B', 'C', 'D', 't']      # N index -> Python channel id (order preserving w.r.t. _sort_key_for_channels);
                                       # 't' (index 5) is named like the time variable of time dependent transformations
INTERP = {'h': 'Hold', 'l': 'Linear', 'j': 'Jump'}
FUNCTOR = {'neg': 'FNeg', 'pos': 'FPos', 'abs': 'FAbs'}
Q4 = F(1, 4)


def fs(x):
    return str(F(x))


# ---------------------------------------------------------------------------------------------------------------------
# recipe -> real objects

class Malformed(Exception):
    pass


def _tval_py(tv):
    from qupulse.expressions import ExpressionScalar
    if tv[0] == 'c':
        return float(F(tv[1]))
    if len(tv) > 3 and tv[3]:
        return ExpressionScalar(tv[3])      # round 6 family (j): the same affine function in another spelling ('t', 't/2 + 1')
    return ExpressionScalar('%r + %r*t' % (float(F(tv[1])), float(F(tv[2]))))


def _trafo_py(T):
    import numpy as np
    from qupulse.program import transformation as tr
    k = T[0]
    if k == 'id':
        return tr.IdentityTransformation()
    if k == 'scale':
        return tr.ScalingTransformation({CH[c]: _tval_py(v) for c, v in T[1]})
    if k == 'offset':
        return tr.OffsetTransformation({CH[c]: _tval_py(v) for c, v in T[1]})
    if k == 'parallel':
        return tr.ParallelChannelTransformation({CH[c]: _tval_py(v) for c, v in T[1]})
    if k == 'linear':
        m = np.array([[float(F(x)) for x in row] for row in T[3]], dtype=float).reshape(len(T[2]), len(T[1]))
        return tr.LinearTransformation(m, [CH[c] for c in T[1]], [CH[c] for c in T[2]])
    if k == 'chain':
        return tr.ChainedTransformation(*[_trafo_py(x) for x in T[1]])
    raise ValueError(k)


def _tm(x):
    """a time of a recipe as the real code gets it: a float when it is a binary fraction (exact), else an exact TimeType"""
    q = F(x)
    if q.denominator & (q.denominator - 1) == 0:
        return float(q)
    from qupulse.utils.types import TimeType
    return TimeType.from_fraction(q.numerator, q.denominator)


def py_build(r, memo=None):
    """Build the real waveform object a recipe describes (fresh objects on every call).  With a `memo` dict equal
    sub-recipes become THE SAME object (the same waveform nested twice / used on both sides of an operator)."""
    if memo is not None:
        key = json.dumps(r)
        if key not in memo:
            memo[key] = _py_build(r, memo)
        return memo[key]
    return _py_build(r, None)


def _py_build(r, memo):
    import numpy as np
    from qupulse.program import waveforms as W
    from qupulse.pulses import interpolation as I
    from qupulse.expressions import ExpressionScalar
    k = r[0]
    if k == 'table':
        strat = {'h': I.HoldInterpolationStrategy(), 'l': I.LinearInterpolationStrategy(), 'j': I.JumpInterpolationStrategy()}
        entries = [(float(F(t)), float(F(v)), strat[i]) for t, v, i in r[3]]   # entry times are floats (as TablePT hands them over)
        if r[1]:
            w = W.TableWaveform.from_table(CH[r[2]], entries)
        else:
            w = W.TableWaveform(CH[r[2]], tuple(W.TableWaveformEntry(*e) for e in entries))
    elif k == 'const':
        w = W.ConstantWaveform(_tm(r[1]), float(F(r[2])), CH[r[3]])
    elif k == 'func':
        coef = [float(F(x)) for x in r[1]]
        expr = ' + '.join('%r*t**%d' % (a, i) for i, a in enumerate(coef)) or '0'
        if len(r) > 5 and r[5]:
            expr = r[5]     # round 6 family (j): the same polynomial in another spelling ('t', 't*1', '2*t + 1', '(t + 1)*t')
        if len(r) > 4 and r[4]:
            w = W.FunctionWaveform.from_expression(ExpressionScalar(expr), _tm(r[2]), CH[r[3]])   # constant expression -> ConstantWaveform
        else:
            w = W.FunctionWaveform(ExpressionScalar(expr), _tm(r[2]), CH[r[3]])
    elif k == 'seq':
        subs = [py_build(x, memo) for x in r[2]]
        w = W.SequenceWaveform.from_sequence(subs) if r[1] else W.SequenceWaveform(subs)
    elif k == 'multi':
        subs = [py_build(x, memo) for x in r[2]]
        w = W.MultiChannelWaveform.from_parallel(subs) if r[1] else W.MultiChannelWaveform(subs)
    elif k == 'rep':
        b = py_build(r[2], memo)
        w = W.RepetitionWaveform.from_repetition_count(b, r[3]) if r[1] else W.RepetitionWaveform(b, r[3])
    elif k == 'trans':
        b = py_build(r[2], memo)
        T = _trafo_py(r[3])
        w = W.TransformingWaveform.from_transformation(b, T) if r[1] else W.TransformingWaveform(b, T)
    elif k == 'subset':
        w = W.SubsetWaveform(py_build(r[1], memo), {CH[c] for c in r[2]})
    elif k == 'getsubset':
        w = py_build(r[1], memo).get_subset_for_channels({CH[c] for c in r[2]})
    elif k == 'arith':
        a, b = py_build(r[2], memo), py_build(r[4], memo)
        w = W.ArithmeticWaveform.from_operator(a, r[3], b) if r[1] else W.ArithmeticWaveform(a, r[3], b)
    elif k == 'functor':
        b = py_build(r[2], memo)
        fm = {'neg': np.negative, 'pos': np.positive, 'abs': np.abs}
        f = {CH[c]: fm[g] for c, g in r[3]}
        w = W.FunctorWaveform.from_functor(b, f) if r[1] else W.FunctorWaveform(b, f)
    elif k == 'neg':
        w = -py_build(r[1], memo)
    elif k == 'rev':
        w = W.ReversedWaveform(py_build(r[1], memo))
    elif k == 'fromrev':
        w = W.ReversedWaveform.from_to_reverse(py_build(r[1], memo))
    elif k == 'reversed':
        w = py_build(r[1], memo).reversed()
    else:
        raise ValueError(k)
    w.defined_channels      # a transformation that does not fit its inner waveform raises here (KeyError)
    return w


ERRK = {ValueError: 'EValue', KeyError: 'EKey', AssertionError: 'EAssert', ZeroDivisionError: 'EZeroDiv', TypeError: 'EType'}


def _guard(fn):
    """('ok', value) | ('err', kind) | ('crash', text) | ('hang',)"""
    try:
        with warnings.catch_warnings():
            warnings.simplefilter('ignore')
            try:
                with vlib.time_limit(10):
                    return ('ok', fn())
            except vlib.Timeout:
                # round 5: at machine load > 150 a trivial call (first sympy lambdify, a page fault storm) was seen to take
                # > 10 s twice in 54 000 thorough cases; a real hang is still a hang after the second, longer limit
                with vlib.time_limit(90):
                    return ('ok', fn())
    except vlib.Timeout:
        return ('hang',)
    except tuple(ERRK) as e:
        for cls, kind in ERRK.items():
            if type(e) is cls:
                return ('err', kind)
        return ('crash', '%s: %s' % (type(e).__name__, e))
    except Exception as e:     # noqa
        return ('crash', '%s: %s' % (type(e).__name__, e))


def _vals(arr):
    import math
    out = []
    for x in arr.tolist():
        if isinstance(x, float) and math.isnan(x):
            out.append(None)
        elif isinstance(x, float) and math.isinf(x):
            raise OverflowError('inf sample')
        else:
            out.append(vlib.frac_json(x))
    return out


def _sres(g):
    if g[0] == 'ok':
        return {'ok': g[1]}
    if g[0] == 'err':
        return {'err': g[1]}
    return {'crash': str(g[1:])}


def _cvjson(v):
    return None if v is None else vlib.frac_json(v)


def _build_case(case):
    """the real object of a case; `share`: equal sub-recipes are one object"""
    return py_build(case['r'], {} if case.get('share') else None)


_GARBAGE = 99.5     # content of a supplied output array before the first call writes into it (never a generated voltage)


def _mk_array(vals, flavour, np):
    """a float array with the given content: plain, or a strided / negatively strided view into a larger buffer"""
    if flavour == 'view':
        base = np.full(2 * len(vals) + 1, -7.25)
        a = base[1::2]
        a[:] = vals
        return a
    if flavour == 'rview':
        base = np.full(len(vals), -7.25)
        a = base[::-1]
        a[:] = vals
        return a
    return np.array(vals, dtype=float)


def _alloc_at(vals, flavour, want, np):
    """allocate the array, trying to land on the address of a just freed array object (`want` = its id): candidates
    that land elsewhere are held until the search ends.  -> (array, landed on the wanted address?)"""
    held = []
    a = None
    for _ in range(32):
        a = _mk_array(vals, flavour, np)
        if want is None or id(a) == want:
            break
        held.append(a)
    hit = want is not None and id(a) == want
    del held
    return a, hit


def run_impl(case):
    import numpy as np
    k = case['kind']
    if k == 'dec':
        _STATS['inexact_cases'] += 1
        _STATS['inexact_samples'] += 2 * len(case['grid']) * len(case['chans'])
    if k in ('sample', 'dec'):
        b = _guard(lambda: _build_case(case))
        if b[0] != 'ok':
            return _sres(b) if b[0] == 'err' else {'crash': str(b)}
        w = b[1]
        grid = np.array([float(F(t)) for t in case['grid']], dtype=float)
        if case.get('tdtype'):
            # round 5 family (h): the SAME times in another representation (integer / single / half precision array); used
            # only when every time is exactly representable, so the rational grid of the case stays what the code sees
            with np.errstate(all='ignore'):
                alt = grid.astype(case['tdtype'])
            if np.array_equal(alt.astype(float), grid):
                grid = alt
        ok_grid = _grid_ok(case['grid'], vlib.to_fraction(w.duration))
        per = []
        keep = []
        mutated = []
        aliased = []
        for c in case['chans']:
            ch = CH[c]
            o = {'c': c}
            if ch in w.defined_channels:
                g = _guard(lambda: _cvjson(_build_case(case).constant_value(ch)))
                if g[0] == 'err':
                    # constant_value itself raised (KeyError inside a transformation chain): get_sampled raises the same
                    o['cv'] = None
                    o['cv_err'] = g[1]
                elif g[0] != 'ok':
                    return {'crash': 'constant_value: %s' % (g,)}
                else:
                    o['cv'] = g[1]
            else:
                o['cv'] = None
            def gs_call():
                ts = grid.copy()
                ts.flags.writeable = False           # the sampler must not write into the caller's time array
                res = _build_case(case).get_sampled(ch, ts)
                keep.append(res)
                if not np.array_equal(ts, grid):
                    mutated.append(c)
                if np.shares_memory(res, ts):
                    aliased.append(c)                # round 6: the answer must not be a window onto the caller's time array
                return _vals(res)
            g = _guard(gs_call)
            if g[0] not in ('ok', 'err'):
                return {'crash': 'get_sampled: %s' % (g,)}
            o['gs'] = _sres(g)
            if ok_grid and ch in w.defined_channels and len(grid):
                def us_call():
                    ts = grid.copy()
                    w2 = _build_case(case)
                    res = w2.unsafe_sample(ch, ts)
                    if not np.array_equal(ts, grid):
                        mutated.append(c)
                    v = _vals(res)
                    # round 6: the public call on a WRITEABLE array (what a caller normally has): the array
                    # keeps its content and stays writeable, the answer is not a window onto it
                    ts2 = grid.copy()
                    try:
                        res2 = w2.get_sampled(ch, ts2)
                    except Exception:      # noqa  (an error of get_sampled is observed by gs_call above)
                        res2 = None
                    if not np.array_equal(ts2, grid) or not ts2.flags.writeable:
                        mutated.append(c)
                    if res2 is not None and np.shares_memory(res2, ts2):
                        aliased.append(c)
                    return v
                g = _guard(us_call)
                if g[0] not in ('ok', 'err'):
                    return {'crash': 'unsafe_sample: %s' % (g,)}
                o['us'] = _sres(g)
            else:
                o['us'] = None
            per.append(o)
        out = {'built': {'chs': sorted(CH.index(c) for c in w.defined_channels),
                         'dur': vlib.frac_json(w.duration), 'per': per}}
        if mutated:
            out['mutated'] = mutated
        if aliased:
            out['aliased'] = sorted(set(aliased))
        if k == 'sample':
            api = _api_probes(w, per, np)
            if case.get('tdtype') and ok_grid and len(grid):
                api += _out_array_probe(case, grid, per, np)
            if api:
                out['api'] = api
        return out
    if k == 'eq':
        a, b = _guard(lambda: py_build(case['r1'])), _guard(lambda: py_build(case['r2']))
        if a[0] == 'err' or b[0] == 'err':
            return {'built': False}
        if a[0] != 'ok' or b[0] != 'ok':
            return {'crash': str((a, b))}
        a, b = a[1], b[1]
        g = _guard(lambda: (bool(a == b), bool(b == a), bool(a != b)))
        if g[0] != 'ok':
            return {'crash': 'eq: %s' % (g,)}
        eq, eq2, ne = g[1]
        if eq != eq2 or ne == eq:
            return {'crash': 'inconsistent == / != : %r' % (g[1],)}
        h = _guard(lambda: hash(a) == hash(b))
        heq = h[1] if h[0] == 'ok' else None
        same = None
        if eq:
            same = _same_behaviour(case, a, b)
        return {'built': True, 'eq': eq, 'hash_eq': heq, 'same': same}
    if k == 'hist':
        return _run_history(case, np)
    raise ValueError(k)


def _api_probes(w, per, np):
    """Contract questions that need no model (judged by `py_spec` alone, never sent to Coq): is_constant() against
    constant_value_dict() against constant_value(); unary plus; get_sampled with an output array of the wrong length
    (must be refused, also on the constant short cut) and with empty time arrays.  -> list of complaints"""
    bad = []
    if any(p.get('cv_err') for p in per) or not w.defined_channels:
        return bad          # constant_value itself raises (known finding C08-chain-parallel-linear-keyerror) / no channel
    g = _guard(lambda: (bool(w.is_constant()), w.constant_value_dict(), {ch: w.constant_value(ch) for ch in w.defined_channels}))
    if g[0] != 'ok':
        return ['is_constant / constant_value_dict / constant_value: %r' % (g,)]
    ic, cvd, cvs = g[1]
    if ic != (cvd is not None):
        bad.append('is_constant() = %r but constant_value_dict() = %r' % (ic, cvd))
    if cvd is not None and (set(cvd) != set(w.defined_channels) or any(cvs[ch] is None or cvs[ch] != cvd[ch] for ch in cvd)):
        bad.append('constant_value_dict() = %r disagrees with constant_value per channel %r' % (cvd, cvs))
    g = _guard(lambda: (+w) is w)
    if g != ('ok', True):
        bad.append('+w is not w: %r' % (g,))
    d = float(w.duration)
    ts = np.array([0., d / 4, d / 2])
    for ch in sorted(w.defined_channels, key=str)[:2]:
        for name, t, o, want in (('longer', ts, np.zeros(5), 'EValue'), ('shorter', ts, np.zeros(1), 'EValue'),
                                 ('empty times, non-empty', np.array([]), np.zeros(2), 'EValue'),
                                 ('empty times, empty', np.array([]), np.zeros(0), 'same')):
            def call():
                r = w.get_sampled(ch, t, o)
                return 'same' if r is o else 'other array of length %d' % len(r)
            g = _guard(call)
            got = g[1] if g[0] in ('ok', 'err') else repr(g)
            if got != want:
                bad.append('get_sampled(%r, %d times, output array: %s [%d]) -> %s, expected %s'
                           % (ch, len(t), name, len(o), got, want))
    return bad


def _out_array_probe(case, grid, per, np):
    """family (h): the answer must not depend on whether a result array is supplied (a float64 array with garbage in it),
    whatever the representation of the times -> complaints"""
    bad = []
    for p in per:
        if 'ok' not in p['gs']:
            continue
        ch = CH[p['c']]
        def call():
            o = np.full(len(grid), _GARBAGE)
            ts = grid.copy()
            r = _build_case(case).get_sampled(ch, ts, o)
            return _vals(r) if r is o else 'another array'
        g = _guard(call)
        if g[0] != 'ok' or g[1] != p['gs']['ok']:
            bad.append('get_sampled(%r, %s times) answers %r without and %r with a supplied float64 result array'
                       % (ch, case['tdtype'], p['gs']['ok'], g[1] if g[0] in ('ok', 'err') else g))
    return bad


def _query(w, kind, ch):
    """a read-only question to a waveform object, as a comparable value"""
    if kind == 'cv':
        return _cvjson(w.constant_value(ch)) if ch in w.defined_channels else None
    if kind == 'cvd':
        d = w.constant_value_dict()
        return None if d is None else sorted((str(k), _cvjson(v)) for k, v in d.items())
    if kind == 'chans':
        return sorted(str(c) for c in w.defined_channels)
    if kind == 'dur':
        return vlib.frac_json(w.duration)
    if kind == 'hash':
        return hash(w)
    if kind == 'subset':
        return w.get_subset_for_channels({ch}) if ch in w.defined_channels else None
    if kind == 'reversed':
        return w.reversed()
    if kind == 'neg':
        return -w
    if kind == 'self-eq':
        return bool(w == w) and not bool(w != w)
    raise ValueError(kind)


def _run_history(case, np):
    """ops on ONE object:
         ['set', slot, times]             the array object of the slot gets this content IN PLACE (new object when the slot is
                                          empty or the length differs)
         ['new', slot, times]             the slot's array object is dropped (freed) and a new one with this content is made,
                                          if possible at the SAME ADDRESS
         ['call', c, slot, out(, oslot)]  get_sampled(channel, array of the slot [, output array]); with `oslot` the output
                                          array is the object of that output slot, REUSED with whatever the previous call left
                                          in it (garbage before the first use); without, a fresh NaN array
         ['tmp', c, times, out]           get_sampled with a temporary time array nobody keeps
         ['query', kind, c]               a read-only question (constant_value, hash, get_subset ...), compared with the
                                          answer of a fresh object
       flavours: case['arr'] in plain / view / rview (strided views), case['ro'] (time arrays are read-only)"""
    b = _guard(lambda: _build_case(case))
    if b[0] == 'err':
        return {'answers': [], 'fresh': []}
    if b[0] != 'ok':
        return {'crash': str(b)}
    w = b[1]
    flavour = case.get('arr', 'plain')
    ro = bool(case.get('ro'))
    arrays, content, outs = {}, {}, {}
    keep = []
    answers, fresh, queries = [], [], []
    mutated = False
    aliased = False
    realloc = {'tried': 0, 'same_address': 0}
    last_freed = [None]

    def vals_of(ts):
        return [float(F(t)) for t in ts]

    def one_call(ch, ts, expect, use_out, oslot):
        if oslot is not None:
            out = outs.get(oslot)
            if out is None or len(out) != len(ts):
                out = _mk_array([_GARBAGE + i for i in range(len(ts))], flavour, np)
                outs[oslot] = out
        elif use_out:
            out = np.full(len(ts), np.nan)      # unassigned entries stay NaN
        else:
            out = None
        res = w.get_sampled(ch, ts, out) if out is not None else w.get_sampled(ch, ts)
        if out is not None and res is not out:
            raise RuntimeError('get_sampled did not return the supplied output array')
        if not np.array_equal(ts, np.array(expect)) or ts.flags.writeable != (not ro):
            raise _Mutated()
        if out is None and np.shares_memory(res, ts):
            raise _Aliased()
        v = _vals(res)
        keep.append(res.copy() if oslot is not None else res)   # results stay alive: __sampled_cache is a WeakValueDictionary
        return v

    for op in case['ops']:
        kind = op[0]
        if kind == 'set':
            new = vals_of(op[2])
            if op[1] in arrays and len(arrays[op[1]]) == len(new):
                a = arrays[op[1]]
                a.flags.writeable = True
                a[:] = new                       # same OBJECT, new content
                a.flags.writeable = not ro
                del a                            # (no stray reference: 'new' must be able to free the object)
            else:
                arrays[op[1]] = _mk_array(new, flavour, np)
                arrays[op[1]].flags.writeable = not ro
            content[op[1]] = new
            continue
        if kind == 'new':
            new = vals_of(op[2])
            want = None
            if op[1] in arrays:
                want = id(arrays[op[1]])
                del arrays[op[1]]                # the only reference: the array object is freed here
            a, hit = _alloc_at(new, flavour, want, np)
            if want is not None:
                realloc['tried'] += 1
                realloc['same_address'] += bool(hit)
            a.flags.writeable = not ro
            arrays[op[1]] = a
            content[op[1]] = new
            del a
            continue
        if kind == 'query':
            ch = CH[op[2]]
            x = _guard(lambda: _query(w, op[1], ch))
            y = _guard(lambda: _query(_build_case(case), op[1], ch))
            if x[0] in ('crash', 'hang') and not (y[0] == 'crash' and x[1].split(':')[0] == y[1].split(':')[0]):
                queries.append(False)
            else:
                queries.append(bool(x[0] == y[0] and (x[0] != 'ok' or x[1] == y[1])))
            continue
        if kind == 'tmp':
            _, c, times, use_out = op
            expect = vals_of(times)
            def tmp_call():
                a, hit = _alloc_at(expect, flavour, last_freed[0], np)
                if last_freed[0] is not None:
                    realloc['tried'] += 1
                    realloc['same_address'] += bool(hit)
                a.flags.writeable = not ro
                last_freed[0] = id(a)
                return one_call(CH[c], a, expect, use_out, None)
            g = _guard(tmp_call)
        else:
            _, c, aid, use_out = op[:4]
            oslot = op[4] if len(op) > 4 else None
            ts = arrays[aid]
            expect = content[aid]
            g = _guard(lambda: one_call(CH[c], ts, expect, use_out, oslot))
            del ts
        if g[0] == 'crash' and g[1].startswith('_Mutated'):
            mutated = True
            g = ('err', 'EType')
        if g[0] == 'crash' and g[1].startswith('_Aliased'):
            aliased = True
            g = ('err', 'EType')
        if g[0] not in ('ok', 'err'):
            return {'crash': 'history call: %s' % (g,)}
        answers.append(_sres(g))
        g2 = _guard(lambda: _vals(_build_case(case).get_sampled(CH[c], np.array(expect))))
        fresh.append(_sres(g2) if g2[0] in ('ok', 'err') else {'crash': str(g2)})
    out = {'answers': answers, 'fresh': fresh}
    if queries:
        out['queries'] = queries
    if mutated:
        out['mutated'] = True
    if aliased:
        out['aliased'] = True
    if realloc['tried']:
        out['realloc'] = realloc
        _STATS['realloc_tried'] += realloc['tried']
        _STATS['realloc_same_address'] += realloc['same_address']
    return out


class _Mutated(Exception):
    pass


class _Aliased(Exception):
    pass


def _same_behaviour(case, a, b):
    import numpy as np
    if a.defined_channels != b.defined_channels or a.duration != b.duration:
        return False
    d = vlib.to_fraction(a.duration)
    grid = np.array([float(Q4 * i / 2) for i in range(int(d / Q4 * 2) + 1)], dtype=float)
    for ch in a.defined_channels:
        x = _guard(lambda: _vals(a.get_sampled(ch, grid.copy())))
        y = _guard(lambda: _vals(b.get_sampled(ch, grid.copy())))
        if x != y:
            return False
        if _guard(lambda: _cvjson(a.constant_value(ch))) != _guard(lambda: _cvjson(b.constant_value(ch))):
            return False
    return True


def _grid_ok(grid, dur):
    g = [F(t) for t in grid]
    return all(g[i] <= g[i + 1] for i in range(len(g) - 1)) and (not g or (g[0] >= 0 and g[-1] <= dur))


# ---------------------------------------------------------------------------------------------------------------------
# Gallina printers

def gch(c):
    return '%d%%N' % c


def gq(x):
    return gQ(F(x))


def g_entry(e):
    return '(mkE %s %s %s)' % (gq(e[0]), gq(e[1]), INTERP[e[2]])


def g_tval(tv):
    return '(TC %s)' % gq(tv[1]) if tv[0] == 'c' else '(TT %s %s)' % (gq(tv[1]), gq(tv[2]))


def _canon_kv(kvs):
    d = {}
    for c, v in kvs:
        d[c] = v         # dict semantics: last binding wins
    return sorted(d.items())


def g_trafo(T):
    k = T[0]
    if k == 'id':
        return 'TId'
    if k in ('scale', 'offset', 'parallel'):
        name = {'scale': 'TScale', 'offset': 'TOffset', 'parallel': 'TParallel'}[k]
        return '(%s %s)' % (name, glist(lambda kv: '(%s, %s)' % (gch(kv[0]), g_tval(kv[1])), _canon_kv(T[1])))
    if k == 'linear':
        ins, outs, m = T[1], T[2], T[3]
        oi = sorted(range(len(outs)), key=lambda i: outs[i])
        ii = sorted(range(len(ins)), key=lambda i: ins[i])
        mm = [[m[o][i] for i in ii] for o in oi]
        return '(TLinear %s %s %s)' % (glist(gch, [ins[i] for i in ii]), glist(gch, [outs[o] for o in oi]),
                                       glist(lambda row: glist(gq, row), mm))
    if k == 'chain':
        return '(TChain %s)' % glist(g_trafo, T[1])
    raise ValueError(k)


def g_recipe(r):
    k = r[0]
    if k == 'table':
        return '(RTable %s %s %s)' % (gbool(r[1]), gch(r[2]), glist(g_entry, r[3]))
    if k == 'const':
        return '(RConst %s %s %s)' % (gq(r[1]), gq(r[2]), gch(r[3]))
    if k == 'func':
        if len(r) > 4 and r[4] and all(F(x) == 0 for x in r[1][1:]):
            # FunctionWaveform.from_expression with an expression without variables: the recipe MEANS the constant waveform
            return '(RConst %s %s %s)' % (gq(r[2]), gq(r[1][0] if r[1] else 0), gch(r[3]))
        return '(RFunc %s %s %s)' % (glist(gq, r[1]), gq(r[2]), gch(r[3]))
    if k == 'seq':
        return '(RSeq %s %s)' % (gbool(r[1]), glist(g_recipe, r[2]))
    if k == 'multi':
        return '(RMulti %s %s)' % (gbool(r[1]), glist(g_recipe, r[2]))
    if k == 'rep':
        return '(RRep %s %s %s)' % (gbool(r[1]), g_recipe(r[2]), gZ(r[3]))
    if k == 'trans':
        return '(RTrans %s %s %s)' % (gbool(r[1]), g_recipe(r[2]), g_trafo(r[3]))
    if k == 'subset':
        return '(RSubset %s %s)' % (g_recipe(r[1]), glist(gch, r[2]))
    if k == 'getsubset':
        return '(RGetSubset %s %s)' % (g_recipe(r[1]), glist(gch, r[2]))
    if k == 'arith':
        return '(RArith %s %s %s %s)' % (gbool(r[1]), g_recipe(r[2]), {'+': 'OpAdd', '-': 'OpSub'}[r[3]], g_recipe(r[4]))
    if k == 'functor':
        return '(RFunctor %s %s %s)' % (gbool(r[1]), g_recipe(r[2]),
                                        glist(lambda kv: '(%s, %s)' % (gch(kv[0]), FUNCTOR[kv[1]]), _canon_kv(r[3])))
    if k == 'neg':
        return '(RNeg %s)' % g_recipe(r[1])
    if k == 'rev':
        return '(RRev %s)' % g_recipe(r[1])
    if k == 'fromrev':
        return '(RFromToReverse %s)' % g_recipe(r[1])
    if k == 'reversed':
        return '(RReversed %s)' % g_recipe(r[1])
    raise ValueError(k)


def g_oq(v):
    return 'None' if v is None else '(Some %s)' % gq(v)


def g_sres(s):
    if 'ok' in s:
        return '(SOK %s)' % glist(g_oq, s['ok'])
    return '(SErr %s)' % s['err']


def to_coq(case, obs):
    if 'crash' in obs or 'hang' in obs:
        return 'CCrash'
    k = case['kind']
    if k in ('sample', 'dec'):
        if 'err' in obs:
            o = '(OErr %s)' % obs['err']
        else:
            b = obs['built']
            per = glist(lambda p: '(mkCO %s %s %s %s)' % (gch(p['c']), g_oq(p['cv']), g_sres(p['gs']),
                                                          'None' if p['us'] is None else '(Some %s)' % g_sres(p['us'])),
                        b['per'])
            o = '(OBuilt %s %s %s)' % (glist(gch, b['chs']), gq(b['dur']), per)
        return '(%s %s %s %s)' % ('CDec' if k == 'dec' else 'CSample', g_recipe(case['r']), glist(gq, case['grid']), o)
    if k == 'eq':
        if not obs['built']:
            return '(CEq %s %s false false None)' % (g_recipe(case['r1']), g_recipe(case['r2']))
        return '(CEq %s %s true %s %s)' % (g_recipe(case['r1']), g_recipe(case['r2']), gbool(obs['eq']),
                                           gopt(gbool, obs['hash_eq']))
    if k == 'hist':
        if any('crash' in a for a in obs['answers']):
            return 'CCrash'
        calls = ['(mkCall %s %d%%N %s %s)' % (gch(c), ident, glist(gq, ts), gbool(bool(out)))
                 for c, ident, ts, out in hist_calls(case)]
        return '(CHist %s %s %s)' % (g_recipe(case['r']), '[' + '; '.join(calls) + ']',
                                     glist(g_sres, obs['answers']))
    raise ValueError(k)


def hist_calls(case):
    """the sampling calls of a history as the model sees them: (channel, IDENTITY of the time array object, its content at
    the time of the call, output array supplied?).  An in-place 'set' keeps the identity, 'new' / 'tmp' / a 'set' with
    another length make a new object"""
    ident, content, nxt, calls = {}, {}, 0, []
    for op in case['ops']:
        if op[0] == 'set':
            if op[1] not in ident or len(content[op[1]]) != len(op[2]):
                ident[op[1]] = nxt
                nxt += 1
            content[op[1]] = op[2]
        elif op[0] == 'new':
            ident[op[1]] = nxt
            nxt += 1
            content[op[1]] = op[2]
        elif op[0] == 'call':
            calls.append((op[1], ident[op[2]], content[op[2]], bool(op[3]) or len(op) > 4))
        elif op[0] == 'tmp':
            calls.append((op[1], nxt, op[2], bool(op[3])))
            nxt += 1
    return calls


# ---------------------------------------------------------------------------------------------------------------------
# generators

VOLT = [F(n, 2) for n in range(-6, 7)]


def split_dur(rng, dur, k):
    """k positive multiples of 1/4 that sum to dur (dur = n/4, n >= k)"""
    n = int(dur / Q4)
    cuts = sorted(rng.sample(range(1, n), k - 1)) if k > 1 else []
    parts = [b - a for a, b in zip([0] + cuts, cuts + [n])]
    return [p * Q4 for p in parts]


def gen_table_entries(rng, dur, flavour=None):
    """entries with power-of-two segment lengths (exact slopes); flavour steers towards constant detection"""
    n = int(dur / Q4)
    segs = []
    while n > 0:
        opts = [s for s in (1, 2, 4, 8) if s <= n]
        s = rng.choice(opts)
        segs.append(s)
        n -= s
    rng.shuffle(segs)
    flavour = flavour or rng.choice(['any', 'any', 'any', 'const', 'prefix', 'dup'])
    t = F(0)
    v = rng.choice(VOLT)
    ent = [[fs(0), fs(v), rng.choice('hlj')]]
    for i, s in enumerate(segs):
        t += s * Q4
        if flavour == 'const':
            nv = v if rng.random() < 0.85 else rng.choice(VOLT)
        elif flavour == 'prefix':
            nv = v if i < len(segs) - 1 else rng.choice(VOLT)
        else:
            nv = rng.choice(VOLT) if rng.random() < 0.7 else v
        interp = rng.choice('hlj')
        if flavour == 'prefix':
            interp = 'h' if i < len(segs) - 1 else rng.choice('lj')
        ent.append([fs(t), fs(nv), interp])
        if flavour == 'dup' and rng.random() < 0.5:
            # one to three zero-length segments (never linear: that is the malformed stream) or repeated values
            for _ in range(rng.choice([1, 1, 2, 3])):
                ent.append([fs(t), fs(rng.choice([nv, rng.choice(VOLT)])), rng.choice('hj')])
                nv = F(ent[-1][1])
        v = nv
    return ent


def gen_leaf(rng, c, dur):
    r = rng.random()
    if r < 0.3:
        return ['const', fs(dur), fs(rng.choice(VOLT)), c]
    if r < 0.42:
        deg = rng.choice([1, 1, 2])
        coef = [fs(rng.choice(VOLT)) for _ in range(deg)] + [fs(rng.choice([F(1, 2), F(-1, 2), F(1), F(1, 4), F(-1)]))]
        return ['func', coef, fs(dur), c]
    return ['table', rng.random() < 0.5, c, gen_table_entries(rng, dur)]


def gen_tval(rng, timedep_ok=True):
    if timedep_ok and rng.random() < 0.25:
        return ['t', fs(rng.choice(VOLT)), fs(rng.choice([F(1, 2), F(-1, 2), F(1), F(-1), F(2)]))]
    return ['c', fs(rng.choice([F(-2), F(-1), F(-1, 2), F(1, 2), F(1), F(2), F(3), F(0)]))]


def gen_wf(rng, depth, chans, dur, const_bias=0.0):
    """recipe of a (mostly) well-formed waveform with exactly the channels `chans` and duration `dur`"""
    chans = sorted(chans)
    nq = int(dur / Q4)
    if depth <= 0 or rng.random() < 0.12:
        if len(chans) == 1:
            if rng.random() < const_bias:
                return ['const', fs(dur), fs(rng.choice(VOLT[4:9])), chans[0]]
            return gen_leaf(rng, chans[0], dur)
        subs = [gen_wf(rng, 0, [c], dur, const_bias) for c in chans]
        rng.shuffle(subs)
        return ['multi', rng.random() < 0.5, subs]
    opt = rng.random() < 0.5
    kinds = ['seq', 'seq', 'rep', 'trans', 'trans', 'subset', 'arith', 'functor', 'rev', 'leafish']
    if len(chans) > 1:
        kinds += ['multi', 'multi']
    k = rng.choice(kinds)
    sub = lambda cs, d: gen_wf(rng, depth - 1, cs, d, const_bias)   # noqa
    if k == 'leafish':
        return gen_wf(rng, 0, chans, dur, const_bias)
    if k == 'seq' and nq >= 2:
        parts = split_dur(rng, dur, rng.randint(2, min(3, nq)))
        return ['seq', opt, [sub(chans, p) for p in parts]]
    if k == 'rep':
        ns = [n for n in (1, 2, 3, 4) if nq % n == 0]
        n = rng.choice(ns)
        return ['rep', opt, sub(chans, dur / n), n]
    if k == 'multi' and len(chans) > 1:
        cs = chans[:]
        rng.shuffle(cs)
        cut = rng.randint(1, len(cs) - 1)
        groups = [cs[:cut], cs[cut:]]
        if len(groups[1]) > 1 and rng.random() < 0.3:
            groups = [groups[0], groups[1][:1], groups[1][1:]]
        return ['multi', opt, [sub(g, dur) for g in groups]]
    if k == 'trans':
        return gen_trans(rng, depth, chans, dur, opt, const_bias)
    if k == 'subset':
        extra = [c for c in range(5) if c not in chans]
        add = rng.sample(extra, rng.randint(0, min(2, len(extra)))) if extra else []
        return [rng.choice(['subset', 'getsubset', 'getsubset']), sub(chans + add, dur), chans]
    if k == 'arith':
        if len(chans) == 1 or rng.random() < 0.4:
            L, R = chans, chans
        else:
            both = [c for c in chans if rng.random() < 0.4]
            rest = [c for c in chans if c not in both]
            L = both + [c for c in rest if rng.random() < 0.5]
            R = both + [c for c in rest if c not in L]
            if not L:
                L = chans[:1]
            if not R:
                R = chans[-1:]
        return ['arith', opt, sub(L, dur), rng.choice('+-'), sub(R, dur)]
    if k == 'functor':
        if rng.random() < 0.3:
            return ['neg', sub(chans, dur)]
        return ['functor', opt, sub(chans, dur), [[c, rng.choice(['neg', 'pos', 'abs', 'neg'])] for c in chans]]
    if k == 'rev':
        return [rng.choice(['rev', 'fromrev', 'reversed']), sub(chans, dur)]
    return gen_wf(rng, depth - 1, chans, dur, const_bias)


def gen_trans(rng, depth, chans, dur, opt, const_bias):
    sub = lambda cs: gen_wf(rng, depth - 1, sorted(cs), dur, const_bias)   # noqa
    kind = rng.choice(['id', 'scale', 'offset', 'parallel', 'linear', 'chain'])
    strs = [c for c in chans if c != 0]
    if kind == 'id':
        return ['trans', opt, sub(chans), ['id']]
    if kind in ('scale', 'offset'):
        on = [c for c in chans if rng.random() < 0.7] or chans[:1]
        extra = [c for c in range(5) if c not in chans]
        if extra and rng.random() < 0.2:
            on = on + [rng.choice(extra)]        # an entry for a channel that is not there: forwarded untouched
        return ['trans', opt, sub(chans), [kind, [[c, gen_tval(rng)] for c in on]]]
    if kind == 'parallel':
        new = [c for c in chans if rng.random() < 0.4]
        inner = [c for c in chans if c not in new]
        if not inner:
            inner, new = chans[:1], chans[1:]
        if rng.random() < 0.4:
            new = new + [rng.choice(inner)]      # overwrites an existing channel
        if not new:
            new = [rng.choice(chans)]
        return ['trans', opt, sub(inner), ['parallel', [[c, gen_tval(rng)] for c in new]]]
    if kind == 'linear' and strs:
        outs = rng.sample(strs, rng.randint(1, min(2, len(strs))))
        fwd = [c for c in chans if c not in outs]
        pool = [c for c in range(1, 5) if c not in fwd]
        ins = rng.sample(pool, rng.randint(1, min(2, len(pool))))
        m = [[fs(rng.choice([F(1), F(-1), F(1, 2), F(0), F(2)])) for _ in ins] for _ in outs]
        shadow = [o for o in outs if o not in ins and rng.random() < 0.2]   # inner channel named like an output: overridden
        return ['trans', opt, sub(sorted(set(fwd + ins + shadow))), ['linear', ins, outs, m]]
    if kind == 'chain' and strs and rng.random() < 0.45:
        # a parallel-channel transformation feeding a linear one (or the other way round)
        outs = rng.sample(strs, 1)
        fwd = [c for c in chans if c not in outs]
        pool = [c for c in range(1, 5) if c not in fwd]
        if len(pool) >= 2:
            ins = rng.sample(pool, 2)
            m = [[fs(rng.choice([F(1), F(-1), F(1, 2), F(2)])) for _ in ins]]
            lin = ['linear', ins, outs, m]
            par = ['parallel', [[ins[0], gen_tval(rng)]]]
            if rng.random() < 0.7:
                inner_ch = sorted(set(fwd) | {ins[1]} | ({ins[0]} if rng.random() < 0.3 else set()))
                return ['trans', opt, sub(inner_ch), ['chain', [par, lin]]]
            new = [c for c in range(5) if c not in chans][:1]
            if new:
                return ['trans', opt, sub(sorted(set(fwd) | set(ins))),
                        ['chain', [lin, ['parallel', [[rng.choice(chans), gen_tval(rng)]]]]]]
    if kind == 'chain':
        a = [rng.choice(['scale', 'offset']), [[c, gen_tval(rng)] for c in chans if rng.random() < 0.8] or [[chans[0], ['c', '2']]]]
        b = [rng.choice(['scale', 'offset']), [[c, gen_tval(rng)] for c in chans if rng.random() < 0.8] or [[chans[0], ['c', '1/2']]]]
        parts = [a, b] + ([['id']] if rng.random() < 0.3 else [])
        return ['trans', opt, sub(chans), ['chain', parts]]
    return ['trans', opt, sub(chans), ['scale', [[chans[0], gen_tval(rng)]]]]


def grids_for(rng, dur):
    n = int(dur / Q4)
    on_all = [i * Q4 for i in range(n)]
    on = [t for t in on_all if rng.random() < 0.8 or t == 0]
    off = sorted({i * Q4 + rng.choice([F(1, 16), F(1, 8), F(3, 16)]) for i in range(n) if rng.random() < 0.8} |
                 {F(1, 16)})
    if rng.random() < 0.3 and len(on) > 1:
        j = rng.randrange(len(on))
        on = on[:j] + [on[j]] + on[j:]          # repeated time
    return {'off': off, 'on': on, 'end': on[-3:] + [dur] if rng.random() < 0.5 else [F(0), dur]}


def gen_subset_targets(rng, n):
    """get_subset_for_channels across the parts of multi-channel waveforms (requested channels cut through parts that
    define more channels than requested), also below sequence / repetition / functor / reversal / arithmetic"""
    out = []
    for _ in range(n):
        dur = rng.choice([2, 4, 4, 8]) * Q4
        chans = list(range(5))
        rng.shuffle(chans)
        k = rng.choice([3, 4, 4, 5])
        chans = chans[:k]
        cut = rng.randint(1, k - 1)
        groups = [chans[:cut], chans[cut:]]
        if len(groups[1]) > 2:
            groups = [groups[0], groups[1][:1], groups[1][1:]]

        def multi(d):
            return ['multi', rng.random() < 0.5, [gen_wf(rng, rng.choice([0, 1, 2]), g, d, rng.choice([0.0, 0.6])) for g in groups]]
        shape = rng.choice(['multi', 'multi', 'seq', 'rep', 'functor', 'rev', 'arith', 'nested'])
        if shape == 'multi':
            inner = multi(dur)
        elif shape == 'seq':
            parts = split_dur(rng, dur, 2)
            inner = ['seq', rng.random() < 0.5, [multi(p) for p in parts]]
        elif shape == 'rep':
            inner = ['rep', rng.random() < 0.5, multi(dur / 2), 2]
        elif shape == 'functor':
            inner = ['functor', rng.random() < 0.5, multi(dur), [[c, rng.choice(['neg', 'abs', 'pos'])] for c in chans]]
        elif shape == 'rev':
            inner = [rng.choice(['rev', 'reversed', 'fromrev']), multi(dur)]
        elif shape == 'arith':
            inner = ['arith', rng.random() < 0.5, multi(dur), rng.choice('+-'), multi(dur)]
        else:
            inner = ['multi', True, [multi(dur), ['const', fs(dur), '1', [c for c in range(5) if c not in chans][0]]]] \
                if k < 5 else multi(dur)
        want = sorted({rng.choice(g) for g in groups} | ({rng.choice(chans)} if rng.random() < 0.5 else set()))
        r = ['getsubset', inner, want]
        if rng.random() < 0.3:
            r = ['getsubset', r, want[:max(1, len(want) - 1)]]
            want = want[:max(1, len(want) - 1)]
        out.append((r, dur, want))
    return out


def gen_fold_targets(rng, n):
    """sequences whose parts all report the SAME constants (from_sequence folds them) with different part durations,
    a deviating part now and then, nested sequences (flattening), and the same below repetition / arithmetic"""
    out = []
    for _ in range(n):
        chans = sorted(rng.sample(range(5), rng.choice([1, 1, 2])))
        vals = {c: rng.choice(VOLT) for c in chans}
        dur = rng.choice([3, 4, 5, 6, 8]) * Q4

        def cpart(d, deviate=False):
            ps = []
            for c in chans:
                v = vals[c] + (1 if deviate and c == chans[0] else 0)
                k = rng.choice(['const', 'const', 'table', 'rep'])
                nq = int(d / Q4)
                if k == 'table':
                    ps.append(['table', True, c, [['0', fs(v), 'h'], [fs(d), fs(v), rng.choice('hlj')]]])
                elif k == 'rep' and nq % 2 == 0:
                    ps.append(['rep', rng.random() < 0.5, ['const', fs(d / 2), fs(v), c], 2])
                else:
                    ps.append(['const', fs(d), fs(v), c])
            return ps[0] if len(ps) == 1 else ['multi', rng.random() < 0.5, ps]
        parts = split_dur(rng, dur, rng.choice([2, 3]))
        dev = rng.random() < 0.25
        items = [cpart(p, dev and i == len(parts) - 1) for i, p in enumerate(parts)]
        if rng.random() < 0.3 and len(items) == 3:
            items = [items[0], ['seq', rng.random() < 0.5, items[1:]]]          # nested: flattened by from_sequence
        r = ['seq', True, items]
        wrap = rng.choice(['none', 'none', 'rep', 'arith', 'functor', 'rev', 'trans'])
        if wrap == 'rep':
            r, dur = ['rep', True, r, 2], dur * 2
        elif wrap == 'arith':
            r = ['arith', True, r, rng.choice('+-'), cpart(dur)]
        elif wrap == 'functor':
            r = ['functor', True, r, [[c, rng.choice(['neg', 'abs'])] for c in chans]]
        elif wrap == 'rev':
            r = ['fromrev', r]
        elif wrap == 'trans':
            r = ['trans', True, r, ['offset', [[chans[0], ['c', '1/2']]]]]
        out.append((r, dur, chans))
    return out


# ---------------------------------------------------------------------------------------------------------------------
# round 3: input classes the random generator reaches only by luck (each family is deterministic in its defining feature)

OFFS = [F(1, 16), F(1, 8), F(3, 16)]


def nonconst_leaf(rng, c, dur):
    """a leaf of duration dur that is constant nowhere (every sample identifies its time); table segments have
    power-of-two lengths so that the slopes are exact"""
    v0 = rng.choice(VOLT)
    nq = int(dur / Q4)
    if rng.random() < 0.4:
        return ['func', [fs(v0), fs(rng.choice([F(1), F(-1), F(2), F(-2), F(1, 2)]))], fs(dur), c]
    segs = []
    while nq > 0:
        sgl = rng.choice([x for x in (1, 2, 4, 8) if x <= nq and (x == nq or rng.random() < 0.5 or x == 1)])
        segs.append(sgl)
        nq -= sgl
    t, v, ent = F(0), v0, [['0', fs(v0), 'h']]
    for sgl in segs:
        t += sgl * Q4
        v = rng.choice([x for x in VOLT if x != v])
        ent.append([fs(t), fs(v), 'l'])
    return ['table', rng.random() < 0.5, c, ent]


def gen_piece_targets(rng, n):
    """repetitions (count 3..5) / sequences (3..4 parts) of non-constant pieces, bare or below every other class.
    -> (recipe, duration, channels, pieces): pieces = the (start, end) intervals of the repetitions / parts in the time
    frame of the whole waveform (mirrored below a reversal)"""
    out = []
    for _ in range(n):
        c = rng.randrange(1, 5)
        opt = rng.random() < 0.5
        def piece(d):
            k = rng.random()
            if k < 0.6:
                return nonconst_leaf(rng, c, d)
            if k < 0.8:
                return ['trans', rng.random() < 0.5, nonconst_leaf(rng, c, d), [rng.choice(['scale', 'offset']), [[c, gen_tval(rng)]]]]
            if k < 0.9 and d >= 2 * Q4:
                return ['seq', rng.random() < 0.5, [nonconst_leaf(rng, c, d / 2), nonconst_leaf(rng, c, d / 2)]]
            return ['functor', rng.random() < 0.5, nonconst_leaf(rng, c, d), [[c, rng.choice(['neg', 'abs'])]]]
        if rng.random() < 0.55:
            d = rng.choice([1, 1, 2]) * Q4
            cnt = rng.choice([3, 3, 4, 5])
            core, durs = ['rep', opt, piece(d), cnt], [d] * cnt
        else:
            durs = [rng.choice([1, 1, 2, 3]) * Q4 for _ in range(rng.choice([3, 3, 4]))]
            core = ['seq', opt, [piece(d) for d in durs]]
        t, pieces = F(0), []
        for d in durs:
            pieces.append((t, t + d))
            t += d
        dur, chans, r = t, [c], core
        wrap = rng.choice(['none', 'none', 'multi', 'trans', 'functor', 'arith', 'subset', 'lead', 'rep2', 'rev', 'rev'])
        other = [x for x in range(1, 5) if x != c][0]
        if wrap == 'multi':
            r, chans = ['multi', rng.random() < 0.5, [r, nonconst_leaf(rng, other, dur)]], sorted([c, other])
        elif wrap == 'trans':
            r = ['trans', rng.random() < 0.5, r, [rng.choice(['scale', 'offset']), [[c, gen_tval(rng)]]]]
        elif wrap == 'functor':
            r = ['neg', r] if rng.random() < 0.4 else ['functor', rng.random() < 0.5, r, [[c, rng.choice(['neg', 'abs'])]]]
        elif wrap == 'arith':
            r = ['arith', rng.random() < 0.5, r, rng.choice('+-'), nonconst_leaf(rng, c, dur)]
            if rng.random() < 0.5:
                r = ['arith', r[1], r[4], r[3], r[2]]
        elif wrap == 'subset':
            r = [rng.choice(['subset', 'getsubset']), ['multi', rng.random() < 0.5, [r, nonconst_leaf(rng, other, dur)]], [c]]
        elif wrap == 'lead':
            d0 = rng.choice([1, 2]) * Q4
            r = ['seq', rng.random() < 0.5, [nonconst_leaf(rng, c, d0), r]]
            pieces = [(F(0), d0)] + [(a + d0, b + d0) for a, b in pieces]
            dur += d0
        elif wrap == 'rep2':
            r = ['rep', rng.random() < 0.5, r, 2]
            pieces = pieces + [(a + dur, b + dur) for a, b in pieces]
            dur *= 2
        elif wrap == 'rev':
            r = [rng.choice(['rev', 'fromrev', 'reversed']), r]
            pieces = sorted((dur - b, dur - a) for a, b in pieces)
        out.append((r, dur, chans, pieces))
    return out


def sparse_grids(rng, pieces):
    """grids that leave whole pieces WITHOUT a sample (never on a junction, except 'late-on')"""
    def pt(k):
        a, b = pieces[k]
        return a + rng.choice([o for o in OFFS if o < b - a])
    last = len(pieces) - 1
    mid = rng.randrange(1, last) if last >= 2 else last
    gs = {
        'late1': [pt(last)],
        'one': [pt(mid)],
        'ends': [pt(0), pt(last)],
        'skip': [pt(k) for k in range(1, last + 1, 2)],
        'tail': sorted({pieces[last][0] + F(1, 16), pieces[last][0] + F(3, 16)}),
        'late-on': [pieces[last][0]],
    }
    return gs


def gen_share_targets(rng, n):
    """recipes in which equal sub-recipes occur twice: built with case['share'] they are ONE object (the same waveform
    nested twice in a sequence, on both sides of an operator, inside and beside a repetition)"""
    out = []
    for _ in range(n):
        c = rng.randrange(1, 5)
        d = rng.choice([1, 2, 2]) * Q4
        def piece():
            x = nonconst_leaf(rng, c, d)
            if rng.random() < 0.6:
                x = ['trans', False, x, [rng.choice(['scale', 'offset']), [[c, gen_tval(rng)]]]]
            return x
        x, y = piece(), piece()
        shape = rng.choice(['seq-xx', 'seq-xyx', 'rep-seq', 'arith-xx', 'arith-cross', 'rep-beside', 'both-sides', 'rev-beside'])
        opt = rng.random() < 0.4
        if shape == 'seq-xx':
            r, dur = ['seq', opt, [x, x]], 2 * d
        elif shape == 'seq-xyx':
            r, dur = ['seq', opt, [x, y, x]], 3 * d
        elif shape == 'rep-seq':
            r, dur = ['rep', opt, ['seq', False, [x, x]], 2], 4 * d
        elif shape == 'arith-xx':
            r, dur = ['arith', opt, x, rng.choice('+-'), x], d
        elif shape == 'arith-cross':
            r, dur = ['arith', opt, ['seq', False, [x, y]], rng.choice('+-'), ['seq', False, [y, x]]], 2 * d
        elif shape == 'rep-beside':
            r, dur = ['seq', opt, [['rep', False, x, 2], x, x]], 4 * d
        elif shape == 'both-sides':
            r, dur = ['arith', opt, x, rng.choice('+-'), ['functor', False, x, [[c, rng.choice(['neg', 'abs'])]]]], d
        else:
            r, dur = ['seq', opt, [x, ['rev', x], x]], 3 * d
        out.append((r, dur, [c]))
    return out


def off_grid(rng, dur, m):
    cand = [i * F(1, 16) for i in range(1, int(dur / F(1, 16))) if i % 4]
    return sorted(rng.sample(cand, min(m, len(cand))))


def gen_alias_history(rng, dur, chans, style=None):
    """histories about the IDENTITY of the arrays handed over (all times off the junctions, so nothing is masked by a known
    finding): temporaries of equal length with different content (a freed array's address is taken by the next one),
    an array slot re-allocated at the same address, an output array object reused by later calls with what the earlier
    ones left in it, read-only queries in between"""
    cs = sorted(chans)
    m = rng.randint(2, 4)
    g = lambda: [fs(t) for t in off_grid(rng, dur, m)]   # noqa
    style = style or rng.choice(['tmp', 'tmp', 'realloc', 'realloc', 'outreuse', 'outreuse', 'query', 'mixed'])
    ops = []
    if style == 'tmp':
        for _ in range(rng.randint(2, 4)):
            ops.append(['tmp', rng.choice(cs), g(), rng.random() < 0.3])
    elif style == 'realloc':
        for _ in range(rng.randint(2, 4)):
            ops += [['new', 0, g()], ['call', rng.choice(cs), 0, rng.random() < 0.3]]
    elif style == 'outreuse':
        ops += [['set', 0, g()], ['set', 1, g()]]
        for _ in range(rng.randint(2, 4)):
            ops.append(['call', rng.choice(cs), rng.choice([0, 1]), True, 0])
        ops.append(['call', rng.choice(cs), 0, False])
    elif style == 'query':
        ops += [['set', 0, g()], ['query', rng.choice(QUERIES), rng.choice(cs)], ['call', rng.choice(cs), 0, False]]
        for _ in range(rng.randint(2, 4)):
            ops.append(['query', rng.choice(QUERIES), rng.choice(cs)])
            ops.append(['call', rng.choice(cs), 0, rng.random() < 0.3])
    else:
        ops += [['set', 0, g()], ['call', rng.choice(cs), 0, True, 0], ['tmp', rng.choice(cs), g(), False],
                ['new', 0, g()], ['query', rng.choice(QUERIES), rng.choice(cs)], ['call', rng.choice(cs), 0, True, 0],
                ['tmp', rng.choice(cs), g(), True], ['tmp', rng.choice(cs), g(), False], ['call', rng.choice(cs), 0, False]]
    return {'kind': 'hist', 'ops': ops, 'dur': fs(dur), 'arr': rng.choice(['plain', 'plain', 'view', 'rview']),
            'ro': rng.random() < 0.6, 'style': style}


QUERIES = ['cv', 'cvd', 'chans', 'dur', 'hash', 'subset', 'reversed', 'neg', 'self-eq']


def sparse_history(rng, r, dur, chans, pieces):
    """one output array object through a grid that visits the first, a middle and the last piece and through sparse grids
    of the same length (all times in the last piece; all in the second piece): what a call leaves unwritten shows as the
    STALE value the call before left there"""
    c = rng.choice(sorted(chans))
    m = len(pieces)
    L = 3 if m >= 3 else 2
    inside = lambda k: [pieces[k][0] + o for o in OFFS]      # noqa  (every piece is at least 1/4 long)
    spread = [rng.choice(inside(0))] + ([rng.choice(inside(m // 2))] if L == 3 else []) + [rng.choice(inside(m - 1))]
    late, second = inside(m - 1)[:L], inside(1)[:L]
    f = lambda ts: [fs(t) for t in ts]   # noqa
    ops = [['set', 0, f(spread)], ['call', c, 0, True, 0], ['set', 1, f(late)], ['call', c, 1, True, 0],
           ['set', 2, f(second)], ['call', c, 2, True, 0], ['call', c, 0, True, 0], ['call', c, 1, False],
           ['tmp', c, f(late[:1]), False], ['tmp', c, f(second[:1]), True]]
    return {'kind': 'hist', 'r': r, 'ops': ops, 'dur': fs(dur), 'arr': rng.choice(['plain', 'view']), 'ro': True,
            'style': 'sparse-out'}


def gen_name_targets(rng):
    """channel names that coincide: a linear transformation that swaps / rotates channels or maps a channel to a multiple
    of itself, renaming there and back, a parallel constant named like an inner channel, and a channel called 't' (the
    name of the time variable in time dependent transformation entries)"""
    out = []
    d = rng.choice([2, 4]) * Q4
    X, Y, Z, T = 1, 2, 3, 5
    leaf = lambda c: nonconst_leaf(rng, c, d)   # noqa
    m3 = lambda: ['multi', rng.random() < 0.5, [leaf(X), leaf(Y), leaf(Z)]]   # noqa
    for opt in (False, True):
        out += [
            (['trans', opt, m3(), ['linear', [X, Y], [X, Y], [['0', '1'], ['1', '0']]]], d, [X, Y, Z]),              # swap
            (['trans', opt, m3(), ['linear', [X, Y, Z], [X, Y, Z], [['0', '1', '0'], ['0', '0', '1'], ['1', '0', '0']]]], d, [X, Y, Z]),
            (['trans', opt, m3(), ['linear', [X], [X], [['2']]]], d, [X, Y, Z]),                                     # x -> 2 x
            (['trans', opt, m3(), ['linear', [X, Y], [Y], [['1', '1']]]], d, [Y, Z]),                                # y -> x + y
            (['trans', opt, m3(), ['chain', [['linear', [X], [4], [['2']]], ['linear', [4], [X], [['1/2']]]]]], d, [X, Y, Z]),
            (['trans', opt, m3(), ['chain', [['linear', [X, Y], [X, Y], [['0', '1'], ['1', '0']]],
                                            ['linear', [X, Y], [X, Y], [['0', '1'], ['1', '0']]]]]], d, [X, Y, Z]),
            (['trans', opt, m3(), ['parallel', [[X, ['t', '1', '2']]]]], d, [X, Y, Z]),
            (['trans', opt, m3(), ['chain', [['scale', [[X, ['c', '2']]]], ['parallel', [[X, ['c', '3']]]], ['offset', [[X, ['t', '0', '1']]]]]]], d, [X, Y, Z]),
            # the channel called 't'
            (['trans', opt, ['multi', False, [leaf(T), leaf(X)]], ['scale', [[T, ['t', '1', '2']], [X, ['t', '0', '1']]]]], d, [X, T]),
            (['trans', opt, ['multi', False, [leaf(T), leaf(X)]], ['offset', [[T, ['t', '1/2', '-1']]]]], d, [X, T]),
            (['trans', opt, leaf(X), ['parallel', [[T, ['t', '1', '1']]]]], d, [X, T]),
            (['trans', opt, ['multi', False, [leaf(T), leaf(X)]], ['linear', [T, X], [T], [['1', '2']]]], d, [T]),
            (['functor', opt, ['multi', False, [leaf(T), leaf(X)]], [[T, 'neg'], [X, 'abs']]], d, [X, T]),
            (['arith', opt, leaf(T), '-', ['multi', False, [leaf(T), leaf(X)]]], d, [X, T]),
            (['getsubset', ['rep', opt, ['multi', False, [leaf(T), leaf(X)]], 2], [T]], 2 * d, [T]),
        ]
    return out


# ---------------------------------------------------------------------------------------------------------------------
# round 4: get_subset_for_channels with a subset lying entirely inside the channels only ONE operand / part contributes
# (class of seed C08-6: every earlier getsubset target asked for a channel of EVERY part)

def _tout(T, cs):
    """output channels of a transformation recipe applied to the channel set cs (well-formed recipes only)"""
    k = T[0]
    if k == 'parallel':
        return set(cs) | {c for c, _ in T[1]}
    if k == 'linear':
        return (set(cs) - set(T[1])) | set(T[2])
    if k == 'chain':
        for x in T[1]:
            cs = _tout(x, cs)
        return set(cs)
    return set(cs)


def _rout(r):
    """channels of the waveform a (well-formed) recipe describes"""
    k = r[0]
    if k == 'table':
        return {r[2]}
    if k in ('const', 'func'):
        return {r[3]}
    if k == 'seq':
        return _rout(r[2][0])
    if k == 'multi':
        return set().union(*[_rout(x) for x in r[2]])
    if k in ('rep', 'functor'):
        return _rout(r[2])
    if k == 'trans':
        return _tout(r[3], _rout(r[2]))
    if k == 'arith':
        return _rout(r[2]) | _rout(r[4])
    if k in ('subset', 'getsubset'):
        return set(r[2])
    return _rout(r[1])

def _exclusive_wants(sides):
    """all request sets that lie inside ONE side's exclusive channels: single channels, the whole side, a proper part"""
    out = []
    for s in sides:
        s = sorted(s)
        for c in s:
            out.append([c])
        if len(s) >= 2:
            out.append(s)
        if len(s) >= 3:
            out.append(s[:2])
    seen, res = set(), []
    for w in out:
        if tuple(w) not in seen:
            seen.add(tuple(w))
            res.append(w)
    return res


def _wrap_exclusive(rng, mk, wrap):
    """`mk(d)` builds the binary / multi-part waveform of duration d; -> (recipe below which the subset is taken, duration)"""
    d = rng.choice([2, 4]) * Q4
    opt = rng.random() < 0.5
    if wrap == 'none':
        return mk(d), d
    if wrap == 'seq':
        return ['seq', opt, [mk(d), mk(d / 2)]], d + d / 2
    if wrap == 'rep':
        return ['rep', opt, mk(d), 2], 2 * d
    if wrap == 'seqrep':
        return ['seq', opt, [['rep', opt, mk(d / 2), 2], mk(d)]], 2 * d
    if wrap == 'functor':
        x = mk(d)
        return ['functor', opt, x, [[c, rng.choice(['neg', 'abs', 'pos'])] for c in sorted(_rout(x))]], d
    if wrap == 'neg':
        return ['neg', mk(d)], d
    if wrap == 'rev':
        return [rng.choice(REV), mk(d)], d
    if wrap == 'subset':
        x = mk(d)
        return [rng.choice(['subset', 'getsubset']), ['multi', opt, [x, ['const', fs(d), '1', 0]]], sorted(_rout(x))], d
    raise ValueError(wrap)


EXCL_WRAPS = ['none', 'none', 'seq', 'rep', 'seqrep', 'functor', 'neg', 'rev', 'subset']


def gen_exclusive_targets(rng, n):
    """(recipe, duration, requested channels, tag): `get_subset_for_channels` of arithmetic '+' / '-', multi-channel and
    transforming waveforms (parallel-added channels, linear outputs), bare and below sequence / repetition / functor /
    reversal / subset whose subset is taken, where the request lies inside the EXCLUSIVE channels of one operand / part;
    operands are constant about half of the time so that `constant_value` of the subset is a number"""
    out = []
    for i in range(n):
        cb = rng.choice([0.0, 0.0, 1.0, 0.5])
        chs = rng.sample([1, 2, 3, 4], rng.choice([2, 3, 3, 4]))
        shape = ['arith-', 'arith-', 'arith+', 'multi', 'parallel', 'linear', 'arith-nest'][i % 7]

        def side(cs, d, depth=None):
            cs = sorted(cs)
            depth = rng.choice([0, 0, 1]) if depth is None else depth
            return gen_wf(rng, depth, cs, d, cb)
        if shape.startswith('arith'):
            k = len(chs)
            nl = rng.randint(1, k - 1)
            lonly, rest = chs[:nl], chs[nl:]
            nb = rng.randint(0, len(rest) - 1)
            both, ronly = rest[:nb], rest[nb:]
            op = '+' if shape == 'arith+' else '-'
            opt = rng.random() < 0.5
            if shape == 'arith-nest':
                # x - (y - z): z-only channels carry a double negation; (x - y) - z: y-only channels a single one
                third = [c for c in (1, 2, 3, 4) if c not in chs][:1] or both[:1] or lonly[:1]
                if rng.random() < 0.5:
                    mk = lambda d: ['arith', opt, side(lonly + both, d), '-',   # noqa
                                    ['arith', rng.random() < 0.5, side(both + ronly, d, 0), rng.choice('-+'), side(sorted(set(third + ronly[:1])), d, 0)]]
                    sides = [sorted(set(ronly + [c for c in third if c not in lonly + both])), lonly]
                else:
                    mk = lambda d: ['arith', opt, ['arith', rng.random() < 0.5, side(lonly + both, d, 0), '-', side(both + ronly, d, 0)],   # noqa
                                    rng.choice('-+'), side(sorted(set(third + lonly[:1])), d, 0)]
                    sides = [ronly, [c for c in third if c not in lonly + both + ronly]]
            else:
                mk = lambda d: ['arith', opt, side(lonly + both, d), op, side(both + ronly, d)]   # noqa
                sides = [ronly, lonly]
        elif shape == 'multi':
            cut = rng.randint(1, len(chs) - 1)
            groups = [chs[:cut], chs[cut:]]
            if len(groups[1]) > 1 and rng.random() < 0.4:
                groups = [groups[0], groups[1][:1], groups[1][1:]]
            opt = rng.random() < 0.5
            mk = lambda d: ['multi', opt, [side(g, d, rng.choice([0, 1, 2])) for g in groups]]   # noqa
            sides = groups
        elif shape == 'parallel':
            cut = rng.randint(1, len(chs) - 1)
            inner, new = chs[:cut], chs[cut:]
            over = [rng.choice(inner)] if rng.random() < 0.3 else []     # a parallel constant that overwrites an inner channel
            opt = rng.random() < 0.5
            par = ['parallel', [[c, gen_tval(rng)] for c in sorted(new + over)]]
            T = par if rng.random() < 0.6 else ['chain', [par, [rng.choice(['scale', 'offset']), [[c, gen_tval(rng)] for c in chs]]]]
            mk = lambda d: ['trans', opt, side(inner, d), T]   # noqa
            sides = [new, [c for c in inner if c not in over], over]
        else:
            outs = chs[:1]
            fwd = chs[1:]
            pool = [c for c in (1, 2, 3, 4) if c not in fwd]
            ins = rng.sample(pool, min(len(pool), rng.choice([1, 2])))
            opt = rng.random() < 0.5
            T = ['linear', ins, outs, [[fs(rng.choice([F(1), F(-1), F(2), F(1, 2)])) for _ in ins]]]
            mk = lambda d: ['trans', opt, side(sorted(set(fwd + ins)), d), T]   # noqa
            sides = [outs, fwd]
        wants = _exclusive_wants([s for s in sides if s])
        if not wants:
            continue
        wrap = EXCL_WRAPS[(i // 7) % len(EXCL_WRAPS)]
        inner, dur = _wrap_exclusive(rng, mk, wrap)
        allc = _rout(inner)
        wants = [w for w in wants if set(w) < allc] or wants[:1]
        picks = wants if len(wants) <= 2 else [wants[0]] + rng.sample(wants[1:], 1)
        for want in picks:
            r = ['getsubset', inner, want]
            if rng.random() < 0.15:
                r = ['subset', inner, want]
            elif len(want) > 1 and rng.random() < 0.3:
                r = ['getsubset', r, want[:1]]
                want = want[:1]
            out.append((r, dur, want, 'excl:%s/%s' % (shape, wrap)))
    return out


def exclusive_small(tier):
    """small scope, exhaustive: channels {1,2,3} distributed over lhs-only / both / rhs-only (both exclusive sides non
    empty), '+' and '-', plain and optimising constructor, EVERY non-empty proper request set, bare and below a sequence
    / repetition / reversal / negation; ramps (thorough: and constants)"""
    import itertools
    res = []
    d = F(1, 2)
    ramp = lambda c, k, dd: ['table', False, c, [['0', fs(c + k), 'h'], [fs(dd), fs(c + k + 2), 'l']]]   # noqa
    const = lambda c, k, dd: ['const', fs(dd), fs(c + k + F(1, 2)), c]   # noqa
    assigns = [a for a in itertools.product('LBR', repeat=3) if 'L' in a and 'R' in a]
    if tier == 'quick':
        assigns = [('L', 'B', 'R'), ('L', 'R', 'R')]
    leafs = [ramp, const] if tier == 'thorough' else [ramp]
    wraps = ['none', 'seq', 'rep', 'rev', 'neg'] if tier == 'thorough' else ['none', 'seq']
    for a in assigns:
        L = [c for c, s in zip((1, 2, 3), a) if s in 'LB']
        R = [c for c, s in zip((1, 2, 3), a) if s in 'BR']
        for leaf in leafs:
            def mk(dd, k):
                ms = lambda cs, kk: ['multi', False, [leaf(c, kk, dd) for c in cs]] if len(cs) > 1 else leaf(cs[0], kk, dd)   # noqa
                return lambda op, opt: ['arith', opt, ms(L, k), op, ms(R, k + 4)]
            for op in '+-':
                for opt in (False, True):
                    for wrap in wraps:
                        x = mk(d, 0)(op, opt)
                        if wrap == 'seq':
                            x, dur = ['seq', opt, [x, mk(d, 1)(op, opt)]], 2 * d
                        elif wrap == 'rep':
                            x, dur = ['rep', opt, x, 2], 2 * d
                        elif wrap == 'rev':
                            x, dur = ['fromrev' if opt else 'rev', x], d
                        elif wrap == 'neg':
                            x, dur = ['neg', x], d
                        else:
                            dur = d
                        for m in (1, 2):
                            for want in itertools.combinations((1, 2, 3), m):
                                res.append((['getsubset', x, list(want)], dur, list(want), 'excl-small:%s%s' % (op, wrap)))
    return res


def gen_ctor_targets(rng, n):
    """constructor paths the coverage audit (round 4) found unreached: FunctionWaveform with a constant expression (plain:
    sampled by np.full_like / written into a supplied array; `from_expression`: becomes a ConstantWaveform the optimising
    constructors fold), from_sequence / from_parallel / SequenceWaveform / MultiChannelWaveform of ONE part, and a plain
    SubsetWaveform over an all-constant waveform (its constant_value_dict is a dict) below every optimising constructor"""
    out = []
    for i in range(n):
        d = rng.choice([2, 4]) * Q4
        c, c2 = rng.sample([0, 1, 2, 3, 4], 2)
        v = lambda: fs(rng.choice(VOLT))   # noqa
        what = ['func0', 'func0x', 'single', 'subconst'][i % 4]

        def leaf(dd, ch=None):
            ch = c if ch is None else ch
            if what == 'func0':
                return ['func', rng.choice([[v()], [v(), '0'], []]), fs(dd), ch]
            if what == 'func0x':
                return ['func', rng.choice([[v()], [v(), '0'], [], [v(), '1/2']]), fs(dd), ch, True]
            if what == 'single':
                x = gen_leaf(rng, ch, dd)
                k = rng.choice(['seq', 'multi'])
                return [k, rng.random() < 0.5, [x if rng.random() < 0.7 else [k, rng.random() < 0.5, [x]]]]
            other = [ch2 for ch2 in range(5) if ch2 != ch]
            m = ['multi', rng.random() < 0.5, [['const', fs(dd), v(), ch]] + [['const', fs(dd), v(), o] for o in rng.sample(other, rng.choice([1, 2]))]]
            return ['subset', m, [ch]]
        wrap = ['none', 'seq', 'rep', 'arith', 'trans', 'functor', 'multi', 'rev', 'getsubset', 'seqmix'][(i // 4) % 10]
        opt = rng.random() < 0.75
        chans, dur = [c], d
        if wrap == 'none':
            r = leaf(d)
        elif wrap == 'seq':
            r, dur = ['seq', opt, [leaf(d), leaf(d / 2)]], d + d / 2
        elif wrap == 'seqmix':
            r, dur = ['seq', opt, [leaf(d), nonconst_leaf(rng, c, d), leaf(d)]], 3 * d
        elif wrap == 'rep':
            r, dur = ['rep', opt, leaf(d), rng.choice([1, 2, 3])], None
            dur = d * r[3]
        elif wrap == 'arith':
            r = ['arith', opt, leaf(d), rng.choice('+-'), rng.choice([leaf(d), ['const', fs(d), v(), c], leaf(d, c2)])]
            chans = sorted(_rout(r))
        elif wrap == 'trans':
            r = ['trans', opt, leaf(d), rng.choice([['scale', [[c, gen_tval(rng)]]], ['offset', [[c, gen_tval(rng)]]],
                                                    ['parallel', [[c2, gen_tval(rng)]]], ['id']])]
            chans = sorted(_rout(r))
        elif wrap == 'functor':
            r = ['functor', opt, leaf(d), [[c, rng.choice(['neg', 'abs', 'pos'])]]]
        elif wrap == 'multi':
            r, chans = ['multi', opt, [leaf(d), rng.choice([leaf(d, c2), gen_leaf(rng, c2, d)])]], sorted([c, c2])
        elif wrap == 'rev':
            r = [rng.choice(REV), leaf(d)]
        else:
            r = ['getsubset', ['multi', opt, [leaf(d), leaf(d, c2)]], [c]]
        out.append((r, dur, chans, 'ctor:%s/%s' % (what, wrap)))
    return out


FINE = [F(3, 4) + F(1, 2 ** 30), F(-5, 2) - F(1, 2 ** 30), F(1, 2) + F(1, 2 ** 28), F(-1, 4) - F(3, 2 ** 29), F(7, 4), F(-3, 4)]
TDTYPES = ['int64', 'int32', 'int8', 'uint8', 'uint16', 'float32', 'float16']
REPR_KINDS = ['const', 'multi-const', 'seq-fold', 'seq-plain', 'rep', 'parallel', 'scale-const', 'arith-const', 'functor',
              'subset', 'rev', 'nonconst', 'mixed-multi', 'trans-nonconst', 'func0']


def gen_repr_targets(rng, tier):
    """round 5, family (h): blind class of seed C08-8 = *every time array the harness ever made was a float64 array*.  The
    same rational times handed over as int64 / int32 / int8 / uint8 / uint16 arrays (integer grids) and as float32 /
    float16 arrays (1/16 grids), for waveforms that REPORT a constant on the sampled channel (constant leaf, folded and
    unfolded sequences of equal constants, repetition, multi-channel with constant parts, parallel-added constant,
    constant folded through scaling, arithmetic of constants, functor, subset, reversal, constant-expression function)
    and for non-constant ones.  The constants are not representable in the array's type (3/4 + 2^-30: neither an integer
    nor a single precision number), so an answer that inherits the representation of the times is off.
    Deterministic: kind x dtype round robin; thorough: every pair, 3 variants."""
    out = []
    pairs = [(k, t) for k in REPR_KINDS for t in TDTYPES]
    if tier == 'quick':
        pairs = [(REPR_KINDS[i % len(REPR_KINDS)], TDTYPES[(i + i // len(REPR_KINDS)) % len(TDTYPES)]) for i in range(45)]
    else:
        pairs = pairs * 3
    for kind, dt in pairs:
        c, c2, c3 = rng.sample([0, 1, 2, 3, 4], 3)
        d = F(rng.choice([1, 2]))
        fine = lambda: fs(rng.choice(FINE))      # noqa
        opt = rng.random() < 0.5
        chans, dur = [c], d
        if kind == 'const':
            r = ['const', fs(d), fine(), c]
        elif kind == 'multi-const':
            r, chans = ['multi', opt, [['const', fs(d), fine(), c], nonconst_leaf(rng, c2, d), ['const', fs(d), fine(), c3]]], [c, c2, c3]
        elif kind == 'seq-fold':
            v = fine()
            r, dur = ['seq', True, [['const', fs(d), v, c], ['const', '1', v, c], ['const', fs(d), v, c]]], 2 * d + 1
        elif kind == 'seq-plain':
            v = fine()
            r, dur = ['seq', False, [['const', fs(d), v, c], ['const', '1', v, c]]], d + 1
        elif kind == 'rep':
            n = rng.choice([2, 3])
            r, dur = ['rep', opt, ['const', fs(d), fine(), c], n], d * n
        elif kind == 'parallel':
            r, chans = ['trans', opt, nonconst_leaf(rng, c, d), ['parallel', [[c2, ['c', fine()]]]]], [c, c2]
        elif kind == 'scale-const':
            r = ['trans', opt, ['const', fs(d), fine(), c], rng.choice([['scale', [[c, ['c', '2']]]], ['offset', [[c, ['c', '1/2']]]], ['id']])]
        elif kind == 'arith-const':
            r = ['arith', opt, ['const', fs(d), fine(), c], rng.choice('+-'), ['const', fs(d), fs(rng.choice(VOLT)), c]]
        elif kind == 'functor':
            r = ['functor', opt, ['const', fs(d), fine(), c], [[c, rng.choice(['neg', 'abs', 'pos'])]]]
        elif kind == 'subset':
            m = ['multi', opt, [['const', fs(d), fine(), c], ['const', fs(d), fine(), c2]]]
            r = [rng.choice(['subset', 'getsubset']), m, [c]]
        elif kind == 'rev':
            r = [rng.choice(REV), rng.choice([['const', fs(d), fine(), c], ['multi', False, [['const', fs(d), fine(), c]]]])]
        elif kind == 'func0':
            r = ['func', [fine()], fs(d), c] + ([True] if opt else [])
        elif kind == 'nonconst':
            r, dur = ['seq', opt, [nonconst_leaf(rng, c, d), nonconst_leaf(rng, c, F(1))]], d + 1
        elif kind == 'mixed-multi':
            r, dur, chans = ['rep', opt, ['multi', opt, [nonconst_leaf(rng, c, d), ['const', fs(d), fine(), c2]]], 2], 2 * d, [c, c2]
        else:
            r = ['trans', opt, nonconst_leaf(rng, c, d), rng.choice([['scale', [[c, gen_tval(rng)]]], ['offset', [[c, ['c', fine()]]]]])]
        n = int(dur)
        if dt.startswith('float'):
            grid = sorted({i * Q4 + rng.choice(OFFS) for i in range(4 * n) if rng.random() < 0.6} | {F(0), F(1, 16)})
        else:
            grid = [F(i) for i in range(n) if i == 0 or rng.random() < 0.8]
            if rng.random() < 0.3:
                grid = grid + [grid[-1]]
        out.append({'kind': 'sample', 'grid_kind': 'repr', 'r': r, 'grid': [fs(t) for t in grid], 'chans': sorted(chans),
                    'family': 'repr:' + kind, 'tdtype': dt})
    return out


def gen_eq_targets(rng):
    """round 5, family (i): equality pairs that differ in exactly ONE slot, for EVERY class (before: `perturb` of a random
    node in 15 % of the random pairs; a FunctorWaveform whose functor differs was compared a few times per run at best, and
    every rejected functor pair was filed under C08-functor-unhashable).  (r1, r2, tag): r2 = r1 with one slot changed
    (must compare unequal: a == b demands the same samples), and r1 against an independently built copy of itself."""
    d = F(1)
    c, c2 = rng.sample([1, 2, 3, 4], 2)
    a = nonconst_leaf(rng, c, d)
    b = nonconst_leaf(rng, c, d)
    while b == a:
        b = nonconst_leaf(rng, c, d)
    a2 = nonconst_leaf(rng, c2, d)
    v1, v2 = [fs(x) for x in rng.sample(VOLT, 2)]
    out = []
    for opt in (False, True):
        out += [
            (['functor', opt, a, [[c, 'neg']]], ['functor', opt, a, [[c, 'abs']]], 'functor-dict'),
            (['functor', opt, ['multi', False, [a, a2]], [[c, 'neg'], [c2, 'pos']]],
             ['functor', opt, ['multi', False, [a, a2]], [[c, 'neg'], [c2, 'abs']]], 'functor-dict2'),
            (['functor', opt, a, [[c, 'neg']]], ['functor', opt, b, [[c, 'neg']]], 'functor-inner'),
            (['neg', a], ['functor', opt, a, [[c, 'abs']]], 'neg-vs-abs'),
            (['trans', opt, a, ['scale', [[c, ['c', '2']]]]], ['trans', opt, a, ['scale', [[c, ['c', '3']]]]], 'trans-value'),
            (['trans', opt, a, ['scale', [[c, ['c', '2']]]]], ['trans', opt, a, ['offset', [[c, ['c', '2']]]]], 'trans-kind'),
            (['trans', opt, a, ['scale', [[c, ['c', '2']]]]], ['trans', opt, b, ['scale', [[c, ['c', '2']]]]], 'trans-inner'),
            (['arith', opt, a, '+', b], ['arith', opt, a, '-', b], 'arith-op'),
            (['arith', opt, a, '-', b], ['arith', opt, b, '-', a], 'arith-sides'),
            (['rep', opt, a, 2], ['rep', opt, a, 3], 'rep-count'),
            (['rep', opt, a, 2], ['rep', opt, b, 2], 'rep-body'),
            (['seq', opt, [a, b]], ['seq', opt, [b, a]], 'seq-order'),
            (['seq', opt, [a, b]], ['seq', opt, [a, b, a]], 'seq-length'),
            (['multi', opt, [a, a2]], ['multi', opt, [b, a2]], 'multi-part'),
            (['subset', ['multi', opt, [a, a2]], [c]], ['subset', ['multi', opt, [a, a2]], [c2]], 'subset-channels'),
            (['subset', ['multi', opt, [a, a2]], [c]], ['subset', ['multi', opt, [b, a2]], [c]], 'subset-inner'),
            (['rev', a], ['rev', b], 'rev-inner'),
            (['rev', a], a, 'rev-vs-plain'),
            (['const', '1', v1, c], ['const', '1', v2, c], 'const-value'),
            (['const', '1', v1, c], ['const', '2', v1, c], 'const-duration'),
            (['const', '1', v1, c], ['const', '1', v1, c2], 'const-channel'),
            (['func', [v1, '1'], '1', c], ['func', [v1, '2'], '1', c], 'func-expression'),
            (['func', [v1, '1'], '1', c], ['func', [v1, '1'], '2', c], 'func-duration'),
            (['table', opt, c, [['0', v1, 'h'], ['1', v2, 'l']]], ['table', opt, c, [['0', v1, 'h'], ['1', v2, 'j']]], 'table-interpolation'),
            (['table', opt, c, [['0', v1, 'h'], ['1', v2, 'l']]], ['table', opt, c2, [['0', v1, 'h'], ['1', v2, 'l']]], 'table-channel'),
        ]
    res = []
    for r1, r2, tag in out:
        res.append({'kind': 'eq', 'r1': r1, 'r2': r2, 'family': 'eq1:' + tag})
        res.append({'kind': 'eq', 'r1': r2, 'r2': r2, 'family': 'eq1:same'})
    return res


# ---------------------------------------------------------------------------------------------------------------------
# round 6, family (j): blind class of seed C08-9 = *every expression the harness ever built was printed as a sum of float
# coefficients times powers of t* ('0.0*t**0 + 1.0*t**1'): sympy keeps the float factor, so the lambdified function always
# COMPUTES a new array.  An expression that IS its argument ('t', 't*1', 't+0', 't/1': all simplify to the symbol) makes the
# lambdified function hand back the caller's time array itself; whoever forgets the copy then returns a window onto the
# caller's array as samples, and every parent that post-processes samples in place (functors) writes into the time array.

IDENT_SPELL = ['t', 't*1', 't+0', 't/1', '1*t', 't**1']
OTHER_SPELL = [(['1', '2'], '2*t + 1'), (['1/4', '1/2'], 't/2 + 1/4'), (['0', '1', '1'], '(t + 1)*t'), (['0', '-1'], '-t'),
               (['0', '2'], 't + t'), (['-1/2', '1'], 't - 1/2'), (['0', '1', '0'], 't + 0*t**2')]


def gen_spell_targets(rng, tier):
    """-> [(recipe, duration, channels, tag)]: an identity ramp (and other spellings of polynomials whose meaning the model
    knows from the coefficients) at the top and below EVERY class of parent, in particular the ones that work in place on
    their child's samples; time dependent transformation values spelled 't' too.  Deterministic: wrapper x spelling round
    robin (quick: every wrapper once with an identity spelling + once with another polynomial; thorough: every pair)."""
    out = []
    d = F(1)

    def wrappers(leaf, c, c2, opt):
        other = lambda ch, dd=d: nonconst_leaf(rng, ch, dd)   # noqa
        tt = lambda a, b, text: ['t', a, b, text]             # noqa
        return [
            ('none', leaf(c), d, [c]),
            ('neg', ['neg', leaf(c)], d, [c]),
            ('functor-neg', ['functor', opt, leaf(c), [[c, 'neg']]], d, [c]),
            ('functor-abs', ['functor', opt, leaf(c), [[c, 'abs']]], d, [c]),
            ('functor-pos', ['functor', opt, leaf(c), [[c, 'pos']]], d, [c]),
            ('neg-neg', ['neg', ['neg', leaf(c)]], d, [c]),
            ('multi-of-neg', ['multi', opt, [['neg', leaf(c)], other(c2)]], d, [c, c2]),
            ('neg-of-multi', ['neg', ['multi', opt, [leaf(c), other(c2)]]], d, [c, c2]),
            ('functor-of-multi', ['functor', opt, ['multi', opt, [other(c2), leaf(c)]], [[c, 'neg'], [c2, 'abs']]], d, [c, c2]),
            ('two-ramps', ['neg', ['multi', opt, [leaf(c), leaf(c2)]]], d, [c, c2]),
            ('subset-of-neg', ['subset', ['multi', opt, [['neg', leaf(c)], other(c2)]], [c]], d, [c]),
            ('neg-of-subset', ['neg', ['subset', ['multi', opt, [leaf(c), other(c2)]], [c]]], d, [c]),
            ('getsubset-of-neg', ['getsubset', ['neg', ['multi', opt, [leaf(c), other(c2)]]], [c]], d, [c]),
            ('neg-of-trans-id', ['neg', ['trans', False, leaf(c), ['id']]], d, [c]),
            ('neg-of-trans-scale', ['neg', ['trans', opt, leaf(c), ['scale', [[c, ['c', '2']]]]]], d, [c]),
            ('neg-of-trans-offset-t', ['neg', ['trans', opt, leaf(c), ['offset', [[c, tt('0', '1', 't')]]]]], d, [c]),
            ('neg-of-parallel-t', ['neg', ['trans', opt, other(c2), ['parallel', [[c, tt('0', '1', rng.choice(IDENT_SPELL))]]]]], d, [c, c2]),
            ('parallel-t', ['trans', opt, leaf(c), ['parallel', [[c2, tt('0', '1', rng.choice(IDENT_SPELL))]]]], d, [c, c2]),
            ('scale-t', ['neg', ['trans', opt, other(c), ['scale', [[c, tt('0', '1', 't')]]]]], d, [c]),
            ('trans-of-neg', ['trans', opt, ['neg', leaf(c)], ['offset', [[c, ['c', '1/2']]]]], d, [c]),
            ('arith-lhs', ['neg', ['arith', opt, leaf(c), rng.choice('+-'), other(c)]], d, [c]),
            ('arith-rhs', ['arith', opt, other(c), '-', ['neg', leaf(c)]], d, [c]),
            ('arith-excl', ['neg', ['arith', opt, leaf(c), '+', other(c2)]], d, [c, c2]),
            ('seq', ['neg', ['seq', opt, [leaf(c), leaf(c)]]], 2 * d, [c]),
            ('seq-of-neg', ['seq', opt, [['neg', leaf(c)], other(c)]], 2 * d, [c]),
            ('rep', ['neg', ['rep', opt, leaf(c), 2]], 2 * d, [c]),
            ('rep1-of-neg', ['rep', opt, ['neg', leaf(c)], 1], d, [c]),
            ('rev-of-neg', [rng.choice(REV), ['neg', leaf(c)]], d, [c]),
            ('neg-of-rev', ['neg', [rng.choice(REV), leaf(c)]], d, [c]),
            ('single-multi', ['neg', ['multi', False, [leaf(c)]]], d, [c]),
            ('single-seq', ['neg', ['seq', False, [leaf(c)]]], d, [c]),
        ]
    n_wrap = len(wrappers(lambda ch: ['const', '1', '0', ch], 1, 2, False))
    pairs = []
    if tier == 'quick':
        for i in range(n_wrap):
            pairs.append((i, ('ident', IDENT_SPELL[i % len(IDENT_SPELL)])))
        for i in range(0, n_wrap, 3):
            pairs.append((i, ('other', OTHER_SPELL[(i // 3) % len(OTHER_SPELL)])))
    else:
        for i in range(n_wrap):
            pairs += [(i, ('ident', sp)) for sp in IDENT_SPELL] + [(i, ('other', sp)) for sp in OTHER_SPELL]
    for i, (what, sp) in pairs:
        c, c2 = rng.sample([0, 1, 2, 3, 4], 2)
        opt = rng.random() < 0.5
        if what == 'ident':
            leaf = lambda ch, sp=sp: ['func', ['0', '1'], fs(d), ch, False, sp]          # noqa
        else:
            leaf = lambda ch, sp=sp: ['func', list(sp[0]), fs(d), ch, False, sp[1]]      # noqa
        tag, r, dur, chans = wrappers(leaf, c, c2, opt)[i]
        out.append((r, dur, sorted(chans), 'spell:%s/%s' % (tag, sp if what == 'ident' else sp[1])))
    return out


def render_history(rng, dur, chans, ro):
    """what rendering does: ONE time array, one get_sampled call per channel, then the first channel again, then the same
    through supplied result arrays and once more without; off-grid times and the on-grid start"""
    cs = sorted(chans)
    g = [fs(t) for t in sorted(set(off_grid(rng, dur, 3)) | {F(0)})]
    ops = [['set', 0, g]] + [['call', c, 0, False] for c in cs] + [['call', cs[0], 0, False]]
    ops += [['call', c, 0, True] for c in cs[::-1]] + [['call', cs[-1], 0, False], ['tmp', cs[0], g, False]]
    return {'kind': 'hist', 'ops': ops, 'dur': fs(dur), 'arr': 'plain', 'ro': ro, 'style': 'render'}


def malformed_recipes(rng):
    c = lambda d, v, ch: ['const', fs(d), fs(v), ch]   # noqa
    t = lambda ch, ents, val=True: ['table', val, ch, [[fs(a), fs(b), i] for a, b, i in ents]]   # noqa
    out = [
        ['seq', False, []], ['seq', True, [c(1, 1, 1), c(1, 1, 2)]], ['seq', False, [c(1, 1, 1), c(1, 2, 2)]],
        ['multi', False, [c(1, 1, 1), c(1, 2, 1)]], ['multi', True, [c(1, 1, 1), c(2, 2, 2)]],
        ['multi', False, [c(1, 1, 1), t(2, [(0, 0, 'h'), (2, 1, 'l')])]],
        ['rep', False, c(1, 1, 1), 0], ['rep', True, c(1, 1, 1), 0], ['rep', False, t(1, [(0, 0, 'h'), (1, 1, 'l')]), -1],
        ['rep', True, t(1, [(0, 0, 'h'), (1, 1, 'l')]), 0],
        t(1, []), t(1, [(0, 1, 'h')]), t(1, [(1, 1, 'h'), (2, 1, 'h')]), t(1, [(0, 1, 'h'), (0, 2, 'h')]),
        t(1, [(0, 1, 'h'), (2, 2, 'l'), (1, 3, 'l')]), t(1, [(0, 1, 'h'), (-1, 2, 'l')]),
        t(1, [(0, 1, 'h'), (1, 2, 'l'), (1, 3, 'l')]), t(1, [(0, 1, 'h'), (1, 2, 'l'), (1, 3, 'l')], False),
        t(1, [(0, 1, 'h'), (1, 2, 'l'), (1, 3, 'l'), (2, 3, 'h')]), t(1, [(0, 1, 'h'), (0, 2, 'l'), (1, 3, 'h')], False),
        ['arith', False, c(1, 1, 1), '+', c(2, 1, 1)], ['arith', True, c(1, 1, 1), '-', c(2, 1, 1)],
        ['arith', True, c(1, 1, 1), '-', t(1, [(0, 1, 'h'), (2, 2, 'l')])],
        ['functor', False, c(1, 1, 1), [[2, 'neg']]], ['functor', True, c(1, 1, 1), [[2, 'neg']]],
        ['functor', True, c(1, 1, 1), [[1, 'neg'], [2, 'abs']]], ['functor', False, c(1, 1, 1), [[1, 'neg'], [2, 'abs']]],
        ['getsubset', c(1, 1, 1), [2]], ['getsubset', ['multi', False, [c(1, 1, 1), c(1, 2, 2)]], [1, 3]],
        ['trans', False, c(1, 1, 1), ['linear', [1, 2], [3], [['1', '1']]]],
        ['trans', True, c(1, 1, 1), ['linear', [1, 2], [3], [['1', '1']]]],
        ['trans', True, c(1, 1, 1), ['linear', [3, 4], [2], [['1', '1']]]],
        ['trans', False, c(1, 1, 1), ['linear', [3, 4], [2], [['1', '1']]]],
        ['trans', False, t(1, [(0, 0, 'h'), (1, 1, 'l')]), ['linear', [3, 4], [2], [['1', '1']]]],
        # "declared as empty" instead of "not declared"
        ['getsubset', c(1, 1, 1), []], ['getsubset', ['multi', False, [c(1, 1, 1), c(1, 2, 2)]], []],
        ['getsubset', ['seq', False, [c(1, 1, 1), t(1, [(0, 0, 'h'), (1, 1, 'l')])]], []],
        ['getsubset', ['rep', False, t(1, [(0, 0, 'h'), (1, 1, 'l')]), 2], []], ['subset', c(1, 1, 1), []],
        ['getsubset', ['functor', False, t(1, [(0, 0, 'h'), (1, 1, 'l')]), [[1, 'neg']]], []],
        ['trans', False, t(1, [(0, 0, 'h'), (1, 1, 'l')]), ['scale', []]], ['trans', True, c(1, 1, 1), ['offset', []]],
        ['trans', False, t(1, [(0, 0, 'h'), (1, 1, 'l')]), ['parallel', []]], ['trans', True, c(1, 1, 1), ['parallel', []]],
        ['trans', True, t(1, [(0, 0, 'h'), (1, 1, 'l')]), ['chain', []]], ['trans', True, c(1, 1, 1), ['chain', []]],
        ['functor', False, c(1, 1, 1), []], ['functor', True, c(1, 1, 1), []],
        # round 4 (coverage audit): no parts at all; a negative time after a valid second entry; three parts, one too long
        ['multi', False, []], ['multi', True, []], ['seq', True, []],
        t(1, [(0, 1, 'h'), (1, 2, 'l'), (-1, 3, 'l')]), t(1, [(0, 1, 'h'), (1, 2, 'l'), (-1, 3, 'l')], False),
        t(1, [(0, 1, 'h'), (-1, 2, 'l'), (1, 3, 'l')]),
        ['multi', False, [c(1, 1, 1), c(1, 2, 2), c(2, 3, 3)]], ['multi', True, [c(1, 1, 1), c(2, 2, 2), c(1, 3, 3)]],
        ['getsubset', ['func', ['1', '1'], '1', 1], []], ['getsubset', t(1, [(0, 0, 'h'), (1, 1, 'l')], False), []],
    ]
    return out


def has_kind(r, kinds):
    if not isinstance(r, list):
        return False
    if r and r[0] in kinds:
        return True
    return any(has_kind(x, kinds) for x in r if isinstance(x, list))


def rdepth(r):
    if not isinstance(r, list) or not r or not isinstance(r[0], str):
        return max([rdepth(x) for x in r] + [0]) if isinstance(r, list) else 0
    if r[0] in ('table', 'const', 'func'):
        return 0
    if r[0] in ('id', 'scale', 'offset', 'parallel', 'linear', 'chain', 'c', 't'):
        return 0
    return 1 + max([rdepth(x) for x in r[1:] if isinstance(x, list)] + [0])


def flip_opt(r, val):
    """the same recipe with every node built by the plain (False) / optimising (True) constructor"""
    if not isinstance(r, list) or not r or not isinstance(r[0], str):
        return r
    k = r[0]
    if k in ('seq', 'multi'):
        return [k, val, [flip_opt(x, val) for x in r[2]]]
    if k == 'table':
        return [k, val, r[2], r[3]]
    if k in ('rep', 'trans', 'functor'):
        return [k, val, flip_opt(r[2], val)] + r[3:]
    if k == 'arith':
        return [k, val, flip_opt(r[2], val), r[3], flip_opt(r[4], val)]
    if k in ('subset', 'getsubset'):
        return [k if val else 'subset', flip_opt(r[1], val), r[2]]
    if k in ('neg',):
        return [k, flip_opt(r[1], val)]
    if k in ('rev', 'fromrev', 'reversed'):
        return ['fromrev' if val else 'rev', flip_opt(r[1], val)]
    return r


def exhaustive_small(tier):
    """small-scope enumeration: nestings over 4 leaf shapes (channel 1, durations 1/2 and 1)"""
    leaves = lambda d: [['const', fs(d), '1', 1],   # noqa
                        ['table', False, 1, [['0', '1', 'h'], [fs(d), '2', 'l']]],
                        ['table', True, 1, [['0', '1', 'h'], [fs(d / 2), '1', 'h'], [fs(d), '3', 'j']]],
                        ['func', ['1', '1/2'], fs(d), 1]]
    def level(prev_half, prev_one):
        out_one, out_half = [], []
        for opt in (False, True):
            for a in prev_half:
                for b in prev_half:
                    out_one.append(['seq', opt, [a, b]])
                out_one.append(['rep', opt, a, 2])
        for src, dst in ((prev_half, out_half), (prev_one, out_one)):
            for a in src:
                dst.append(['rev', a])
                dst.append(['reversed', a])
                dst.append(['neg', a])
                dst.append(['trans', True, a, ['scale', [[1, ['c', '2']]]]])
        return out_half, out_one
    h0, o0 = leaves(F(1, 2)), leaves(F(1))
    h1, o1 = level(h0, o0)
    res = o0 + o1
    if tier == 'thorough':
        h2, o2 = level(h0 + h1, o0 + o1[:40])
        res += o2
    return res


# ---------------------------------------------------------------------------------------------------------------------
# decimal stream: durations k/10, k/3, k/5 ... (exact TimeType, NOT binary fractions); grid points exactly on every
# junction, handed to the code as the correctly rounded doubles of the exact rationals.  Floating point is not exact
# here: values are compared under the declared absolute tolerance 2^-30 (Corr.v `tol`) and these cases are counted apart
# (`inexact_cases`).  Which piece answers a junction must still be exact: every generated ramp ends at a value at least
# 1/2 away from where it (and the next piece) starts, a wrong piece is off by far more than the tolerance.

_STATS = {'inexact_cases': 0, 'inexact_samples': 0, 'realloc_tried': 0, 'realloc_same_address': 0}
DEC_FAMILIES = [(10, [1, 1, 3, 7, 11, 2, 9]), (3, [1, 1, 2, 4]), (5, [1, 2, 3]), (6, [1, 5]), (7, [1, 2]), (100, [7, 11, 33])]


def dec_leaf(rng, c, d, den):
    """a leaf of duration d (a multiple of 1/den) whose start and end values differ.  Tables get their entry times as
    floats, so their duration is exact only for decimal fractions (den 5, 10, 100); for thirds, sixths and sevenths the
    leaves are function waveforms (ramps a + b*t) and constants with an exact TimeType duration"""
    r = rng.random()
    v0 = rng.choice(VOLT)
    v1 = rng.choice([v for v in VOLT if abs(v - v0) >= 1])
    tables_ok = den in (5, 10, 100)
    if not tables_ok:
        if r < 0.85:
            slope = rng.choice([F(1), F(-1), F(2), F(-3), F(5)]) * max(1, den // max(1, int(d * den)))
            return ['func', [fs(v0), fs(slope)], fs(d), c]
        return ['const', fs(d), fs(v0), c]
    if r < 0.55:
        return ['table', rng.random() < 0.5, c, [['0', fs(v0), 'h'], [fs(d), fs(v1), 'l']]]
    k = int(d * den)
    if r < 0.7 and k >= 2:
        j = rng.randint(1, k - 1)
        v2 = rng.choice([v for v in VOLT if abs(v - v0) >= 1])
        return ['table', rng.random() < 0.5, c, [['0', fs(v0), 'h'], [fs(F(j, den)), fs(v1), rng.choice('lh')],
                                                 [fs(d), fs(v2), rng.choice('lj')]]]
    if r < 0.82:
        return ['func', [fs(v0), fs(rng.choice([F(1), F(-1), F(2), F(-3), F(5)]) * 4)], fs(d), c]
    if r < 0.92:
        return ['table', rng.random() < 0.5, c, [['0', fs(v0), 'h'], [fs(d), fs(v1), 'j']]]
    return ['const', fs(d), fs(v0), c]


def dec_wf(rng, c, den, ks, depth):
    """-> (recipe, duration): repetitions (count 3..10) and sequences of leaves with decimal durations"""
    if depth <= 0:
        d = F(rng.choice(ks), den)
        return dec_leaf(rng, c, d, den), d
    k = rng.choice(['rep', 'rep', 'seq', 'seq', 'leaf'])
    opt = rng.random() < 0.5
    if k == 'leaf':
        return dec_wf(rng, c, den, ks, 0)
    if k == 'rep':
        b, d = dec_wf(rng, c, den, ks, depth - 1)
        n = rng.choice([3, 4, 4, 5, 6, 7, 10]) if depth == 1 else rng.choice([2, 3, 4])
        return ['rep', opt, b, n], d * n
    parts = [dec_wf(rng, c, den, ks, depth - 1) for _ in range(rng.randint(2, 4 if depth == 1 else 3))]
    return ['seq', opt, [p[0] for p in parts]], sum((p[1] for p in parts), F(0))


def dec_junctions(r, start, out):
    """all piece boundaries (absolute times) inside r, returns the duration"""
    k = r[0]
    if k == 'table':
        for e in r[3][1:-1]:
            out.add(start + F(e[0]))
        return F(r[3][-1][0])
    if k in ('const',):
        return F(r[1])
    if k == 'func':
        return F(r[2])
    if k == 'seq':
        t = start
        for x in r[2]:
            out.add(t)
            t += dec_junctions(x, t, out)
        return t - start
    if k == 'rep':
        t = start
        for _ in range(r[3]):
            out.add(t)
            t += dec_junctions(r[2], t, out)
        return t - start
    if k == 'multi':
        return max(dec_junctions(x, start, out) for x in r[2])
    if k == 'arith':
        dec_junctions(r[4], start, out)
        return dec_junctions(r[2], start, out)
    if k in ('functor', 'trans', 'rep'):
        return dec_junctions(r[2], start, out)
    if k in ('neg', 'subset', 'getsubset'):
        return dec_junctions(r[1], start, out)
    raise ValueError(k)


def gen_dec_cases(rng, tier):
    out = []
    for _ in range({'quick': 160, 'thorough': 2500}[tier]):
        den, ks = rng.choice(DEC_FAMILIES)
        r, dur = dec_wf(rng, 1, den, ks, rng.choice([1, 1, 1, 1, 2, 2, 3]))
        chans = [1]
        wrap = rng.random()
        if wrap < 0.2:
            other = rng.choice([['const', fs(dur), fs(rng.choice(VOLT)), 2], dec_leaf(rng, 2, dur, den)])
            r, chans = ['multi', rng.random() < 0.5, [r, other]], [1, 2]
        elif wrap < 0.3:
            r = ['arith', rng.random() < 0.5, r, rng.choice('+-'), dec_leaf(rng, 1, dur, den)]
        elif wrap < 0.38:
            r = ['functor', rng.random() < 0.5, r, [[1, rng.choice(['neg', 'abs'])]]]
        elif wrap < 0.46:
            r = ['trans', rng.random() < 0.5, r, [rng.choice(['scale', 'offset']), [[1, ['c', rng.choice(['2', '-1', '1/2'])]]]]]
        js = set()
        dec_junctions(r, F(0), js)
        js = sorted(t for t in js | {F(0)} if t < dur)
        mids = [(a + b) / 2 for a, b in zip(js, js[1:] + [dur])]
        if len(js) > 48:
            keep = set(rng.sample(js, 48)) | {F(0)}
            js = [t for t in js if t in keep]
        grid = sorted(set(js) | set(rng.sample(mids, min(len(mids), 12))))
        out.append({'kind': 'dec', 'grid_kind': 'dec', 'r': r, 'grid': [fs(t) for t in grid], 'chans': chans, 'dur': fs(dur)})
    return out


def extra_evidence(ctx):
    return {'known_finding_candidates_judged_in_coq': _EXC_STATS['evaluated'], 'filed_as_known_finding': _EXC_STATS['excused'],
            'input_class_of_a_known_finding_but_not_that_defect': _EXC_STATS['refused'],
            'time_arrays_reallocated': _STATS['realloc_tried'], 'of_these_at_the_same_address': _STATS['realloc_same_address'],
            'inexact_cases': _STATS['inexact_cases'], 'inexact_samples_compared': _STATS['inexact_samples'],
            'inexact_tolerance_abs': '2^-30',
            'inexact_note': 'decimal stream (kind dec): durations k/10, k/3, k/5, k/6, k/7, k/100 as exact TimeType, grid '
                            'points on every junction (correctly rounded doubles of the exact rationals); binary64 samples '
                            'are compared with the exact rational model and with the denotation under the absolute '
                            'tolerance; every other case is compared exactly'}


def gen_cases(rng, tier, ctx):
    n_wf = {'quick': 260, 'thorough': 4000}[tier]
    cases = []

    def add_sample(r, dur, chans, extra_chan=False):
        gs = grids_for(rng, dur)
        for gk in ('off', 'on', 'end'):
            cs = sorted(chans)
            if extra_chan and gk == 'off':
                cs = cs + [c for c in range(5) if c not in chans][:1]
            cases.append({'kind': 'sample', 'grid_kind': gk, 'r': r, 'grid': [fs(t) for t in gs[gk]], 'chans': cs})

    recipes = []
    for i in range(n_wf):
        nch = rng.choice([1, 1, 1, 2, 2, 3])
        chans = sorted(rng.sample(range(5), nch))
        dur = rng.choice([2, 3, 4, 4, 6, 8, 8, 12]) * Q4
        depth = rng.choice([1, 2, 2, 3, 3, 4])
        r = gen_wf(rng, depth, chans, dur, const_bias=rng.choice([0.0, 0.0, 0.5, 0.9]))
        recipes.append((r, dur, chans))
        add_sample(r, dur, chans, extra_chan=rng.random() < 0.15)
        if rng.random() < 0.35:
            add_sample(flip_opt(r, rng.random() < 0.5), dur, chans)
    # table constant detection on purpose (constant prefix followed by a ramp / jump)
    for i in range(12 if tier == 'quick' else 120):
        dur = rng.choice([2, 3, 4, 6]) * Q4
        r = ['table', True, 1, gen_table_entries(rng, dur, rng.choice(['prefix', 'const', 'dup']))]
        if rng.random() < 0.4:
            r = ['seq', True, [r, ['table', True, 1, gen_table_entries(rng, dur, 'prefix')]]]
            dur = 2 * dur
        add_sample(r, dur, [1])
    for r, dur, chans in gen_subset_targets(rng, 40 if tier == 'quick' else 500):
        add_sample(r, dur, chans)
    for r, dur, chans in gen_fold_targets(rng, 40 if tier == 'quick' else 500):
        add_sample(r, dur, chans)
    for r in exhaustive_small(tier):
        dur = F(1)
        add_sample(r, dur, [1])
    # malformed recipes and malformed grids
    for r in malformed_recipes(rng):
        cases.append({'kind': 'sample', 'grid_kind': 'malformed', 'r': r, 'grid': ['0', '1/4'], 'chans': [1, 2]})
    for r, dur, chans in recipes[:(40 if tier == 'quick' else 400)]:
        bad = rng.choice([['1/2', '1/4'], ['-1/4', '1/4'], ['0', fs(dur + Q4)], [], ['0', fs(dur)], [fs(dur), fs(dur)],
                          ['1/4', '1/4', '1/4']])
        cases.append({'kind': 'sample', 'grid_kind': 'malformed', 'r': r, 'grid': bad,
                      'chans': sorted(chans) + [c for c in range(5) if c not in chans][:1]})
    # equality / hash
    for r, dur, chans in recipes[:(120 if tier == 'quick' else 1500)]:
        which = rng.random()
        if which < 0.45:
            r2 = r
        elif which < 0.7:
            r2 = flip_opt(r, rng.random() < 0.5)
        elif which < 0.85:
            r2 = perturb(rng, r)
        else:
            r2 = rng.choice(recipes)[0]
        cases.append({'kind': 'eq', 'r1': r, 'r2': r2})
    # call histories
    for r, dur, chans in recipes[:(120 if tier == 'quick' else 1500)]:
        cases.append({'kind': 'hist', 'r': r, 'ops': gen_history(rng, dur, chans), 'dur': fs(dur)})
    # the per-instance cache of TransformingWaveform on purpose: same array object, interleaved channels, content changed
    # in place between calls, a second array object in between
    k = 0
    for r, dur, chans in recipes:
        if not has_kind(r, ('trans',)):
            continue
        k += 1
        if k > (40 if tier == 'quick' else 400):
            break
        n = int(dur / Q4)
        def grid(m):
            return [fs(t) for t in sorted(rng.sample([i * F(1, 16) for i in range(1, 4 * n)], m))]
        m = rng.randint(1, min(4, 4 * n - 1))
        cs = sorted(chans)
        ops = [['set', 0, grid(m)], ['set', 1, grid(m)], ['call', rng.choice(cs), 0, False], ['call', rng.choice(cs), 0, rng.random() < 0.5]]
        if rng.random() < 0.6:
            ops.append(['set', 0, grid(m)])
        ops.append(['call', rng.choice(cs), rng.choice([0, 1]), False])
        ops.append(['call', rng.choice(cs), 0, rng.random() < 0.3])
        if rng.random() < 0.5:
            ops += [['set', 1, grid(m)], ['call', rng.choice(cs), 1, False], ['call', rng.choice(cs), 0, False]]
        cases.append({'kind': 'hist', 'r': r, 'ops': ops, 'dur': fs(dur)})
    for r in history_seeds():
        cases.append({'kind': 'hist', 'r': r, 'ops': [['set', 0, ['0', '1/4', '1/2']], ['call', 1, 0, False],
                                                      ['call', 1, 0, False], ['call', 1, 0, True]], 'dur': '1'})
    cases += shadow_histories(rng, 6 if tier == 'quick' else 60)
    # ---- round 3 families ----
    # (a) grids that leave whole repetitions / sequence parts without a sample; the same through one reused output array
    for r, dur, chans, pieces in gen_piece_targets(rng, 36 if tier == 'quick' else 500):
        gs = sparse_grids(rng, pieces)
        names = ['late1', 'late-on'] + rng.sample(['one', 'ends', 'skip', 'tail'], 2 if tier == 'quick' else 4)
        for name in names:
            cases.append({'kind': 'sample', 'grid_kind': 'sparse-on' if name == 'late-on' else 'sparse', 'r': r,
                          'grid': [fs(t) for t in gs[name]], 'chans': sorted(chans), 'sparse': name})
        cases.append(sparse_history(rng, r, dur, chans, pieces))
        if rng.random() < 0.5:
            cases.append(dict(gen_alias_history(rng, dur, chans), r=r))
    # a single late time for random recipes
    for r, dur, chans in recipes[:(100 if tier == 'quick' else 1500)]:
        t = dur - rng.choice([F(1, 16), F(1, 8), F(3, 16)])
        cases.append({'kind': 'sample', 'grid_kind': 'sparse', 'r': r, 'grid': [fs(t)], 'chans': sorted(chans), 'sparse': 'late1'})
    # (b) the same waveform OBJECT nested twice
    for r, dur, chans in gen_share_targets(rng, 30 if tier == 'quick' else 400):
        gs = grids_for(rng, dur)
        for gk in ('off', 'on', 'end'):
            cases.append({'kind': 'sample', 'grid_kind': gk, 'r': r, 'grid': [fs(t) for t in gs[gk]], 'chans': sorted(chans),
                          'share': True})
        cases.append(dict(gen_alias_history(rng, dur, chans), r=r, share=True))
        cases.append({'kind': 'hist', 'r': r, 'share': True, 'dur': fs(dur),
                      'ops': [['set', 0, [fs(t) for t in gs['off']]], ['call', chans[0], 0, False], ['call', chans[0], 0, True],
                              ['set', 1, [fs(t) for t in gs['off'][::-1][:2][::-1]]], ['call', chans[0], 1, False],
                              ['call', chans[0], 0, False]]})
    # (c) identity of the arrays: freed and re-allocated time arrays, temporaries, reused output arrays, queries, views
    k = 0
    for r, dur, chans in recipes:
        if k >= (90 if tier == 'quick' else 1200):
            break
        if k % 3 and not has_kind(r, ('trans',)):
            continue                              # two thirds of these histories go to recipes with transformations
        k += 1
        cases.append(dict(gen_alias_history(rng, dur, chans), r=r))
    # (d) coinciding channel names
    for r, dur, chans in gen_name_targets(rng):
        add_sample(r, dur, chans)
        cases.append(dict(gen_alias_history(rng, dur, chans), r=r))
    cases += gen_dec_cases(rng, tier)
    # ---- round 4 families (after everything else: the earlier cases of a seed stay what they were) ----
    # (e) get_subset_for_channels with a request inside ONE operand's / part's exclusive channels
    for r, dur, chans, tag in gen_exclusive_targets(rng, 63 if tier == 'quick' else 1260):
        gs = grids_for(rng, dur)
        for gk in ('off', 'on') if tier == 'quick' else ('off', 'on', 'end'):
            cases.append({'kind': 'sample', 'grid_kind': gk, 'r': r, 'grid': [fs(t) for t in gs[gk]], 'chans': sorted(chans),
                          'family': tag})
    # (f) constructor paths found unreached by the coverage audit
    for r, dur, chans, tag in gen_ctor_targets(rng, 60 if tier == 'quick' else 1200):
        gs = grids_for(rng, dur)
        for gk in ('off', 'end') if tier == 'quick' else ('off', 'on', 'end'):
            cases.append({'kind': 'sample', 'grid_kind': gk, 'r': r, 'grid': [fs(t) for t in gs[gk]], 'chans': sorted(chans),
                          'family': tag})
        if tier != 'quick' or rng.random() < 0.3:
            cases.append(dict(gen_alias_history(rng, dur, chans), r=r))
    for r, dur, chans, tag in exclusive_small(tier):
        n = int(dur / Q4)
        grid = sorted({i * Q4 for i in range(n)} | {i * Q4 + F(1, 8) for i in range(n)} | {dur - F(1, 16)})
        cases.append({'kind': 'sample', 'grid_kind': 'mixed', 'r': r, 'grid': [fs(t) for t in grid], 'chans': sorted(chans),
                      'family': tag})
    # ---- round 5 family (h): the representation of the time array (after everything else) ----
    cases += gen_repr_targets(rng, tier)
    # ---- round 5 family (i): equality pairs that differ in exactly one slot, every class ----
    for _ in range(1 if tier == 'quick' else 8):
        cases += gen_eq_targets(rng)
    # ---- round 6 family (j): expressions that ARE their argument / other spellings, below every class of parent ----
    for r, dur, chans, tag in gen_spell_targets(rng, tier):
        gs = grids_for(rng, dur)
        for gk in ('off', 'end') if tier == 'quick' else ('off', 'on', 'end'):
            cases.append({'kind': 'sample', 'grid_kind': gk, 'r': r, 'grid': [fs(t) for t in gs[gk]], 'chans': sorted(chans),
                          'family': tag})
        for ro in (False, True) if tier != 'quick' else (False,):     # writeable arrays: what a caller normally has
            cases.append(dict(render_history(rng, dur, chans, ro), r=r, family=tag))
    return cases


def shadow_histories(rng, n):
    """Chain(Parallel{P}, Linear{X,Y -> P}) (+ scaling): sampling a forwarded channel first leaves the parallel constant
    for P in the cache (by-product), a later request for P on the same array is answered from it"""
    out = []
    for _ in range(n):
        dur = rng.choice([2, 4]) * Q4
        z, x, y, p = rng.sample([1, 2, 3, 4], 4)
        inner = ['multi', False, [gen_leaf(rng, c, dur) for c in (x, y, z)]]
        chain = [['parallel', [[p, gen_tval(rng, False)]]], ['linear', [x, y], [p], [[fs(rng.choice([F(1), F(-1), F(2)])) for _ in (x, y)]]]]
        if rng.random() < 0.4:
            chain.append(['scale', [[p, ['c', '2']]]])
        r = ['trans', False, inner, ['chain', chain]]
        if rng.random() < 0.3:
            r = ['functor', False, r, [[z, 'neg'], [p, 'abs']]]
        g = [fs(t) for t in sorted(rng.sample([i * F(1, 16) for i in range(1, 4 * int(dur / Q4))], 3))]
        first, second = (z, p) if rng.random() < 0.8 else (p, z)
        ops = [['set', 0, g], ['call', first, 0, False], ['call', second, 0, rng.random() < 0.5], ['call', first, 0, False]]
        out.append({'kind': 'hist', 'r': r, 'ops': ops, 'dur': fs(dur)})
    return out


def history_seeds():
    a = ['table', False, 1, [['0', '1', 'h'], ['1', '2', 'l']]]
    b = ['table', False, 1, [['0', '5', 'h'], ['1', '7', 'l']]]
    tw = ['trans', False, a, ['scale', [[1, ['c', '2']]]]]
    return [['arith', False, tw, '+', b], ['functor', False, tw, [[1, 'neg']]], ['neg', tw], tw,
            ['arith', False, b, '-', tw], ['subset', ['arith', False, tw, '+', b], [1]],
            ['functor', False, ['multi', False, [tw, ['const', '1', '3', 2]]], [[1, 'neg'], [2, 'abs']]]]


def perturb(rng, r):
    """a recipe that differs from r in one small place"""
    import copy
    r = copy.deepcopy(r)
    nodes = []

    def walk(x):
        if isinstance(x, list) and x and isinstance(x[0], str) and x[0] in (
                'table', 'const', 'func', 'rep', 'arith', 'functor', 'trans', 'subset'):
            nodes.append(x)
        if isinstance(x, list):
            for y in x:
                walk(y)
    walk(r)
    if not nodes:
        return r
    x = rng.choice(nodes)
    if x[0] == 'const':
        x[2] = fs(F(x[2]) + F(1, 2))
    elif x[0] == 'table':
        e = rng.choice(x[3])
        if rng.random() < 0.5:
            e[1] = fs(F(e[1]) + 1)
        else:
            e[2] = {'h': 'l', 'l': 'j', 'j': 'h'}[e[2]]
    elif x[0] == 'func':
        x[1][0] = fs(F(x[1][0]) + 1)
    elif x[0] == 'rep':
        x[3] = x[3] + 1
    elif x[0] == 'arith':
        x[3] = '+' if x[3] == '-' else '-'
    elif x[0] == 'functor':
        x[3][0][1] = 'abs' if x[3][0][1] != 'abs' else 'neg'
    elif x[0] == 'trans' and x[3][0] in ('scale', 'offset', 'parallel'):
        x[3][1][0][1] = ['c', '5']
    return r


def gen_history(rng, dur, chans):
    n = int(dur / Q4)
    def grid():
        g = sorted({rng.randrange(0, 4 * n) * F(1, 16) for _ in range(rng.randint(1, 5))})
        return [fs(t) for t in g]
    ops = [['set', 0, grid()], ['set', 1, grid()]]
    for _ in range(rng.randint(2, 7)):
        r = rng.random()
        if r < 0.12:
            aid = rng.choice([0, 1])
            old = [o for o in ops if o[0] == 'set' and o[1] == aid][-1][2]
            new = sorted({rng.randrange(0, 4 * n) * F(1, 16) for _ in range(len(old) * 3)})[:len(old)]
            if len(new) == len(old):
                ops.append(['set', aid, [fs(t) for t in new]])     # same object, new content
        ops.append(['call', rng.choice(sorted(chans)), rng.choice([0, 0, 1]), rng.random() < 0.35])
    return ops


# ---------------------------------------------------------------------------------------------------------------------
# bookkeeping for the evidence / decisions

def nontrivial(case, obs):
    r = case.get('r') or case.get('r1')
    return rdepth(r) >= 1 and 'crash' not in obs


def histogram_keys(case, obs):
    k = case['kind']
    r = case.get('r') or case.get('r1')
    keys = [k, 'depth:%d' % rdepth(r), 'root:%s' % r[0]]
    if k in ('sample', 'dec'):
        keys.append('grid:%s' % case['grid_kind'])
        keys.append('build:' + ('error:' + obs['err'] if 'err' in obs else 'crash' if 'crash' in obs else 'ok'))
        if 'built' in obs:
            if any(p['cv'] is not None for p in obs['built']['per']):
                keys.append('reports-constant')
            if any('ok' in p['gs'] and None in p['gs']['ok'] for p in obs['built']['per']):
                keys.append('nan-sample')
            if any('err' in p['gs'] for p in obs['built']['per']):
                keys.append('sampling-error')
    for kk in ('seq', 'multi', 'rep', 'trans', 'subset', 'getsubset', 'arith', 'functor', 'neg', 'rev', 'fromrev',
               'reversed', 'table', 'const', 'func'):
        if has_kind(r, (kk,)):
            keys.append('has:' + kk)
    if k == 'eq' and obs.get('built'):
        keys.append('eq:%s' % obs['eq'])
    if case.get('share'):
        keys.append('shared-objects')
    if case.get('sparse'):
        keys.append('sparse:' + case['sparse'])
    if case.get('family'):
        keys.append('family:' + case['family'].split('/')[0].split(':')[0] if case['family'].startswith(('repr:', 'eq1:', 'spell:'))
                    else 'family:' + case['family'].split('/')[0])
    if case.get('tdtype'):
        keys.append('time-array-dtype:' + case['tdtype'])
    if k == 'hist':
        keys.append('hist-style:' + case.get('style', 'classic'))
        if case.get('arr', 'plain') != 'plain':
            keys.append('arrays:' + case['arr'])
        if case.get('ro'):
            keys.append('arrays:read-only')
        kinds = {op[0] for op in case['ops']}
        for kk in ('new', 'tmp', 'query'):
            if kk in kinds:
                keys.append('hist-op:' + kk)
        if any(op[0] == 'call' and len(op) > 4 for op in case['ops']):
            keys.append('hist-op:reused-output-array')
        if obs.get('realloc', {}).get('same_address'):
            keys.append('time-array-reallocated-at-same-address')
    if has_kind(r, ('linear',)) and _linear_overlap(r):
        keys.append('linear-in-out-overlap')
    return keys


def _linear_overlap(r):
    if not isinstance(r, list):
        return False
    if r and r[0] == 'linear' and set(r[1]) & set(r[2]):
        return True
    return any(_linear_overlap(x) for x in r if isinstance(x, list))


REV = ('rev', 'fromrev', 'reversed')
COMPOSITE = ('seq', 'rep')


def _candidates(case, obs):
    """the known findings whose INPUT CLASS the case belongs to, in the order of preference, each with the Coq function
    (Corr.v) that decides whether the rejected observation is exactly that defect:
      check_excused    model = implementation AND the specification accepts everything except NaN at t = duration / times the
                       junction guard badT excludes / KeyError where the plain composite has kerr
      check_excused_q  the same + any time on the 1/4 grid (final-triple tables)
      check_corr       model = implementation (whole-answer findings: cache, hash)"""
    k = case['kind']
    r = case.get('r') or case.get('r1')
    out = []
    if k == 'dec' or 'crash' in obs or 'hang' in obs:
        return out      # round 4: C08-nested-junction-float-rounding is repaired (55554c3 + e2c868b): nothing is excused any more
    if k == 'hist' and _shadowed_linear_after_producer(r) and not _hist_inplace(case):
        out.append(('C08-trafo-cache-shadowed-byproduct', 'check_corr'))
    if k in ('sample', 'hist') and _has_parallel_before_linear(r) and _has_keyerror(obs):
        out.append(('C08-chain-parallel-linear-keyerror', 'check_excused'))
    if k == 'sample' and has_kind(r, COMPOSITE) and 'built' in obs:
        dur = F(obs['built']['dur'])
        grid = [F(t) for t in case['grid']]
        on = any(t % Q4 == 0 for t in grid)
        if has_kind(r, REV) and on:
            out.append(('C08-reversed-composite-junction', 'check_excused'))
        if dur in grid:
            out.append(('C08-nan-at-duration', 'check_excused'))
    if k == 'hist':
        if has_kind(r, COMPOSITE) and _hist_hits_boundary(case):
            out.append(('C08-reversed-composite-junction' if has_kind(r, REV) else 'C08-nan-at-duration', 'check_excused'))
        if has_kind(r, ('trans',)) and _hist_inplace(case):
            out.append(('C08-trafo-cache-stale-after-inplace-times', 'check_corr'))
    # a from_table table with three entries at ITS final time: any grid point on a multiple of 1/4 can be that time
    # (sequence offsets, reversal map t = 0 to the end of a part); "off" grids never are
    if k == 'sample' and 'built' in obs and _table_final_triple(r) and any(F(t) % Q4 == 0 for t in case['grid']):
        out.append(('C08-table-dedup-final-triple', 'check_excused_q'))
    if k == 'hist' and _table_final_triple(r) and _hist_hits_boundary(case):
        out.append(('C08-table-dedup-final-triple', 'check_excused_q'))
    if k == 'eq' and obs.get('built') and obs.get('eq') and obs.get('hash_eq') is None and has_kind(r, ('functor', 'neg')):
        out.append(('C08-functor-unhashable', 'check_corr'))
    return out


_EXC_FUNCS = ['check_corr', 'check_excused', 'check_excused_q']
_EXC_MEMO = {}       # key -> {function: verdict}
_EXC_PENDING = {}    # key -> (case, obs): collected by py_spec (called for every case before the decision), evaluated in ONE batch
_EXC_STATS = {'evaluated': 0, 'excused': 0, 'refused': 0}


def _exc_key(case, obs):
    return vlib.canonical_hash([case, obs])


def _maybe_rejected(case, obs):
    """cheap necessary condition for "check_spec / py_spec may reject this observation" (only to keep the batch small; a case
    that is rejected without it is evaluated on demand)"""
    k = case['kind']
    r = case.get('r') or case.get('r1')
    if k == 'eq':
        return obs.get('hash_eq') is None
    if k == 'sample':
        if 'built' not in obs:
            return True
        if any('ok' not in p['gs'] or None in p['gs']['ok'] for p in obs['built']['per']):
            return True
        return (has_kind(r, REV) and has_kind(r, COMPOSITE)) or _table_final_triple(r)
    if k == 'hist':
        if any('ok' not in a or None in a['ok'] for a in obs.get('answers', [])) or obs.get('answers') != obs.get('fresh'):
            return True
        return (has_kind(r, REV) and has_kind(r, COMPOSITE)) or _table_final_triple(r)
    return False


def _exc_run(items):
    """items: [(key, case, obs)] -> verdicts of the three Coq functions into _EXC_MEMO (a failing evaluation = refused)"""
    if not items:
        return
    wd = os.path.join(vlib.CASES, 'C08.exc.%d' % os.getpid())
    try:
        res = vlib.run_coq_cases(wd, CORR_IMPORTS, _EXC_FUNCS, [to_coq(c, o) for _, c, o in items], shard=SHARD)
    except Exception:      # noqa
        res = None
    finally:
        vlib.rmtree(wd)
    fails = None if res is None else {f: set(res[f]) for f in _EXC_FUNCS}
    for i, (key, _, _) in enumerate(items):
        _EXC_MEMO[key] = {f: (fails is not None and i not in fails[f]) for f in _EXC_FUNCS}
    _EXC_STATS['evaluated'] += len(items)


def classify(case, obs):
    """id of the known finding a REJECTED case belongs to (see known_findings.d/C08.json), else None.  Round 5: the input
    class alone (a composite below a reversal on an on-grid time ...) is no longer enough: the observation must be exactly
    the known defect as modelled (Corr.v `excused`): a changed implementation inside a finding's input class is a
    VIOLATION, not a known finding."""
    cands = _candidates(case, obs)
    if not cands:
        return None
    key = _exc_key(case, obs)
    if key not in _EXC_MEMO:
        _EXC_PENDING.setdefault(key, (case, obs))
        _exc_run([(k2, c, o) for k2, (c, o) in _EXC_PENDING.items() if k2 not in _EXC_MEMO])
        _EXC_PENDING.clear()
    v = _EXC_MEMO.get(key, {})
    for fid, fn in cands:
        if v.get(fn):
            _EXC_STATS['excused'] += 1
            return fid
    _EXC_STATS['refused'] += 1
    return None


TOL = F(1, 2 ** 30)


def _rchannels(r):
    k = r[0]
    if k == 'table':
        return {r[2]}
    if k in ('const', 'func'):
        return {r[3]}
    if k == 'seq':
        return _rchannels(r[2][0])
    if k == 'multi':
        return set().union(*[_rchannels(x) for x in r[2]])
    if k in ('rep', 'trans', 'functor'):
        return _rchannels(r[2])
    if k == 'arith':
        return _rchannels(r[2]) | _rchannels(r[4])
    if k in ('subset', 'getsubset'):
        return set(r[2])
    if k == 'neg':
        return _rchannels(r[1])
    raise ValueError(k)


def _rdur(r):
    k = r[0]
    if k == 'table':
        return F(r[3][-1][0])
    if k == 'const':
        return F(r[1])
    if k == 'func':
        return F(r[2])
    if k == 'seq':
        return sum((_rdur(x) for x in r[2]), F(0))
    if k == 'multi':
        return _rdur(r[2][0])
    if k == 'rep':
        return _rdur(r[2]) * r[3]
    if k in ('trans', 'functor', 'arith'):
        return _rdur(r[2])
    return _rdur(r[1])


def _shadowed_linear_after_producer(r):
    """a chain in which a LinearTransformation has an output channel that an EARLIER stage can deliver as a by-product
    (a parallel-channel constant or an output of an earlier linear stage)"""
    if not isinstance(r, list):
        return False
    if r and r[0] == 'chain':
        made = set()
        for x in r[1]:
            if x[0] == 'linear' and made & set(x[2]):
                return True
            if x[0] == 'parallel':
                made |= {c for c, _ in x[1]}
            if x[0] == 'linear':
                made |= set(x[2])
    return any(_shadowed_linear_after_producer(x) for x in r if isinstance(x, list))


def _table_final_triple(r):
    """a from_table table whose last three entries share one time"""
    if not isinstance(r, list):
        return False
    if r and r[0] == 'table' and r[1] and len(r[3]) >= 3 and F(r[3][-1][0]) == F(r[3][-2][0]) == F(r[3][-3][0]):
        return True
    return any(_table_final_triple(x) for x in r if isinstance(x, list))


def _has_parallel_before_linear(r):
    if not isinstance(r, list):
        return False
    if r and r[0] == 'chain':
        kinds = [x[0] for x in r[1]]
        if 'parallel' in kinds and 'linear' in kinds and kinds.index('parallel') < len(kinds) - 1 - kinds[::-1].index('linear'):
            return True
    return any(_has_parallel_before_linear(x) for x in r if isinstance(x, list))


def _has_keyerror(obs):
    if 'built' in obs:
        return any(p['gs'].get('err') == 'EKey' and p['us'] is not None for p in obs['built']['per'])
    return any(a.get('err') == 'EKey' for a in obs.get('answers', []))


def _hist_hits_boundary(case):
    return any(any(F(t) % Q4 == 0 for t in ts) for _, _, ts, _ in hist_calls(case))


def _hist_inplace(case):
    """some array object is used by a call, then gets new content in place (same object), then is used again"""
    seen = {}
    for c, ident, ts, _ in hist_calls(case):
        if ident in seen and seen[ident] != ts:
            return True
        seen.setdefault(ident, ts)
    return False


def py_spec(case, obs):
    if 'crash' in obs or 'hang' in obs:
        return None
    if _maybe_rejected(case, obs) and _candidates(case, obs):
        _EXC_PENDING.setdefault(_exc_key(case, obs), (case, obs))     # for classify: evaluated in one batch
    if obs.get('mutated'):
        return 'the sampler changed the content of the time array it was given'
    if obs.get('aliased'):
        return 'the samples returned by get_sampled share memory with the time array the caller handed over'
    if obs.get('api'):
        return 'waveform API contract: ' + '; '.join(obs['api'][:3])
    if case['kind'] == 'eq' and obs.get('built') and obs.get('eq') and obs.get('same') is False:
        return 'two waveforms compare equal but differ in channels / duration / constant_value / samples'
    if case['kind'] == 'hist':
        for i, (a, f) in enumerate(zip(obs['answers'], obs['fresh'])):
            if a != f:
                return 'call %d of the history answers %r, a fresh waveform with a fresh array answers %r' % (i, a, f)
        for i, q in enumerate(obs.get('queries', [])):
            if not q:
                return 'read-only query %d of the history is answered differently by the used object and by a fresh one' % i
    return None


# ---------------------------------------------------------------------------------------------------------------------
# shrinking and the search for an input on which the PROPERTY fails (oracle: check_spec in Coq + py_spec; never the model)

WF_KINDS = ('table', 'const', 'func', 'seq', 'multi', 'rep', 'trans', 'subset', 'getsubset', 'arith', 'functor', 'neg', 'rev',
            'fromrev', 'reversed')


def _children(r):
    k = r[0]
    if k in ('seq', 'multi'):
        return [(('l', i), x) for i, x in enumerate(r[2])]
    if k in ('rep', 'trans', 'functor'):
        return [((2,), r[2])]
    if k == 'arith':
        return [((2,), r[2]), ((4,), r[4])]
    if k in ('subset', 'getsubset', 'neg', 'rev', 'fromrev', 'reversed'):
        return [((1,), r[1])]
    return []


def _with_child(r, pos, x):
    r = list(r)
    if pos[0] == 'l':
        r[2] = list(r[2])
        r[2][pos[1]] = x
    else:
        r[pos[0]] = x
    return r


def _reductions(r, depth=0):
    """smaller recipes: a child instead of the node, a simpler node, the node with one child reduced"""
    k = r[0]
    out = [x for _, x in _children(r)]
    if k in ('seq', 'multi'):
        if len(r[2]) > 2:
            out += [[k, r[1], r[2][:i] + r[2][i + 1:]] for i in range(len(r[2]))]
        if r[1]:
            out.append([k, False, r[2]])
    if k == 'rep':
        out += [['rep', r[1], r[2], n] for n in sorted({1, 2, r[3] - 1}) if 1 <= n < r[3]]
    if k in ('rep', 'trans', 'functor', 'arith', 'table') and r[1]:
        out.append([k, False] + list(r[2:]))
    if k == 'table' and len(r[3]) > 2:
        for i in range(1, len(r[3])):
            ent = r[3][:i] + r[3][i + 1:]
            # keep the generators' exactness precondition: linear segments have power-of-two lengths (in units of 1/4)
            if all(e[2] != 'l' or _pow2_quarters(F(e[0]) - F(p[0])) for p, e in zip(ent, ent[1:])):
                out.append(['table', r[1], r[2], ent])
    if k == 'trans':
        T = r[3]
        if T[0] == 'chain':
            out += [['trans', r[1], r[2], x] for x in T[1]]
            if len(T[1]) > 1:
                out += [['trans', r[1], r[2], ['chain', T[1][:i] + T[1][i + 1:]]] for i in range(len(T[1]))]
        elif T[0] in ('scale', 'offset', 'parallel') and len(T[1]) > 1:
            out += [['trans', r[1], r[2], [T[0], T[1][:i] + T[1][i + 1:]]] for i in range(len(T[1]))]
        if T[0] in ('scale', 'offset', 'parallel'):
            out += [['trans', r[1], r[2], [T[0], [[c, ['c', tv[1]]] if tv[0] == 't' else [c, tv] for c, tv in T[1]]]]
                    for _ in (0,) if any(tv[0] == 't' for _, tv in T[1])]
    if k in ('getsubset',):
        out.append(['subset', r[1], r[2]])
    if k in ('fromrev', 'reversed'):
        out.append(['rev', r[1]])
    if depth < 6:
        for pos, x in _children(r):
            out += [_with_child(r, pos, y) for y in _reductions(x, depth + 1)]
    return out


def _pow2_quarters(d):
    n = d / Q4
    return n == 0 or (n.denominator == 1 and n.numerator > 0 and n.numerator & (n.numerator - 1) == 0)


def _exact_obs(obs):
    """every number the implementation answered is a binary fraction with a small denominator (float arithmetic was
    exact): a shrunk case must not fail merely because it left the exactly representable inputs"""
    def ok(x):
        if isinstance(x, str):
            try:
                q = F(x)
            except (ValueError, ZeroDivisionError):
                return True
            return q.denominator & (q.denominator - 1) == 0 and q.denominator <= 2 ** 24
        if isinstance(x, dict):
            return all(ok(v) for v in x.values())
        if isinstance(x, (list, tuple)):
            return all(ok(v) for v in x)
        return True
    return ok(obs)


def _size(case):
    return len(json.dumps(case, sort_keys=True))


def _smaller(case):
    import copy
    out = []
    k = case['kind']
    def with_recipe(key, r2):
        c = copy.deepcopy(case)
        c[key] = r2
        try:
            d = _rdur(r2)
        except Exception:
            return None
        if k in ('sample', 'dec'):
            c['grid'] = [t for t in c['grid'] if F(t) <= d] or ['0']
        if k == 'hist':
            for op in c['ops']:
                if op[0] in ('set', 'new', 'tmp'):
                    op[2] = [t for t in op[2] if F(t) <= d] or ['1/16']
            c['dur'] = fs(d)
        return c
    for key in ('r', 'r1', 'r2'):
        if key in case:
            for r2 in _reductions(case[key]):
                c = with_recipe(key, r2)
                if c is not None:
                    out.append(c)
    if k in ('sample', 'dec'):
        g = case['grid']
        if len(g) > 1:
            out += [dict(case, grid=[t]) for t in g]
            out += [dict(case, grid=g[:len(g) // 2]), dict(case, grid=g[len(g) // 2:])]
            out += [dict(case, grid=g[:i] + g[i + 1:]) for i in range(len(g))]
        if len(case['chans']) > 1:
            out += [dict(case, chans=[c]) for c in case['chans']]
    if k == 'hist':
        ops = case['ops']
        for i in range(len(ops)):
            rest = ops[:i] + ops[i + 1:]
            ok, have = True, set()
            for op in rest:
                if op[0] in ('set', 'new'):
                    have.add(op[1])
                elif op[0] == 'call' and op[2] not in have:
                    ok = False
            if ok and any(op[0] in ('call', 'tmp') for op in rest):
                out.append(dict(case, ops=rest))
        for i, op in enumerate(ops):
            if op[0] in ('set', 'new', 'tmp') and len(op[2]) > 1:
                for keep in (op[2][:1], op[2][-1:], op[2][:len(op[2]) // 2]):
                    o2 = list(op)
                    o2[2] = keep
                    out.append(dict(case, ops=ops[:i] + [o2] + ops[i + 1:]))
            if op[0] == 'call' and len(op) > 4:
                out.append(dict(case, ops=ops[:i] + [op[:4]] + ops[i + 1:]))
        for flag, val in (('arr', 'plain'), ('ro', False)):
            if case.get(flag) not in (None, val):
                out.append(dict(case, **{flag: val}))
    if case.get('share'):
        out.append(dict(case, share=False))
    seen, res = set(), []
    for c in sorted(out, key=_size):
        h = vlib.canonical_hash(c)
        if h not in seen and _size(c) < _size(case):
            seen.add(h)
            res.append(c)
    return res


def _spec_failures(cases, ctx, tag):
    """(observations, indices on which the property fails: check_spec evaluated in Coq on the implementation's answer, and
    py_spec).  When the Coq side cannot be evaluated (broken build) only py_spec and crashes count."""
    obs = []
    for c in cases:
        try:
            obs.append(run_impl(c))
        except Exception as e:     # noqa
            obs.append({'crash': '%s: %s' % (type(e).__name__, str(e)[:200])})
    bad = set(i for i, o in enumerate(obs) if 'crash' in o or 'hang' in o)
    bad |= set(i for i, (c, o) in enumerate(zip(cases, obs)) if i not in bad and py_spec(c, o))
    try:
        terms = [to_coq(c, o) for c, o in zip(cases, obs)]
        wd = os.path.join((ctx or {}).get('workdir') or os.path.join(vlib.CASES, 'C08.search'), tag)
        res = vlib.run_coq_cases(wd, CORR_IMPORTS, [CHECK_SPEC] + _EXC_FUNCS, terms, shard=SHARD)
        bad |= set(res[CHECK_SPEC])
        for i, (c, o) in enumerate(zip(cases, obs)):       # verdicts for classify
            if i in bad and _candidates(c, o):
                _EXC_MEMO[_exc_key(c, o)] = {f: i not in res[f] for f in _EXC_FUNCS}
    except RuntimeError:
        pass
    return obs, sorted(bad)


def shrink(case, obs, ctx):
    """a smaller case on which the property still fails in the same way (same classification, crash stays crash)"""
    cur, cur_obs = case, obs
    cls = classify(case, obs)
    crashed = 'crash' in obs or 'hang' in obs
    exact = _exact_obs(obs)
    for rnd in range(8):
        cands = _smaller(cur)[:70]
        if not cands:
            break
        o, bad = _spec_failures(cands, ctx, 'shrink%d' % rnd)
        bad = [i for i in bad if classify(cands[i], o[i]) == cls and (('crash' in o[i] or 'hang' in o[i]) == crashed)
               and (cur['kind'] == 'dec' or not exact or _exact_obs(o[i]))]
        if not bad:
            break
        i = min(bad, key=lambda j: _size(cands[j]))
        cur, cur_obs = cands[i], o[i]
    return cur, cur_obs


def search_failing(ctx, broken):
    """an input on which the PROPERTY itself fails on the implementation (not merely model != implementation), preferably
    near ctx['near'] (the case on which model and implementation disagree): the same recipe on other grids / as a
    history / with shared objects, smaller recipes, then fresh random cases of every family"""
    import copy
    import random
    rng = ctx.get('rng') or random.Random(0)
    near = ctx.get('near')
    cands = []
    if near is not None and ('r' in near or 'r1' in near):
        r = near.get('r') or near['r1']
        try:
            dur, chans = _rdur(r), sorted(c for c in _rchannels(r) if c < len(CH))
        except Exception:
            dur, chans = None, None
        cands.append(near)
        if dur is not None and chans and dur >= Q4:
            gs = grids_for(rng, dur)
            for gk in ('off', 'on', 'end'):
                for share in (False, True):
                    cands.append({'kind': 'sample', 'grid_kind': gk, 'r': r, 'grid': [fs(t) for t in gs[gk]], 'chans': chans,
                                  'share': share})
            n16 = int(dur * 16)
            for t in sorted({dur - F(1, 16), F(1, 16), dur / 2 + F(1, 16)}):
                if 0 <= t <= dur:
                    cands.append({'kind': 'sample', 'grid_kind': 'sparse', 'r': r, 'grid': [fs(t)], 'chans': chans, 'sparse': 'late1'})
            cands.append({'kind': 'sample', 'grid_kind': 'off', 'r': r, 'grid': [fs(i * F(1, 16)) for i in range(n16) if i % 4],
                          'chans': chans})
            if n16 > 4:
                for style in ('tmp', 'realloc', 'outreuse', 'query', 'mixed'):
                    for share in (False, True):
                        cands.append(dict(gen_alias_history(rng, dur, chans, style), r=r, share=share))
                cands.append({'kind': 'hist', 'r': r, 'ops': gen_history(rng, dur, chans), 'dur': fs(dur)})
            cands.append({'kind': 'eq', 'r1': r, 'r2': r})
            cands.append({'kind': 'eq', 'r1': r, 'r2': flip_opt(r, True)})
        cands += _smaller(near)[:40]
    fresh = gen_cases(random.Random(rng.randrange(1 << 30)), 'quick', ctx)
    rng.shuffle(fresh)
    cands += fresh[:(350 if near is not None else 600)]
    obs, bad = _spec_failures(cands, ctx, 'search')
    known = vlib.load_known_findings()[0].get(PID, {})
    bad = [i for i in bad if classify(cands[i], obs[i]) not in known and (cands[i]['kind'] == 'dec' or _exact_obs(obs[i]))]
    if not bad:
        return None
    i = min(bad, key=lambda j: _size(cands[j]))
    c, o = shrink(cands[i], obs[i], ctx)
    why = py_spec(c, o) or ('crash: %s' % str(o.get('crash'))[:200] if 'crash' in o else
                            'the specification oracle (check_spec: channels / duration / every sample = denotation of the plain '
                            'composite / reported constants) rejects what the implementation answers on this input')
    return c, o, why
