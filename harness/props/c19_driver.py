"""C19 helper — runs the REAL bookkeeping of qupulse/hardware/awgs/tabor.py::TaborChannelPair offline.

`tabor_control` is not installed, so the module is imported against an empty stand-in package; the instrument is
replaced by `FakeDevice`, an abstract waveform memory (slot -> content tag) that interprets the few SCPI commands the
bookkeeping sends (:TRAC:SEL, :TRAC:DATA, TRAC:DEL, :TRAC:DEL:ALL).  Sampling (`TaborProgram`, `make_compatible`,
`make_combined_wave`) is replaced by stand-ins that carry the segment hashes and lengths chosen by the generator.
Everything between `upload()`'s call of `get_sampled_segments()` and its last line, `free_program`, `cleanup`,
`remove`, `clear`, `_upload_segment`, `_amend_segments` is the code of /repo, unmodified.
"""
import re
import sys
import types


class Seg:
    """stand-in for TaborSegment: a hash and a length"""
    def __init__(self, h, n):
        self.h, self.num_points = h, n

    def __hash__(self):
        return self.h

    def __eq__(self, other):
        return isinstance(other, Seg) and (self.h, self.num_points) == (other.h, other.num_points)

    def get_as_binary(self):
        return ('seg', self.h)


class FakeDevice:
    """abstract instrument: waveform memory slot number (1-based) -> content tag"""
    def __init__(self, total):
        self.dev_properties = {'max_arb_mem': 2 * total}
        self.mem = {}
        self.deflen = {}          # slot number -> defined length (:TRAC:DEF / download_segment_lengths), round 4
        self.flushes = 0          # number of download_segment_lengths calls
        self.defs = 0             # number of :TRAC:DEF commands
        self.sel = None
        self.is_open = True

    # --- what the bookkeeping calls
    def send_cmd(self, cmd, paranoia_level=None):
        for part in cmd.split(';'):
            part = part.strip()
            m = re.fullmatch(r':?TRAC:SEL (\d+)', part)
            if m:
                self.sel = int(m.group(1))
                continue
            m = re.fullmatch(r':?TRAC:DEF (\d+), ?(\d+)', part)
            if m:
                self.deflen[int(m.group(1))] = int(m.group(2))
                self.defs += 1
                continue
            m = re.fullmatch(r':?TRAC:DEL (\d+)', part)
            if m:
                self.mem.pop(int(m.group(1)), None)
                self.deflen.pop(int(m.group(1)), None)
                continue
            if part in (':TRAC:DEL:ALL', 'TRAC:DEL:ALL'):
                self.mem = {}
                self.deflen = {}

    def download_segment_lengths(self, seg_len_list, pref=':SEGM:DATA', paranoia_level=None):
        # the segment-length table of the instrument: slot k+1 := seg_len_list[k] for ALL k
        self.flushes += 1
        for k, n in enumerate(seg_len_list):
            self.deflen[k + 1] = int(n)

    _download_segment_lengths = download_segment_lengths      # name used by the feature driver

    def send_binary_data(self, pref=None, bin_dat=None, **kw):
        if pref != ':TRAC:DATA':
            return
        if bin_dat[0] == 'seg':
            self.mem[self.sel] = bin_dat[1]
        else:                                   # combined wave: consecutive slots starting at the selected one
            for k, h in enumerate(bin_dat[1]):
                self.mem[self.sel + k] = h

    def send_query(self, *a, **k):
        return '1'

    def sample_rate(self, ch):
        return 10 ** 9

    def amplitude(self, ch):
        return 1.0

    def offset(self, ch):
        return 0.0

    def __getattr__(self, name):            # everything else (select_channel, download_segment_lengths, ...) is a no-op
        if name.startswith('__'):
            raise AttributeError(name)
        return lambda *a, **k: None


class CombinedWave(tuple):
    """('combined', [hashes]) whose len() is twice the number of points, as _amend_segments expects"""
    def __new__(cls, hashes, points):
        self = super().__new__(cls, ('combined', list(hashes)))
        self.points = points
        return self

    def __len__(self):
        return 2 * self.points


class _Stub(types.ModuleType):
    """empty stand-in module: every attribute is a fresh empty class (only used in annotations / base classes)"""
    def __getattr__(self, n):
        if n.startswith('__'):
            raise AttributeError(n)
        t = type(n, (), {})
        setattr(self, n, t)
        return t


def _stub_modules():
    for name in ('tabor_control', 'tabor_control.device', 'pyvisa', 'pyvisa.resources'):
        if name not in sys.modules:
            sys.modules[name] = _Stub(name)
    sys.modules['tabor_control'].device = sys.modules['tabor_control.device']
    sys.modules['pyvisa'].resources = sys.modules['pyvisa.resources']


def load_driver_module():
    _stub_modules()
    import importlib
    return importlib.import_module('qupulse.hardware.awgs.tabor')


def load_feature_module():
    """qupulse/hardware/feature_awg/tabor.py (second Tabor driver; own copy of the placement as a method)"""
    _stub_modules()
    import importlib
    return importlib.import_module('qupulse.hardware.feature_awg.tabor')


class FakeDeviceF(FakeDevice):
    """the same abstract instrument behind the interface the feature driver uses (device[SCPI].send_cmd, ...)"""
    def __init__(self, total):
        super().__init__(total)
        ch = types.SimpleNamespace(_select=lambda: None, idn=1)
        self.channels = [ch, ch]
        self.channel_tuples = [types.SimpleNamespace(sample_rate=10 ** 9)]
        self.name = 'fake'

    def __getitem__(self, feature):
        return self

    def _send_binary_data(self, bin_dat=None, **kw):
        return self.send_binary_data(pref=':TRAC:DATA', bin_dat=bin_dat)


def make_tuple_feature(F, total):
    """TaborChannelTuple + TaborProgramManagement of feature_awg/tabor.py without an instrument"""
    from qupulse.hardware.feature_awg.base import AWGChannelTuple
    from qupulse.hardware.feature_awg.features import AmplitudeOffsetHandling, VoltageRange
    dev = FakeDeviceF(total)

    class Ch:
        idn = 1
        _amplitude_offset_handling = AmplitudeOffsetHandling.IGNORE_OFFSET

        def _select(self):
            pass

        def __getitem__(self, feature):
            return types.SimpleNamespace(amplitude=1.0, offset=0.0)
    ct = F.TaborChannelTuple.__new__(F.TaborChannelTuple)
    AWGChannelTuple.__init__(ct, 1)
    ct._device = lambda: dev
    ct._configuration_guard_count = 0
    ct._is_in_config_mode = True
    ct._channels = (Ch(), Ch())
    ct._marker_channels = (Ch(), Ch())
    ct._idle_segment = Seg(0, 192)
    ct._known_programs = dict()
    ct._current_program = None
    ct._segment_lengths = ct._segment_capacity = ct._segment_hashes = ct._segment_references = None
    ct._sequencer_tables = ct._advanced_sequence_table = None
    ct._internal_paranoia_level = 0
    ct._exit_config_mode = lambda: None
    pm = F.TaborProgramManagement(ct)
    ct.add_feature(pm)
    pm._change_armed_program = lambda name: None     # sequencer tables are outside the property
    # outside the property: upload() ends with set_repetition_mode(RepetitionMode.INFINITE), which compares the enum
    # with the strings "infinite"/"once" and raises ValueError after the program has been registered
    pm.set_repetition_mode = lambda *a, **k: None
    pm.clear()
    return ct, pm, dev


# dtype of the lengths FakeTaborProgram.get_sampled_segments() delivers.  The real TaborProgram._calc_sampled_segments
# returns np.array(segment_lengths, dtype=np.uint64); until round 4 the stand-in delivered uint32.  'list' = python list.
LEN_DTYPE = 'u8'


class FakeTaborProgram:
    def __init__(self, program, **kw):
        self.segs = program

    def get_sampled_segments(self):
        import numpy as np
        lens = [n for _, n in self.segs]
        return [Seg(h, n) for h, n in self.segs], (lens if LEN_DTYPE == 'list' else np.asarray(lens, dtype=np.dtype(LEN_DTYPE)))


def make_pair(T, total):
    from qupulse.hardware.awgs.base import AWGAmplitudeOffsetHandling
    dev = FakeDevice(total)
    cp = T.TaborChannelPair.__new__(T.TaborChannelPair)
    cp._identifier = 'fake'
    cp._amplitude_offset_handling = AWGAmplitudeOffsetHandling.IGNORE_OFFSET
    cp._device = lambda: dev
    cp._configuration_guard_count = 0
    cp._is_in_config_mode = True          # no enter/exit of the configuration mode
    cp._channels = (1, 2)
    cp._idle_segment = Seg(0, 192)
    cp._idle_sequence_table = [(1, 1, 0), (1, 1, 0), (1, 1, 0)]
    cp._known_programs = dict()
    cp._current_program = None
    cp._segment_lengths = cp._segment_capacity = cp._segment_hashes = cp._segment_references = None
    cp._sequencer_tables = cp._advanced_sequence_table = None
    cp._internal_paranoia_level = 0
    cp.change_armed_program = lambda name: None     # sequencer tables are outside the property
    cp.clear()
    return cp, dev


def snapshot(cp, dev):
    n = len(cp._segment_hashes)
    return {
        'hashes': [int(x) for x in cp._segment_hashes.tolist()],
        'caps': [int(x) for x in cp._segment_capacity.tolist()],
        'refs': [int(x) for x in cp._segment_references.astype('int64').tolist()],
        'progs': sorted([int(name), [int(x) for x in p.waveform_to_segment.tolist()],
                         [int(h) for h, _ in p.program.segs]] for name, p in cp._known_programs.items()),
        # device content of the slots the driver believes to exist (None = nothing was ever written / deleted)
        'dev': [dev.mem.get(i + 1) for i in range(n)],
        'dev_extra': sorted(k for k in dev.mem if k > n),
        # round 4: _segment_lengths, the instrument's defined lengths of the slots the driver believes to exist, the
        # lengths of the programs' segments (same order as 'progs')
        'lens': [int(x) for x in cp._segment_lengths.tolist()],
        'devlen': [dev.deflen.get(i + 1) for i in range(n)],
        'devlen_extra': sorted(k for k in dev.deflen if k > n),
        'plens': [pl for _, pl in sorted((int(name), [int(l) for _, l in p.program.segs])
                                         for name, p in cp._known_programs.items())],
    }


def run_history(total, ops, driver='awgs', len_dtype='u8'):
    """apply ops = [['upload', name, [[hash, len], ...], force] | ['free', name] | ['remove', name] | ['cleanup'] |
    ['clear']] to a fresh channel pair (driver='awgs': hardware/awgs/tabor.py::TaborChannelPair; 'feature':
    hardware/feature_awg/tabor.py::TaborChannelTuple + TaborProgramManagement); one observation per operation"""
    import warnings
    global LEN_DTYPE
    LEN_DTYPE = len_dtype
    feature = driver == 'feature'
    T = load_feature_module() if feature else load_driver_module()
    saved = (T.TaborProgram, T.make_compatible, T.make_combined_wave)
    T.TaborProgram = FakeTaborProgram
    T.make_compatible = lambda *a, **k: None
    T.make_combined_wave = lambda segments: CombinedWave([s.h for s in segments],
                                                         sum(s.num_points + 16 for s in segments) - 16)
    out = []
    try:
        if feature:
            cp, pm, dev = make_tuple_feature(T, total)
        else:
            cp, dev = make_pair(T, total)
            pm = cp
        # round 5: the property's observation point inside a history — the decision the driver obtains from
        # _find_place_for_segments_in_memory, together with the driver's OWN arrays at the moment of the call (not the
        # arguments it chose to pass on).  The method itself is /repo's; the wrapper only records.
        decisions = []
        orig_place = cp._find_place_for_segments_in_memory

        def recording_place(segments, segment_lengths):
            rec = {'hashes': [int(x) for x in cp._segment_hashes.tolist()],
                   'refs': [int(x) for x in cp._segment_references.astype('int64').tolist()],
                   'caps': [int(x) for x in cp._segment_capacity.tolist()],
                   'new_hashes': [int(hash(sg)) for sg in segments],
                   'new_lens': [int(sg.num_points) for sg in segments]}
            decisions.append(rec)
            ret = orig_place(segments, segment_lengths)
            w, a, i = ret
            rec['ret'] = [[int(x) for x in w.tolist()], [bool(x) for x in a.tolist()], [int(x) for x in i.tolist()]]
            return ret
        cp._find_place_for_segments_in_memory = recording_place
        for op in ops:
            err = None
            del decisions[:]
            try:
                with warnings.catch_warnings():
                    warnings.simplefilter('ignore')
                    if op[0] == 'upload' and feature:
                        pm.upload(op[1], [tuple(s) for s in op[2]], (1, 2), (None, None), (None, None),
                                  repetition_mode='infinite', force=bool(op[3]))
                    elif op[0] == 'upload':
                        cp.upload(op[1], [tuple(s) for s in op[2]], (1, 2), (None, None), (None, None), force=bool(op[3]))
                    elif op[0] == 'free':
                        cp.free_program(op[1])
                    elif op[0] == 'remove':
                        pm.remove(op[1])
                    elif op[0] == 'cleanup':
                        cp.cleanup()
                    elif op[0] == 'clear':
                        pm.clear()
                    else:
                        raise ValueError(op)
            except (RuntimeError, MemoryError) as e:     # the feature driver's copy raises MemoryError
                msg = ' '.join(str(a) for a in e.args)
                err = 'Fragmentation' if 'ragmentation' in msg else 'NotEnoughMemory' if 'nough' in msg else 'Refused'
            except KeyError:
                err = 'UnknownProgram'
            except ValueError as e:
                msg = str(e)
                err = ('AlreadyKnown' if 'already known' in msg else 'RefCountNotZero' if 'Reference count' in msg
                       else 'TooLarge' if 'Cannot upload' in msg else 'ValueError')
            except IndexError:
                err = 'BadIndex'
            snap = snapshot(cp, dev)
            snap['err'] = err
            snap['flushes'], snap['defs'] = dev.flushes, dev.defs
            snap['decisions'] = [dict(d) for d in decisions]
            out.append(snap)
    finally:
        T.TaborProgram, T.make_compatible, T.make_combined_wave = saved
    return out
