"""C05 — compilation options (to_single_waveform, global_transformation) and convenience constructors never change
what is played."""
import copy
import fractions
import itertools
import json
import os

import vlib
from vlib import gZ, gN, gQ, gbool, glist

from props import c05_impl as I

F = fractions.Fraction
PID = 'C05'
COQ_DIRS = ['common', 'C05']
TARGETS = ['C05/Props.vo', 'C05/Corr.vo']
MODEL_TARGETS = ['C05/Corr.vo']
PROPS_FILE = 'C05/Props.v'
PROPS_MODULE = 'QV.C05.Props'
CORR_IMPORTS = ['QV.C05.Model', 'QV.C05.Param', 'QV.C05.Corr']
CHECK_CORR = 'check_corr'
CHECK_SPEC = 'check_spec'
SHARD = 60
RULE = ('template trees over ConstantPT/TablePT/FunctionPT atoms and AtomicMultiChannelPT of them (hold/linear/jump, 1-2 '
        'channels), MappingPT measurement renaming, with SequencePT, RepetitionPT '
        '(count 0..3), ForLoopPT (positive/negative/empty ranges, index-dependent values and durations), MappingPT '
        '(channel renaming), ParallelChannelPT (overwrite / add channel), ArithmeticPT (scalar, + - * /, both operand '
        'orders, per-channel dict), TimeReversalPT, measurement declarations on atoms/sequences/repetitions/loops; '
        'x subsets of nodes passed as to_single_waveform by identifier or by object (thorough: all 2^k subsets, k<=6) '
        'x global transformation in {None, offset, scaling, parallel-channel, linear, chain}; observation = leaf-walk '
        'samples on the grid of all ticks (every junction is a grid point), sorted windows, duration, for the option '
        'run and the plain run; plus convenience constructors (@, concatenate, with_repetition/**, with_mapping '
        'chains incl. measurement names, with_parallel_channels chains, with_parallel_atomic, with_time_reversal twice, '
        'with_iteration, pad_to, with_appended) '
        'against the explicit nesting.  Round 3: MappingPT PARAMETER mappings (a name rebound to an expression of itself, '
        'swaps, top-level parameters), family `rebind` (loop index rebound between ForLoopPT and the reader with every '
        'builder feature in between), family `shape` (collapsed single transformed leaf + outer transformation; '
        'wait-pulse-wait), aliasing (`share`: equal sub-trees are one object) and stateful (`reuse`: same objects '
        'compiled plain / with options / plain again) variants.  Round 5: family `receiver` (every convenience helper '
        'applied ONCE to a receiver of every template class, asymmetric measurement windows), windows on collapsed composites '
        'below a reversal.  Round 6: family `exprattr` (with_repetition / ** on repetition counts that are sums / differences '
        'of top-level parameters with a number / ExpressionScalar / string as outer count, pad_to on durations that are sums '
        'of parameter expressions to a number / expression / callable).  Non-trivial = at least 2 nodes and (non-empty effective set or a '
        'transformation or a constructor case); distinct = distinct canonical JSON.')
TRUSTED = [
    'Coq 8.16.1 kernel + vm_compute (no native_compute)',
    'harness: generators, JSON -> real template builder, JSON -> Gallina printer (syntactic: expressions, loops, '
    'parameter mappings and AtomicMultiChannelPT nesting are printed as they stand; the MODEL evaluates, unrolls and '
    'flattens), describe() reading built templates back, leaf-walk sampler, exact float->rational conversion',
    'sympy/numpy evaluate the generated constant and affine index expressions exactly (dyadic values)',
    'structural equality of templates (Serializable.__eq__) coincides with equality of the generated descriptions',
]
ASSUMPTIONS = [
    'times are integer multiples of the sampling step (model time = Z ticks); voltages dyadic so numpy is exact',
    'global transformations and arithmetic scalars are time independent',
    'TablePT channels start at t=0, end at a common time and are either all-equal or consecutive-different in value '
    '(the constant-detection defect of TableWaveform._validate_input belongs to C01/C08)',
    'get_sampled\'s per-channel constant short-cut is modelled only for whether it raises KeyError (cvalue); its values '
    'cannot be observed on [0, duration)',
    'parameter expressions are affine in loop indices / top-level parameters; every referenced parameter is provided; '
    'parameter constraints and volatile parameters are not modelled',
    'repetition counts are numbers in the model; an expression-valued count occurs only at the top of a constructor '
    'operand (family exprattr) and is evaluated by the harness at the case\'s top-level parameters',
    'generated durations are positive whole numbers of ticks under every scope that reaches them (cases where a '
    'parameter mapping makes a duration fractional or negative are filtered out by the harness)',
    'a global LinearTransformation reads channels the template defines, or none of them (then it forwards everything, '
    'see the finding linear_inputs_absent); a LinearTransformation that finds only SOME of its inputs is not an '
    'accepted input (every path raises KeyError)',
]

CH = {'A': 1, 'B': 2, 'C': 3, 'X': 4, 'Y': 5, 'Z': 6}
MN = {'m': 1, 'n': 2, 'k': 3}
STEPS = ['1', '1/2', '1/4']


# ---------------------------------------------------------------------------------------------------------------------
# generators (all times below are integer ticks; `real` multiplies by the step)

def _fr(x):
    return vlib.frac_json(F(x))


class Gen:
    def __init__(self, rng, step, names=True):
        self.rng = rng
        self.step = F(step)
        self.counter = 0
        self.names = names

    def tm(self, ticks):
        return _fr(F(ticks) * self.step)

    def tmx(self, ticks, idx, k):
        if idx is None or k == 0:
            return self.tm(ticks)
        return [self.tm(ticks), idx, self.tm(k)]

    def val(self):
        return F(self.rng.randint(-6, 6), 2)

    def ident(self, p=0.45):
        if not self.names or self.rng.random() > p:
            return None
        if self.counter and self.rng.random() < 0.08:
            return 'n%d' % self.rng.randint(1, self.counter)      # duplicate identifier on purpose
        self.counter += 1
        return 'n%d' % self.counter

    def meas(self, dur_ticks, p=0.3):
        out = []
        while self.rng.random() < p and len(out) < 2:
            b = self.rng.randint(0, max(0, dur_ticks))
            out.append([self.rng.choice(['m', 'n']), self.tm(b), self.tm(self.rng.randint(0, 2))])
        return out

    def atom(self, chans, idxs):
        """ConstantPT / TablePT / FunctionPT, or an AtomicMultiChannelPT of such atoms on disjoint channels"""
        rng = self.rng
        if rng.random() < 0.18:
            total = rng.choice([2, 4])
            chans = list(chans)
            if len(chans) > 1 and rng.random() < 0.3:
                groups = [chans]
            else:
                groups = [[c] for c in chans]
            return {'k': 'amc', 'id': self.ident(), 'meas': self.meas(total),
                    'subs': [self.simple_atom(g, idxs, total) for g in groups]}
        return self.simple_atom(chans, idxs)

    def simple_atom(self, chans, idxs, total=None):
        rng = self.rng
        idx = rng.choice(idxs) if idxs and rng.random() < 0.7 else None
        if len(chans) == 1 and rng.random() < 0.22:
            d = total or rng.randint(1, 4)
            a = F(rng.choice([-2, -1, -1, 1, 1, 2, 0, F(1, 2)]))           # slope per tick (0: a ConstantWaveform)
            b = self.val()
            dv = F(rng.randint(-2, 2), 2) if idx else 0
            return {'k': 'func', 'id': self.ident(), 'ch': chans[0], 'dur': self.tm(d), 'a': _fr(a / self.step),
                    'b': [_fr(b), idx, _fr(dv)] if dv else _fr(b), 'meas': self.meas(d)}
        if rng.random() < 0.5:
            d = total or rng.randint(1, 3)
            dk = rng.choice([0, 0, 1]) if idx and not total else 0
            vals = {}
            for c in chans:
                v = self.val()
                dv = F(rng.randint(-2, 2), 2)
                vals[c] = [_fr(v), idx, _fr(dv)] if idx and dv and rng.random() < 0.7 else _fr(v)
            return {'k': 'const', 'id': self.ident(), 'dur': self.tmx(d, idx, dk), 'vals': vals, 'meas': self.meas(d)}
        total = total or rng.choice([2, 4])
        comps = {2: [[2], [1, 1]], 4: [[4], [2, 2], [1, 1, 2], [2, 1, 1], [1, 2, 1], [1, 1, 1, 1]]}[total]
        entries = {}
        for c in chans:
            segs = rng.choice(comps)
            dv = F(rng.randint(-2, 2), 2) if idx and rng.random() < 0.6 else 0
            const = rng.random() < 0.15
            v = self.val()
            t = 0
            es = [[self.tm(0), [_fr(v), idx, _fr(dv)] if dv else _fr(v), 'hold']]
            for s in segs:
                t += s
                if not const:
                    v = v + rng.choice([-2, -1, -F(1, 2), F(1, 2), 1, 2])
                es.append([self.tm(t), [_fr(v), idx, _fr(dv)] if dv else _fr(v), rng.choice(['hold', 'linear', 'jump'])])
            entries[c] = es
        return {'k': 'table', 'id': self.ident(), 'entries': entries, 'meas': self.meas(total)}

    def tree(self, depth, chans, idxs=(), kinds=None):
        rng = self.rng
        idxs = list(idxs)
        if depth <= 0 or rng.random() < 0.15:
            return self.atom(chans, idxs)
        kinds = kinds or ['seq', 'seq', 'seq', 'rep', 'for', 'map', 'par', 'arith', 'rev', 'rev']
        k = rng.choice(kinds)
        if k == 'seq':
            n = rng.choice([1, 2, 2, 3])
            subs = []
            for _ in range(n):
                if subs and rng.random() < 0.12:
                    subs.append(copy.deepcopy(rng.choice(subs)))     # the same sub-template twice (aliasing when shared)
                else:
                    subs.append(self.tree(depth - 1, chans, idxs))
            return {'k': 'seq', 'id': self.ident(), 'meas': self.meas(3), 'subs': subs}
        if k == 'rep':
            return {'k': 'rep', 'id': self.ident(), 'meas': self.meas(3), 'n': rng.choice([0, 1, 2, 2, 3]),
                    'body': self.tree(depth - 1, chans, idxs)}
        if k == 'for':
            free = [n for n in 'ijl' if n not in idxs]
            if not free:
                return self.atom(chans, idxs)
            name = free[0]
            r = rng.choice([[0, 2, 1], [0, 3, 1], [1, 3, 1], [2, 0, -1], [0, 4, 2], [3, -1, -2], [0, 0, 1], [2, 1, 1],
                            [0, 1, 1], [1, 6, 3]])
            body = self.tree(depth - 1, chans, idxs + [name])
            if not uses_idx(body, name):
                force_idx(body, name, _fr(F(rng.choice([-1, 1, 2]), 2)))
                if not uses_idx(body, name):
                    return body
            return {'k': 'for', 'id': self.ident(), 'meas': self.meas(3), 'idx': name, 'range': r, 'body': body}
        if k == 'map':
            pool = [c for c in 'ABCXYZ']
            inner = []
            chmap = {}
            for c in chans:
                cand = [x for x in pool if x not in inner]
                ic = c if rng.random() < 0.3 and c in cand else rng.choice(cand)
                inner.append(ic)
                chmap[ic] = c
            if rng.random() < 0.3:
                chmap = {a: b for a, b in chmap.items() if a != b} or chmap      # partial mapping: identity implied
            sub = self.tree(depth - 1, inner, idxs)
            node = {'k': 'map', 'id': self.ident(0.25), 'chmap': chmap, 'sub': sub}
            if idxs and not free_names(sub) and rng.random() < 0.5:
                force_idx(sub, rng.choice(idxs), _fr(F(rng.choice([-1, 1, 2]), 2)))
            pm = self.pmap(sub, idxs) if rng.random() < 0.7 else None
            if pm:
                node['pmap'] = pm
            names = sorted(meas_names(sub))
            if names and rng.random() < 0.6:
                node['mmap'] = {n: rng.choice(['m', 'n', 'k']) for n in names if rng.random() < 0.7} or \
                               {names[0]: 'k'}
            return node
        if k == 'par':
            chans = list(chans)
            ov = {}
            if len(chans) > 1 and rng.random() < 0.6:
                added = rng.choice(chans)
                inner = [c for c in chans if c != added]
                ov[added] = _fr(self.val())
            else:
                inner = chans
            if not ov or rng.random() < 0.4:
                ov[rng.choice(inner)] = _fr(self.val())
            return {'k': 'par', 'id': self.ident(), 'ov': ov, 'sub': self.tree(depth - 1, inner, idxs)}
        if k == 'arith':
            op = rng.choice(['+', '-', '*', '/'])
            side = 'l' if op == '/' else rng.choice(['l', 'r'])
            sv = (lambda: _fr(rng.choice([1, 2, 4, F(1, 2), -1, -2]))) if op in '*/' else (lambda: _fr(self.val()))
            sc = sv() if rng.random() < 0.5 else {c: sv() for c in chans if rng.random() < 0.7} or sv()
            return {'k': 'arith', 'id': self.ident(), 'op': op, 'side': side, 'scalar': sc,
                    'sub': self.tree(depth - 1, chans, idxs)}
        if k == 'rev':
            return {'k': 'rev', 'id': self.ident(0.3), 'sub': self.tree(depth - 1, chans, idxs)}
        raise ValueError(k)

    def pmap(self, sub, idxs, p_self=0.6):
        """parameter mapping of a MappingPT around `sub`: keys = names sub reads, expressions over the names in scope;
        on purpose: a name rebound to an expression of ITSELF, a swap of two names, a name rebound to another index"""
        rng = self.rng
        fn = sorted(free_names(sub))
        if not fn or not idxs:
            return None
        if len(fn) >= 2 and rng.random() < 0.25:
            a, b = rng.sample(fn, 2)
            return {a: ['0', b, '1'], b: ['0', a, '1']}
        pm = {}
        for n in fn:
            if rng.random() < 0.65:
                tgt = n if rng.random() < p_self and n in idxs else rng.choice(idxs)
                e = [_fr(rng.choice([0, 0, 1, -1, F(1, 2), 2])), tgt, _fr(rng.choice([1, 1, -1, 2, F(1, 2)]))]
                t2 = rng.choice(idxs)
                if t2 != tgt and rng.random() < 0.3:
                    e += [t2, _fr(rng.choice([1, -1, F(1, 2)]))]
                pm[n] = e
        return pm or None

    def trafo(self, chans, allow_chain=True):
        rng = self.rng
        k = rng.choice(['offset', 'scale', 'parallel', 'linear', 'chain'] if allow_chain else
                       ['offset', 'scale', 'parallel', 'linear'])
        chans = sorted(chans)
        if rng.random() < 0.07:
            return {'k': 'identity'}, chans
        sub = [c for c in chans if rng.random() < 0.7] or [chans[0]]
        if k == 'offset':
            return {'k': 'offset', 'm': {c: _fr(self.val()) for c in sub}}, chans
        if k == 'scale':
            return {'k': 'scale', 'm': {c: _fr(rng.choice([2, -1, F(1, 2), 0, 3, -2])) for c in sub}}, chans
        if k == 'parallel':
            m = {c: _fr(self.val()) for c in sub if rng.random() < 0.5}
            new = [c for c in 'ABCXYZ' if c not in chans]
            if not m or rng.random() < 0.5:
                m[rng.choice(new)] = _fr(self.val())
            return {'k': 'parallel', 'm': m}, sorted(set(chans) | set(m))
        if k == 'linear':
            ins = sub
            free = [c for c in 'ABCXYZ' if c not in chans]
            if rng.random() < 0.1 and len(free) >= 3:
                # NONE of the inputs is a channel of the template (a setup-wide matrix for other channels): the call
                # forwards everything
                ins = rng.sample(free, rng.randint(1, 2))
                outs = rng.sample([c for c in free if c not in ins], 1)
                mat = [[_fr(rng.choice([1, -1, 2])) for _ in ins] for _ in outs]
                return {'k': 'linear', 'ins': ins, 'outs': outs, 'mat': mat}, chans
            outs = list(ins) if rng.random() < 0.5 else rng.sample(free, rng.randint(1, min(2, len(free))))
            mat = [[_fr(rng.choice([0, 1, -1, 2, F(1, 2)])) for _ in ins] for _ in outs]
            return {'k': 'linear', 'ins': ins, 'outs': outs, 'mat': mat}, sorted((set(chans) - set(ins)) | set(outs))
        t1, c1 = self.trafo(chans, False)
        t2, c2 = self.trafo(c1, False)
        return {'k': 'chain', 'ts': [t1, t2]}, c2


def expr_names(x):
    return {n for n, k in I.terms(x) if k != 0}


def free_names(node):
    """parameter names a template reads from the scope that reaches it (= PulseTemplate.parameter_names for the
    generated shapes): a ForLoopPT binds its index, a MappingPT replaces the mapped names by the names of their
    expressions"""
    k = node['k']
    own = set()
    for m in node.get('meas', []):
        own |= expr_names(m[1]) | expr_names(m[2])
    if k == 'const':
        return own.union(expr_names(node['dur']), *[expr_names(v) for v in node['vals'].values()])
    if k == 'table':
        return own.union(*[expr_names(e[0]) | expr_names(e[1]) for es in node['entries'].values() for e in es])
    if k == 'func':
        return own | expr_names(node['b']) | expr_names(node['dur'])
    if k == 'amc':
        return own.union(*[free_names(c) for c in node['subs']])
    if k == 'for':
        return own | (free_names(node['body']) - {node['idx']})
    if k == 'map':
        inner = free_names(node['sub'])
        pm = node.get('pmap') or {}
        return (inner - set(pm)).union(*[expr_names(e) for n, e in pm.items() if n in inner])
    if k == 'par':
        own = own.union(*[expr_names(v) for v in node['ov'].values()])
    if k == 'rep' and isinstance(node['n'], list):
        own = own | expr_names(node['n'])
    if k == 'arith':
        sc = node['scalar']
        own = own.union(*[expr_names(v) for v in (sc.values() if isinstance(sc, dict) else [sc])])
    return own.union(*[free_names(c) for c in I.children(node)])


def uses_idx(node, name):
    return name in free_names(node)


def meas_names(node):
    """measurement names a template defines (as seen from outside)"""
    own = {m[0] for m in node.get('meas', [])}
    if node['k'] == 'amc':
        return own.union(*[meas_names(c) for c in node['subs']])
    if node['k'] == 'map':
        mm = node.get('mmap') or {}
        return {mm.get(n, n) for n in meas_names(node['sub'])}
    return own.union(*[meas_names(c) for c in I.children(node)])


def force_idx(node, name, k):
    """make one atom value that does not depend on another index depend on the loop index (ForLoopPT rejects an
    unused index); False when every value slot is already taken"""
    if node['k'] == 'const':
        for c in sorted(node['vals']):
            if not isinstance(node['vals'][c], list):
                node['vals'][c] = [node['vals'][c], name, k]
                return True
        return False
    if node['k'] == 'table':
        for c in sorted(node['entries']):
            if not any(isinstance(e[1], list) for e in node['entries'][c]):
                for e in node['entries'][c]:
                    e[1] = [e[1], name, k]
                return True
        return False
    if node['k'] == 'func':
        if not isinstance(node['b'], list):
            node['b'] = [node['b'], name, k]
            return True
        return False
    if node['k'] == 'amc':
        return any(force_idx(ch, name, k) for ch in node['subs'])
    if node['k'] == 'map' and name in (node.get('pmap') or {}):
        return False                 # the name is rebound below this mapping (the caller re-checks uses_idx)
    return any(force_idx(ch, name, k) for ch in I.children(node))


def canon(node):
    return json.dumps(node, sort_keys=True)


def out_channels(node):
    k = node['k']
    if k == 'const':
        return sorted(node['vals'])
    if k == 'table':
        return sorted(node['entries'])
    if k == 'func':
        return [node['ch']]
    if k == 'amc':
        return sorted(c for s in node['subs'] for c in out_channels(s))
    if k == 'seq':
        return out_channels(node['subs'][0])
    if k in ('rep', 'for'):
        return out_channels(node['body'])
    if k == 'map':
        return sorted(node['chmap'].get(c, c) for c in out_channels(node['sub']))
    if k == 'par':
        return sorted(set(out_channels(node['sub'])) | set(node['ov']))
    return out_channels(node['sub'])


def effective_paths(tree, S):
    """paths of the nodes the real code collapses for the set S (identifier match or structural equality)"""
    names = {s['name'] for s in S if s['by'] == 'name'}
    objs = {canon(I.node_at(tree, s['path'])) for s in S if s['by'] == 'obj'}
    return [p for p in I.all_paths(tree)
            if (I.node_at(tree, p).get('id') in names and I.node_at(tree, p).get('id') is not None)
            or canon(I.node_at(tree, p)) in objs]


def pick_S(rng, tree, paths):
    S = []
    for p in paths:
        n = I.node_at(tree, p)
        if n.get('id') is not None and rng.random() < 0.6:
            S.append({'by': 'name', 'name': n['id']})
        else:
            S.append({'by': 'obj', 'path': list(p)})
    return S


def count_val(n, env):
    """a repetition count of a JSON tree under the parameter values `env`: an int, an affine expression of top-level
    parameters (family exprattr) or {'sympy': text} (read back from a real template whose count is not affine, e.g. the
    product (p + 1)*(q + 1) of a merged repetition).  The model's QRep carries a number: expression counts are evaluated
    HERE, which is only right where no MappingPT / ForLoopPT above the node rebinds the names (the family puts such
    nodes at the top of the operand; `gen_exprattr_cases` asserts it)."""
    if isinstance(n, dict):
        import sympy
        v = sympy.sympify(n['sympy']).subs({k: sympy.Rational(F(x).numerator, F(x).denominator)
                                            for k, x in (env or {}).items()})
        assert v.is_Integer and v >= 0, (n, env)
        return int(v)
    if isinstance(n, list):
        v = I.num(n, env)
        assert v.denominator == 1 and v >= 0, (n, env)
        return int(v)
    return n


def bad_counts(node, params):
    """repetition counts of a described template that do not evaluate to a non-negative integer (top-level parameters)"""
    env = {k: F(v) for k, v in (params or {}).items()}
    out = []
    if node['k'] == 'rep':
        try:
            count_val(node['n'], env)
        except (AssertionError, KeyError):
            out.append(node['n'])
    for c in (node.get('subs') or []) if node['k'] == 'amc' else I.children(node):
        out += bad_counts(c, params)
    return out


def est_ticks(node, step, env=None):
    """duration in ticks (for budget control)"""
    env = env or {}
    k = node['k']
    if k == 'const':
        return max(F(0), I.num(node['dur'], env) / F(step))
    if k == 'table':
        return I.num(list(node['entries'].values())[0][-1][0], env) / F(step)
    if k == 'func':
        return max(F(0), I.num(node['dur'], env) / F(step))
    if k == 'amc':
        return est_ticks(node['subs'][0], step, env)
    if k == 'seq':
        return sum(est_ticks(s, step, env) for s in node['subs'])
    if k == 'rep':
        return count_val(node['n'], env) * est_ticks(node['body'], step, env)
    if k == 'for':
        return sum(est_ticks(node['body'], step, dict(env, **{node['idx']: v})) for v in range(*node['range']))
    if k == 'map':
        return est_ticks(node['sub'], step, I.map_env(node, env))
    return est_ticks(node['sub'], step, env)


def times_ok(node, step, env):
    """every time of the tree (durations, table times, windows) is a whole number of ticks under every scope that
    reaches it, durations are positive, windows non-negative (parameter mappings can rebind a name that a duration
    uses to a fractional or negative value: such trees are not generated)"""
    step = F(step)

    def tick(x, lo):
        v = I.num(x, env) / step
        return v.denominator == 1 and v >= lo
    k = node['k']
    if not all(tick(m[1], 0) and tick(m[2], 0) for m in node.get('meas', [])):
        return False
    if k in ('const', 'func'):
        return tick(node['dur'], 1)
    if k == 'table':
        return all(tick(e[0], 0) for es in node['entries'].values() for e in es)
    if k == 'amc':
        return all(times_ok(c, step, env) for c in node['subs'])
    if k == 'for':
        return all(times_ok(node['body'], step, dict(env, **{node['idx']: v})) for v in range(*node['range']))
    if k == 'map':
        return times_ok(node['sub'], step, I.map_env(node, env))
    return all(times_ok(c, step, env) for c in I.children(node))


def gen_opt_cases(rng, n_trees, depth, subsets_per_tree, exhaustive=False):
    cases = []
    tries = 0
    while len(cases) < n_trees * subsets_per_tree and tries < n_trees * 20:
        tries += 1
        step = rng.choice(STEPS)
        g = Gen(rng, step)
        chans = rng.choice([['A'], ['A', 'B'], ['A', 'B'], ['B', 'C']])
        params = {'p': _fr(rng.choice([0, 1, 2, -1, F(1, 2)]))} if rng.random() < 0.35 else None
        tree = g.tree(rng.randint(1, depth), chans, idxs=list(params or ()))
        if params and 'p' not in free_names(tree):
            params = None
        if (params or has_pmap(tree)) and not times_ok(tree, step, {k: F(v) for k, v in (params or {}).items()}):
            continue
        t = est_ticks(tree, step, {k: F(v) for k, v in (params or {}).items()})
        if t > 60 or t <= 0 and rng.random() < 0.8:
            continue
        paths = I.all_paths(tree)
        if exhaustive:
            if len(paths) > 6:
                continue
            subsets = [list(c) for r in range(len(paths) + 1) for c in itertools.combinations(paths, r)]
        else:
            subsets = []
            for _ in range(subsets_per_tree):
                r = rng.random()
                if r < 0.15:
                    subsets.append([])
                elif r < 0.5:
                    subsets.append([rng.choice(paths)])
                else:
                    subsets.append([p for p in paths if rng.random() < 0.35])
        for sub in subsets:
            G = None
            if rng.random() < (0.35 if exhaustive else 0.55) or not sub:
                G, _ = g.trafo(out_channels(tree))
            c = {'kind': 'opt', 'step': step, 'tree': tree, 'S': pick_S(rng, tree, sub), 'G': G}
            if params:
                c['params'] = params
            flags(rng, c)
            cases.append(c)
    return cases


def has_pmap(tree):
    return any(I.node_at(tree, p).get('pmap') for p in I.all_paths(tree))


def flags(rng, c):
    """stateful / aliasing variants of a case: `share` = structurally equal sub-trees are ONE template object,
    `reuse` = the plain run and the option run compile the SAME template objects (and the plain run is repeated
    afterwards: it must not have changed)"""
    if rng.random() < 0.3:
        c['share'] = True
    if rng.random() < 0.4:
        c['reuse'] = True
    if rng.random() < 0.3:
        c['cp'] = cp_variant(rng, c['tree'])
        if c['cp'].get('chmap') and c.get('G'):
            # the global transformation sees the channel names AFTER the top-level channel mapping
            oc = set(out_channels(c['tree']))
            if (trafo_names(c['G']) - oc) & (set(c['cp']['chmap'].values()) | oc - set(c['cp']['chmap'])) - oc:
                del c['cp']['chmap']
            elif (trafo_names(c['G']) - oc) & set(c['cp']['chmap'].values()):
                del c['cp']['chmap']
            else:
                c['G'] = rename_trafo(c['G'], c['cp']['chmap'])


def trafo_names(t):
    k = t['k']
    if k == 'identity':
        return set()
    if k == 'chain':
        return set().union(*[trafo_names(x) for x in t['ts']])
    if k == 'linear':
        return set(t['ins']) | set(t['outs'])
    return set(t['m'])


def rename_trafo(t, r):
    k = t['k']
    f = lambda c: r.get(c, c)
    if k == 'identity':
        return t
    if k == 'chain':
        return {'k': 'chain', 'ts': [rename_trafo(x, r) for x in t['ts']]}
    if k == 'linear':
        return dict(t, ins=[f(c) for c in t['ins']], outs=[f(c) for c in t['outs']])
    return dict(t, m={f(c): v for c, v in t['m'].items()})


def cp_variant(rng, tree):
    """the other arguments of create_program (coverage audit round 4): channel_mapping / measurement_mapping given at
    the top (= the template wrapped in a MappingPT, which is how the model sees it), an explicit LoopBuilder,
    parameters=None / to_single_waveform=None, sampling into caller-provided arrays"""
    cp = {}
    oc = out_channels(tree)
    r = rng.random()
    if r < 0.45:
        free = [z for z in 'ABCXYZ' if z not in oc]
        rng.shuffle(free)
        if rng.random() < 0.5 and len(oc) == 2:
            cp['chmap'] = {oc[0]: oc[1], oc[1]: oc[0]}                     # swap
        else:
            cp['chmap'] = {c: free[k] for k, c in enumerate(oc) if rng.random() < 0.7} or {oc[0]: free[0]}
    names = sorted(meas_names(tree))
    if names and rng.random() < 0.5:
        cp['mmap'] = {n: rng.choice(['m', 'n', 'k']) for n in names}
    if rng.random() < 0.3:
        cp['builder'] = True
    if rng.random() < 0.3:
        cp['params_none'] = True
    if rng.random() < 0.5:
        cp['into_array'] = True
    if rng.random() < 0.4:
        cp['params_as'] = rng.choice(['scope', 'str'])      # parameters handed over as a Scope / as strings
    return cp


def cp_wrap(case):
    """the tree as the model sees create_program(channel_mapping=.., measurement_mapping=..): wrapped in a MappingPT"""
    cp = case.get('cp') or {}
    if not cp.get('chmap') and not cp.get('mmap'):
        return case['tree']
    return {'k': 'map', 'id': None, 'chmap': dict(cp.get('chmap') or {}),
            'mmap': {a: b for a, b in (cp.get('mmap') or {}).items() if a != b}, 'sub': case['tree'], 'top': True}


# boundary / regression shapes that must always be present
def fixed_cases():
    A = lambda d, v, id=None, meas=None: {'k': 'const', 'id': id, 'dur': d, 'vals': v, 'meas': meas or []}
    tb = {'k': 'table', 'id': None, 'entries': {'A': [['0', '0', 'hold'], ['2', '4', 'linear']]}, 'meas': []}
    out = []
    t = {'k': 'arith', 'id': None, 'op': '*', 'side': 'l', 'scalar': '2',
         'sub': {'k': 'par', 'id': 'P', 'ov': {'B': '1'}, 'sub': A('2', {'A': '3'})}}
    out.append({'kind': 'opt', 'step': '1', 'tree': t, 'S': [{'by': 'name', 'name': 'P'}], 'G': None})
    out.append({'kind': 'opt', 'step': '1', 'tree': t['sub'], 'S': [], 'G': {'k': 'scale', 'm': {'A': '2', 'B': '2'}}})
    t = {'k': 'rev', 'id': None, 'sub': {'k': 'seq', 'id': None, 'meas': [], 'subs': [
        {'k': 'seq', 'id': 'Q', 'meas': [], 'subs': [A('1', {'A': '1'}), tb]}, A('1', {'A': '7'})]}}
    out.append({'kind': 'opt', 'step': '1/2', 'tree': t, 'S': [{'by': 'name', 'name': 'Q'}], 'G': None})
    t = {'k': 'rev', 'id': None, 'sub': {'k': 'seq', 'id': 'Q', 'meas': [], 'subs': [A('1', {'A': '1'}), tb]}}
    out.append({'kind': 'opt', 'step': '1/2', 'tree': t, 'S': [{'by': 'name', 'name': 'Q'}], 'G': None})
    # round 5 (classify audit): INSIDE the input class of finding collapsed_inside_reversal, measurement windows on the
    # collapsed composite, on its atoms and on the level it is appended to: the finding only concerns voltages, so a
    # change that loses / misplaces windows there must still be reported (hand mutation A)
    inner = {'k': 'seq', 'id': 'Q', 'meas': [['m', '0', '1']], 'subs': [A('1', {'A': '1'}, meas=[['n', '1/2', '1/2']]), tb]}
    for body in ({'k': 'seq', 'id': None, 'meas': [['n', '0', '1/2']], 'subs': [inner, A('1', {'A': '7'}, meas=[['m', '1/2', '1/2']])]},
                 {'k': 'rep', 'id': None, 'meas': [['k', '1/2', '1']], 'n': 2, 'body': inner}):
        for G in (None, {'k': 'offset', 'm': {'A': '1'}}):
            out.append({'kind': 'opt', 'step': '1/2', 'tree': {'k': 'rev', 'id': None, 'sub': body},
                        'S': [{'by': 'name', 'name': 'Q'}], 'G': G})
    t = {'k': 'seq', 'id': None, 'meas': [['m', '0', '1']], 'subs': [
        A('1', {'A': '1'}, meas=[['n', '0', '1/2']]),
        {'k': 'rep', 'id': 'R', 'meas': [['m', '0', '1']], 'n': 2,
         'body': {'k': 'seq', 'id': 'B', 'meas': [['n', '1/2', '1']], 'subs': [A('1', {'A': '2'}), tb]}}]}
    for S in ([{'by': 'name', 'name': 'R'}], [{'by': 'name', 'name': 'B'}], [{'by': 'obj', 'path': []}]):
        out.append({'kind': 'opt', 'step': '1/2', 'tree': t, 'S': S, 'G': {'k': 'offset', 'm': {'A': '1'}}})
    # with_repetition on an unnamed repetition that declares measurements (repaired in /repo, see known_findings.d)
    r = {'k': 'rep', 'id': None, 'meas': [['m', '0', '1']], 'n': 2, 'body': A('2', {'A': '1'})}
    out.append({'kind': 'ctor', 'step': '1', 'op': 'rep', 'args': [r], 'n': 3})
    out.append({'kind': 'ctor', 'step': '1', 'op': 'pow', 'args': [dict(r, meas=[])], 'n': 3})
    # windows of a repeated sequence inside a reversed part, collapsed above the reversal
    t = {'k': 'seq', 'id': 'top', 'meas': [], 'subs': [A('1', {'A': '0'}), {'k': 'rev', 'id': None, 'sub': {
        'k': 'rep', 'id': None, 'meas': [['m', '0', '1']], 'n': 2,
        'body': {'k': 'seq', 'id': None, 'meas': [['n', '1', '1']], 'subs': [A('1', {'A': '1'}), tb]}}}]}
    out.append({'kind': 'opt', 'step': '1/2', 'tree': t, 'S': [{'by': 'name', 'name': 'top'}], 'G': None})
    # FunctionPT / AtomicMultiChannelPT atoms and measurement renaming, collapsed + transformed
    fn = {'k': 'func', 'id': None, 'ch': 'A', 'dur': '2', 'a': '1', 'b': '-1', 'meas': [['m', '0', '1']]}
    amc = {'k': 'amc', 'id': 'M', 'meas': [['n', '1', '1']], 'subs': [fn, A('2', {'B': '3'}, meas=[['m', '1/2', '1/2']])]}
    t = {'k': 'map', 'id': None, 'chmap': {'A': 'X'}, 'mmap': {'m': 'k'}, 'sub': {
        'k': 'seq', 'id': 'Q', 'meas': [['m', '0', '2']], 'subs': [amc, {'k': 'rev', 'id': None, 'sub': amc}]}}
    for S in ([], [{'by': 'name', 'name': 'Q'}], [{'by': 'name', 'name': 'M'}]):
        out.append({'kind': 'opt', 'step': '1/2', 'tree': t, 'S': S, 'G': {'k': 'scale', 'm': {'X': '2'}}})
    out.append({'kind': 'opt', 'step': '1/2', 'tree': t, 'S': [{'by': 'name', 'name': 'Q'}],
                'G': {'k': 'linear', 'ins': ['X', 'B'], 'outs': ['Y', 'Z'], 'mat': [['1', '1'], ['1', '-1']]}})
    out.append({'kind': 'ctor', 'step': '1/2', 'op': 'paratomic', 'args': [amc, A('2', {'C': '1'}, meas=[['k', '0', '1']])]})
    out.append({'kind': 'ctor', 'step': '1/2', 'op': 'paratomic', 'args': [dict(amc, id=None), A('2', {'C': '1'})]})
    # a global LinearTransformation for channels the template does not have: constant templates are forwarded (also
    # when collapsed), anything else raises KeyError (finding linear_inputs_absent)
    L = {'k': 'linear', 'ins': ['X', 'Y'], 'outs': ['Z', 'C'], 'mat': [['1', '1'], ['1', '-1']]}
    cseq = {'k': 'seq', 'id': 'cs', 'meas': [['m', '0', '1']], 'subs': [A('1', {'A': '1'}), A('2', {'A': '3'})]}
    for S in ([], [{'by': 'name', 'name': 'cs'}]):
        out.append({'kind': 'opt', 'step': '1/2', 'tree': cseq, 'S': S, 'G': L})
        out.append({'kind': 'opt', 'step': '1/2', 'tree': cseq, 'S': S,
                    'G': {'k': 'chain', 'ts': [{'k': 'offset', 'm': {'A': '1'}}, L, {'k': 'scale', 'm': {'A': '2'}}]}})
    out.append({'kind': 'opt', 'step': '1/2', 'tree': {'k': 'seq', 'id': None, 'meas': [], 'subs': [A('1', {'A': '1'}), tb]},
                'S': [], 'G': L})
    # identity transformations: alone, chained with each other (chain_transformations() of nothing) and with an offset
    ident = {'k': 'identity'}
    for G in (ident, {'k': 'chain', 'ts': [ident, ident]}, {'k': 'chain', 'ts': [ident, {'k': 'offset', 'm': {'A': '1'}}, ident]}):
        out.append({'kind': 'opt', 'step': '1/2', 'tree': cseq, 'S': [{'by': 'name', 'name': 'cs'}], 'G': G})
        out.append({'kind': 'opt', 'step': '1/2', 'tree': {'k': 'rep', 'id': 'r', 'meas': [], 'n': 2, 'body': tb},
                    'S': [{'by': 'name', 'name': 'r'}], 'G': G})
        # ... meeting the transformation an ArithmeticPT / ParallelChannelPT hands down (mutation M24: x.chain(identity))
        for S in ([], [{'by': 'name', 'name': 'ar'}]):
            out.append({'kind': 'opt', 'step': '1/2', 'S': S, 'G': G, 'tree': {
                'k': 'arith', 'id': 'ar', 'op': '+', 'side': 'l', 'scalar': '3', 'sub': {
                    'k': 'seq', 'id': None, 'meas': [], 'subs': [tb, A('1', {'A': '1'})]}}})
            out.append({'kind': 'opt', 'step': '1/2', 'S': S, 'G': G, 'tree': {
                'k': 'arith', 'id': 'ar', 'op': '-', 'side': 'r', 'scalar': '1', 'sub': tb}})
    # stepped scan whose body rebinds the loop index NAME through a mapping and repeats a hold (seeded change C05-4):
    # collapsing the repetition / the mapping / the loop / everything must not change what is played
    hold = A('2', {'A': ['0', 'i', '1']}, id='hold', meas=[['m', '0', '1']])
    scan = {'k': 'for', 'id': 'scan', 'meas': [], 'idx': 'i', 'range': [0, 3, 1], 'body': {
        'k': 'map', 'id': 'scaled', 'chmap': {}, 'pmap': {'i': ['0', 'p', '1', 'i', '1/2']}, 'sub': {
            'k': 'rep', 'id': 'burst', 'meas': [], 'n': 2, 'body': hold}}}
    t = {'k': 'seq', 'id': 'pulse', 'meas': [], 'subs': [A('2', {'A': '0'}), scan]}
    for names in (['hold'], ['burst'], ['scaled'], ['scan'], ['pulse'], ['burst', 'scan']):
        out.append({'kind': 'opt', 'step': '1/2', 'tree': t, 'params': {'p': '1'},
                    'S': [{'by': 'name', 'name': x} for x in names], 'G': None})
    # swap of two loop indices below both loops
    sw = {'k': 'for', 'id': None, 'meas': [], 'idx': 'j', 'range': [0, 2, 1], 'body': {
        'k': 'for', 'id': 'in', 'meas': [], 'idx': 'i', 'range': [0, 3, 1], 'body': {
            'k': 'map', 'id': 'sw', 'chmap': {}, 'pmap': {'i': ['0', 'j', '1'], 'j': ['0', 'i', '1']}, 'sub': {
                'k': 'rep', 'id': 'r', 'meas': [], 'n': 2, 'body': A('1', {'A': ['0', 'i', '1', 'j', '1/4']}, id='a')}}}}
    for names in ([], ['r'], ['sw'], ['in']):
        out.append({'kind': 'opt', 'step': '1', 'tree': sw, 'S': [{'by': 'name', 'name': x} for x in names], 'G': None})
    return out


# ---- the loop index (or another name) rebound between a loop and the templates that read it ---------------------------
def rebind_tree(rng, g, w_outer, w_inner, pm, rng_for=(0, 3, 1), inner_for=False):
    """for i in range: W_outer( MappingPT{pm}( W_inner( atom reading i [and j] ) ) ); every node named"""
    A = lambda dur, vals, meas=None: {'k': 'const', 'id': g.ident(1), 'dur': dur, 'vals': vals, 'meas': meas or []}
    one = g.tm(1)
    atom = A(g.tm(2), {'A': ['0', 'i', '1'] + (['j', '1/2'] if inner_for else [])}, meas=[['m', g.tm(0), one]])

    def wrap(node, kinds):
        for k in reversed(kinds):
            if k == 'rep':
                node = {'k': 'rep', 'id': g.ident(1), 'meas': [], 'n': 2, 'body': node}
            elif k == 'rep1':
                node = {'k': 'rep', 'id': g.ident(1), 'meas': [['n', g.tm(0), one]], 'n': 1, 'body': node}
            elif k == 'seq':
                node = {'k': 'seq', 'id': g.ident(1), 'meas': [], 'subs': [node, A(one, {c: ['1/2', 'i', '-1'] for c in out_channels(node)})]}
            elif k == 'rev':
                node = {'k': 'rev', 'id': g.ident(1), 'sub': node}
            elif k == 'arith':
                node = {'k': 'arith', 'id': g.ident(1), 'op': '+', 'side': 'l', 'scalar': ['0', 'i', '2'], 'sub': node}
            elif k == 'par':
                node = {'k': 'par', 'id': g.ident(1), 'ov': {'B': ['1', 'i', '1']}, 'sub': node}
            elif k == 'chmap':
                node = {'k': 'map', 'id': g.ident(1), 'chmap': {}, 'sub': node}
            else:
                raise ValueError(k)
        return node
    inner = wrap(atom, list(w_inner))
    mapped = {'k': 'map', 'id': g.ident(1), 'chmap': {}, 'pmap': pm, 'sub': inner}
    body = wrap(mapped, list(w_outer))
    return {'k': 'for', 'id': g.ident(1), 'meas': [], 'idx': 'i', 'range': list(rng_for), 'body': body}


REBIND_WRAPPERS = ['rep', 'rep1', 'seq', 'rev', 'arith', 'par', 'chmap']
REBIND_MAPS = [{'i': ['1', 'i', '1/2']},                 # i -> 1 + i/2
               {'i': ['0', 'i', '1']},                   # identity written out
               {'i': ['0', 'i', '-1']},
               {'i': ['0', 'p', '1', 'i', '1/2']},       # i -> p + i/2 (needs the top-level parameter p)
               {'i': ['2', 'p', '1']}]                   # i -> 2 + p: the body no longer reads the loop index ...


def gen_rebind_cases(rng, n, exhaustive=False):
    """class `name coincidence`: a MappingPT between a ForLoopPT and the templates that read the index maps the index
    NAME to an expression of itself; every builder feature that could re-inject the raw index (repetition, sequence,
    reversal, sub-program) is put between the mapping and the reader, and every single node + random subsets are
    collapsed"""
    combos = [((), ())] + [((), (w,)) for w in REBIND_WRAPPERS] + [((w,), ()) for w in REBIND_WRAPPERS]
    if exhaustive:
        combos += [((a,), (b,)) for a in REBIND_WRAPPERS for b in REBIND_WRAPPERS]
        combos += [((), (a, b)) for a in REBIND_WRAPPERS for b in REBIND_WRAPPERS]
    else:
        combos += [((), tuple(rng.sample(REBIND_WRAPPERS, 2))) for _ in range(6)]
        combos += [(tuple(rng.sample(REBIND_WRAPPERS, 1)), tuple(rng.sample(REBIND_WRAPPERS, 2))) for _ in range(6)]
    cases = []
    while exhaustive or len(cases) < n:
        before = len(cases)
        for wo, wi in combos:
            step = rng.choice(STEPS)
            g = Gen(rng, step)
            pm = copy.deepcopy(rng.choice(REBIND_MAPS[:4]))
            swap = rng.random() < 0.2
            if swap:
                pm = {'i': ['0', 'j', '1'], 'j': ['0', 'i', '1']}
            params = {'p': _fr(rng.choice([1, 2, -1]))} if any('p' in expr_names(e) for e in pm.values()) else None
            tree = rebind_tree(rng, g, wo, wi, pm, rng.choice([(0, 3, 1), (2, 0, -1), (1, 2, 1)]), inner_for=swap)
            if swap:
                tree = {'k': 'for', 'id': g.ident(1), 'meas': [], 'idx': 'j', 'range': [0, 2, 1], 'body': tree}
                if 'j' not in free_names(tree['body']):
                    continue
            paths = I.all_paths(tree)
            subsets = [[]] + [[p] for p in paths] if exhaustive else \
                [[rng.choice(paths)] for _ in range(2)] + [[p for p in paths if rng.random() < 0.35]]
            for sub in subsets:
                G = {'k': 'offset', 'm': {'A': '1'}} if rng.random() < 0.25 else None
                c = {'kind': 'opt', 'step': step, 'tree': tree, 'S': pick_S(rng, tree, sub), 'G': G, 'family': 'rebind'}
                if params:
                    c['params'] = params
                flags(rng, c)
                cases.append(c)
                if len(cases) >= n and not exhaustive:
                    return cases
        if exhaustive or len(cases) == before:
            break
    return cases


# ---- small shapes on which a collapse meets a waveform smart constructor ----------------------------------------------
def gen_shape_cases(rng, n):
    """two classes the random trees hit only by luck:
    (a) the collapsed node compiles to ONE transformed non-constant leaf (ArithmeticPT / ParallelChannelPT directly
        around an atom) and a further, non-commuting transformation arrives from outside (global or an enclosing
        ArithmeticPT): nested TransformingWaveforms;
    (b) wait - pulse - wait: a sequence of constant holds around a collapsed non-constant sequence / repetition, the
        enclosing sequence collapsed as well (SequenceWaveform.from_sequence with a nested SequenceWaveform between
        equal / different constants)"""
    cases = []
    while len(cases) < n:
        step = rng.choice(STEPS)
        g = Gen(rng, step)
        tab = lambda: g.simple_atom(['A'], [], None)
        if rng.random() < 0.5:
            atom = tab()
            sv = lambda mul: _fr(rng.choice([2, -1, F(1, 2), 4]) if mul else rng.choice([1, -1, F(1, 2), 2]))
            if rng.random() < 0.7:
                op = rng.choice('+-*/')
                node = {'k': 'arith', 'id': 'w', 'op': op, 'side': 'l' if op == '/' else rng.choice('lr'),
                        'scalar': sv(op in '*/'), 'sub': atom}
            else:
                node = {'k': 'par', 'id': 'w', 'ov': {rng.choice('AB'): _fr(g.val())}, 'sub': atom}
            tree = node
            r = rng.random()
            if r < 0.4:
                op = rng.choice('+-*/')
                tree = {'k': 'arith', 'id': 'o', 'op': op, 'side': 'l' if op == '/' else rng.choice('lr'),
                        'scalar': sv(op in '*/'), 'sub': node}
            elif r < 0.6:
                tree = {'k': 'seq', 'id': 'o', 'meas': [], 'subs': [node, g.simple_atom(out_channels(node), [], None)]}
            G = None
            if rng.random() < 0.7 or tree is node:
                G = rng.choice([{'k': 'offset', 'm': {'A': _fr(g.val() or 1)}},
                                {'k': 'scale', 'm': {'A': sv(True)}},
                                {'k': 'linear', 'ins': ['A'], 'outs': ['X'], 'mat': [['2']]},
                                {'k': 'identity'},
                                {'k': 'chain', 'ts': [{'k': 'identity'}, {'k': 'offset', 'm': {'A': '1'}}]},
                                {'k': 'chain', 'ts': [{'k': 'scale', 'm': {'A': '2'}}, {'k': 'offset', 'm': {'A': '1'}}]}])
            names = rng.choice([['w'], ['w'], ['w', 'o'], ['o'], []])
        else:
            v = _fr(g.val())
            hold = lambda val: {'k': 'const', 'id': None, 'dur': g.tm(rng.randint(1, 2)), 'vals': {'A': val}, 'meas': []}
            r = rng.random()
            if r < 0.5:
                pulse = {'k': 'seq', 'id': 'w', 'meas': g.meas(2), 'subs': [tab() for _ in range(rng.randint(2, 3))]}
            elif r < 0.8:
                pulse = {'k': 'rep', 'id': 'w', 'meas': [], 'n': rng.choice([2, 3]), 'body': tab()}
            else:
                pulse = {'k': 'seq', 'id': 'w', 'meas': [], 'subs': [hold(v), tab()]}
            last = v if rng.random() < 0.7 else _fr(g.val())
            subs = [hold(v), pulse, hold(last)]
            if rng.random() < 0.3:
                subs.append(hold(last))
            if rng.random() < 0.2:
                subs = subs[1:]                                   # the pulse first
            tree = {'k': 'seq', 'id': 'o', 'meas': g.meas(2), 'subs': subs}
            if rng.random() < 0.3:
                tree = {'k': 'rep', 'id': 'r', 'meas': [], 'n': 2, 'body': tree}
            G = {'k': 'offset', 'm': {'A': '1'}} if rng.random() < 0.2 else None
            names = rng.choice([['w', 'o'], ['w', 'o'], ['w'], ['o'], ['w', 'r']])
        if est_ticks(tree, step) > 40:
            continue
        ids = {I.node_at(tree, p).get('id') for p in I.all_paths(tree)}
        c = {'kind': 'opt', 'step': step, 'tree': tree, 'S': [{'by': 'name', 'name': x} for x in names if x in ids],
             'G': G, 'family': 'shape'}
        flags(rng, c)
        cases.append(c)
    return cases


# ---- convenience constructors -----------------------------------------------------------------------------------------
CTORS = ['matmul', 'concat', 'appended', 'rep', 'pow', 'map', 'map', 'par', 'rev2', 'iter', 'pad', 'pad', 'paratomic',
         'rmatmul', 'arithop']


def gen_ctor_cases(rng, n):
    cases = []
    tries = 0
    while len(cases) < n and tries < 20 * n:
        tries += 1
        step = rng.choice(STEPS)
        g = Gen(rng, step)
        chans = rng.choice([['A'], ['A', 'B']])
        op = rng.choice(CTORS)
        c = {'kind': 'ctor', 'step': step, 'op': op}
        if op in ('matmul', 'concat', 'appended'):
            # operands that are sequences with / without identifier and measurements (merged only when bare)
            ops = []
            for _ in range(rng.randint(2, 3)):
                o = g.tree(rng.randint(0, 2), chans, kinds=['seq', 'seq', 'rep', 'rev'])
                if o['k'] == 'seq' and rng.random() < 0.5:
                    o['id'] = None
                    o['meas'] = []
                ops.append(o)
            if op == 'matmul':
                ops = ops[:2]
            if op == 'appended' and rng.random() < 0.12:
                ops = ops[:1]                                  # with_appended() without arguments: self
            c['args'] = ops
        elif op == 'rmatmul':
            # (template, channel mapping) @ template: tuple operand, handled by PulseTemplate.__rmatmul__
            inner = ['X', 'Y'][:len(chans)]
            first = g.tree(rng.randint(0, 2), inner, kinds=['seq', 'rep', 'rev'])
            c['args'] = [first, g.tree(rng.randint(0, 2), chans, kinds=['seq', 'seq', 'rep', 'rev'])]
            c['chmap'] = dict(zip(inner, chans if rng.random() < 0.5 else chans[::-1]))
        elif op == 'arithop':
            # the operators + - * / with a number or a per-channel dict on either side
            o = rng.choice('+-*/')
            sv = (lambda: _fr(rng.choice([2, 4, F(1, 2), -1, -2]))) if o in '*/' else (lambda: _fr(g.val()))
            c['args'] = [g.tree(rng.randint(0, 2), chans)]
            c['aop'] = o
            c['side'] = 'l' if o == '/' else rng.choice('lr')
            c['scalar'] = sv() if rng.random() < 0.6 else {ch: sv() for ch in chans if rng.random() < 0.7} or sv()
        elif op in ('rep', 'pow'):
            inner = g.tree(rng.randint(0, 2), chans, kinds=['seq', 'rep', 'rep'])
            if inner['k'] != 'rep':
                inner = {'k': 'rep', 'id': None, 'meas': [], 'n': rng.choice([1, 2, 3]), 'body': inner}
            if rng.random() < 0.6:
                inner['id'] = None
            if rng.random() < 0.5:
                inner['meas'] = []
            c['args'] = [inner]
            c['n'] = rng.choice([0, 1, 2, 3])
        elif op == 'map':
            # (with a top-level parameter p: chained PARAMETER mappings, e.g. p -> 2p inside and p -> p + 1 outside)
            with_p = rng.random() < 0.6
            inner = g.tree(rng.randint(0, 2), chans, kinds=['seq', 'map', 'map'], idxs=['p'] if with_p else [])
            if inner['k'] == 'map' and rng.random() < 0.7:
                inner['id'] = None
            if with_p and 'p' not in free_names(inner):
                force_idx(inner, 'p', '1/2')
            if 'p' in free_names(inner):
                c['params'] = {'p': _fr(rng.choice([0, 1, 2, -1]))}
                pm = g.pmap(inner, ['p'], p_self=1.0)
                if pm:
                    c['pmap'] = pm
            oc = out_channels(inner)
            pool = [x for x in 'ABCXYZ']
            rng.shuffle(pool)
            c['args'] = [inner]
            c['chmap'] = {a: b for a, b in zip(oc, pool)}
            names = sorted(meas_names(inner))
            c['mmap'] = {n: rng.choice(['m', 'n', 'k']) for n in names if rng.random() < 0.6}
            # positional form: the kind of every mapping is detected from its keys (MappingPT.from_tuple)
            groups = [set(c['chmap']), set(c['mmap']), set(c.get('pmap') or {})]
            if rng.random() < 0.35 and not (groups[0] & groups[1] or groups[0] & groups[2] or groups[1] & groups[2]):
                c['positional'] = True
        elif op == 'par':
            inner = g.tree(rng.randint(0, 2), chans, kinds=['par', 'par', 'seq'])
            if inner['k'] == 'par' and rng.random() < 0.7:
                inner['id'] = None
            oc = out_channels(inner)
            ov = {}
            if inner['k'] == 'par' and rng.random() < 0.5:
                ov[rng.choice(sorted(inner['ov']))] = _fr(g.val())       # overwrite the same channel again
            if not ov or rng.random() < 0.5:
                ov[rng.choice(oc + ['Z'])] = _fr(g.val())
            c['args'] = [inner]
            c['ov'] = ov
        elif op == 'rev2':
            inner = g.tree(rng.randint(0, 2), chans)
            c['args'] = [inner]
            c['named'] = rng.random() < 0.3          # the first reversal carries an identifier (then no unwrapping)
        elif op == 'iter':
            body = g.tree(rng.randint(0, 2), chans, idxs=['i'])
            if not uses_idx(body, 'i') and not force_idx(body, 'i', '1/2'):
                continue
            c['args'] = [body]
            c['range'] = rng.choice([[0, 2, 1], [0, 3, 1], [2, 0, -1], [0, 0, 1], [1, 5, 2]])
        elif op == 'paratomic':
            total = rng.choice([2, 4])
            pool = ['A', 'B', 'C', 'X']
            rng.shuffle(pool)
            k = rng.randint(2, 3)
            first = g.simple_atom([pool[0]], [], total)
            if rng.random() < 0.6:      # the receiver already is an AtomicMultiChannelPT (merged when unnamed)
                first = {'k': 'amc', 'id': g.ident(0.3), 'meas': g.meas(total),
                         'subs': [first, g.simple_atom([pool[3]], [], total)]}
            c['args'] = [first] + [g.simple_atom([pool[i]], [], total) for i in range(1, k)]
            if rng.random() < 0.2:
                c['args'] = c['args'][:1]                      # with_parallel_atomic() without arguments: self
        elif op == 'pad':
            # constant atoms / sequences of constant atoms: final values are unambiguous
            def catom():
                return {'k': 'const', 'id': g.ident(), 'dur': g.tm(rng.randint(1, 3)),
                        'vals': {ch: _fr(g.val()) for ch in chans}, 'meas': g.meas(2)}
            inner = catom() if rng.random() < 0.4 else {'k': 'seq', 'id': g.ident(), 'meas': g.meas(2),
                                                        'subs': [catom() for _ in range(rng.randint(1, 3))]}
            c['args'] = [inner]
            c['extra'] = rng.choice([0, 0, 1, 2, 3])     # pad by this many ticks (0: must return self)
            r = rng.random()
            if r < 0.2:
                c['pad_mode'] = 'callable'               # to_new_duration = function of the current duration
            elif r < 0.45:
                c['pad_mode'] = 'next_multiple'          # qupulse.utils.to_next_multiple(sample rate, quantum)
                c['quantum'] = rng.choice([2, 3, 4, 8])
                ticks = sum(est_ticks(a, step) for a in c['args'])
                c['extra'] = int(-(-ticks // c['quantum']) * c['quantum'] - ticks)
            elif r < 0.65 and c['extra']:
                c['pad_mode'] = 'kwargs'                 # pt_kwargs: the explicit SequencePT(self, pad, **kwargs)
        env0 = {k: F(v) for k, v in (c.get('params') or {}).items()}
        if (c.get('params') or any(has_pmap(a) for a in c['args'])) and not times_ok(ctor_explicit(c), step, env0):
            continue
        ticks = sum(est_ticks(a, step, dict(env0, i=0)) for a in c['args'])
        if ticks > 40:
            continue
        cases.append(c)
    return cases


# ---- every convenience helper applied ONCE to a receiver of EVERY template class ---------------------------------------
RECEIVER_CLASSES = ['const', 'table', 'func', 'amc', 'seq', 'rep', 'for', 'map', 'par', 'arith', 'rev']
RECEIVER_HELPERS = ['rev1', 'rep', 'pow', 'map', 'par', 'iter', 'pad', 'matmul', 'rmatmul2', 'appended', 'arithop',
                    'paratomic']


def receiver(rng, g, cls, named, final_hold=True):
    """a template of class `cls` whose measurement windows are NOT symmetric about the middle of the pulse (declared on
    the node itself where the class can declare windows, and on the atoms below) and whose first and last voltages
    differ; `named`: the receiver carries an identifier (the merging constructors look at that)"""
    one, two = g.tm(1), g.tm(2)
    ident = 'rcv' if named else None
    v = lambda: _fr(g.val())

    def const(chans=('A',), d=None, meas=None, id=None):
        return {'k': 'const', 'id': id, 'dur': g.tm(d or rng.choice([2, 3])), 'vals': {c: v() for c in chans},
                'meas': [['m', g.tm(0), one]] if meas is None else meas}

    def table(ch='A', id=None):
        a = g.val()
        return {'k': 'table', 'id': id, 'entries': {ch: [[g.tm(0), _fr(a), 'hold'],
                                                         [two, _fr(a + rng.choice([1, -1, 2])), rng.choice(['linear', 'hold', 'jump'] if final_hold else ['linear', 'jump'])]]},
                'meas': [['n', one, one]]}

    def func(id=None):
        return {'k': 'func', 'id': id, 'ch': 'A', 'dur': two, 'a': _fr(F(rng.choice([1, -1, 2])) / g.step), 'b': v(),
                'meas': [['m', g.tm(0), one]]}
    if cls == 'const':
        return const(id=ident)
    if cls == 'table':
        return table(id=ident)
    if cls == 'func':
        return func(id=ident)
    if cls == 'amc':
        return {'k': 'amc', 'id': ident, 'meas': [['k', one, one]], 'subs': [func(), const(('B',), 2)]}
    if cls == 'seq':
        return {'k': 'seq', 'id': ident, 'meas': [['m', one, one]], 'subs': [const(), table()]}
    if cls == 'rep':
        return {'k': 'rep', 'id': ident, 'meas': [['m', g.tm(0), one]], 'n': 2, 'body': table()}
    if cls == 'for':
        body = const(d=2)
        body['vals']['A'] = [body['vals']['A'], 'j', '1']
        return {'k': 'for', 'id': ident, 'meas': [['n', one, one]], 'idx': 'j', 'range': rng.choice([[0, 2, 1], [2, 0, -1]]),
                'body': body}
    if cls == 'map':
        sub = rng.choice([const, table])()
        return {'k': 'map', 'id': ident, 'chmap': {'A': 'X'}, 'mmap': {sub['meas'][0][0]: 'k'}, 'sub': sub}
    if cls == 'par':
        return {'k': 'par', 'id': ident, 'ov': {'B': v()}, 'sub': table()}
    if cls == 'arith':
        return {'k': 'arith', 'id': ident, 'op': '+', 'side': 'l', 'scalar': _fr(g.val() or 1),
                'sub': {'k': 'seq', 'id': None, 'meas': [['m', g.tm(0), one]], 'subs': [table(), const()]}}
    if cls == 'rev':
        return {'k': 'rev', 'id': ident, 'sub': {'k': 'seq', 'id': None, 'meas': [['m', g.tm(0), one]],
                                                 'subs': [const(), table()]}}
    raise ValueError(cls)


def gen_receiver_cases(rng, exhaustive=False):
    """class `a helper overridden for ONE template class` (seed C05-7: ConstantPT.with_time_reversal returned self and
    lost the mirroring of its windows): the other constructor cases only call a helper on the class where it merges
    (with_repetition on RepetitionPTs, with_mapping on MappingPTs, pad_to on constant atoms ...) and reverse TWICE.  Here
    every helper is applied once to a receiver of every class - with / without identifier, asymmetric measurement
    windows, different first and last voltages - and compared with the explicit nesting."""
    cases = []
    for cls in RECEIVER_CLASSES:
        for helper in RECEIVER_HELPERS:
            for named in ([False, True] if exhaustive else [rng.random() < 0.4]):
                for _ in range(4):
                    step = rng.choice(STEPS)
                    g = Gen(rng, step)
                    # (pad_to: a TablePT that ENDS on a hold segment reports the value of its last entry as final value, which
                    #  it never plays - a convention of the code; the tie reads final values off the played meaning, so
                    #  such tables are not padded here)
                    # ((unnamed MappingPT, mapping) @ x: the MappingPT class itself merges the two mappings when the wrapper is
                    #  built - with_mapping's merge, covered by helper `map`; the tie has no operand for it here)
                    r = receiver(rng, g, cls, named or (cls, helper) == ('map', 'rmatmul2'), final_hold=helper != 'pad')
                    chans = out_channels(r)
                    other = lambda: {'k': 'const', 'id': None, 'dur': g.tm(rng.choice([1, 2])),
                                     'vals': {ch: _fr(g.val()) for ch in chans}, 'meas': [['k', g.tm(0), g.tm(1)]]}
                    c = {'kind': 'ctor', 'step': step, 'op': helper, 'args': [r], 'family': 'receiver', 'receiver': cls}
                    if helper in ('rep', 'pow'):
                        c['n'] = rng.choice([0, 1, 2, 3])
                    elif helper == 'map':
                        names = sorted(meas_names(r))
                        c['chmap'] = {chans[0]: 'Z'}
                        c['mmap'] = {names[0]: rng.choice(['m', 'n', 'k'])} if names and rng.random() < 0.7 else {}
                    elif helper == 'par':
                        c['ov'] = {rng.choice(chans + ['Z']): _fr(g.val())}
                    elif helper == 'iter':
                        if not force_idx(r, 'i', '1/2') or not uses_idx(r, 'i'):
                            continue
                        c['range'] = rng.choice([[0, 2, 1], [2, 0, -1], [0, 3, 2]])
                    elif helper == 'pad':
                        if edge_vals(r) is None:
                            break                               # a TimeReversalPT defines no final values
                        c['extra'] = rng.choice([1, 2])
                        if rng.random() < 0.3:
                            c['pad_mode'] = 'kwargs'
                    elif helper == 'matmul':
                        c['args'] = [r, other()] if rng.random() < 0.5 else [other(), r]
                    elif helper == 'rmatmul2':
                        # (receiver, channel mapping) @ template
                        c['op'] = 'rmatmul'
                        outer = ['C', 'Y'][:len(chans)]
                        c['chmap'] = dict(zip(chans, outer))
                        c['args'] = [r, {'k': 'const', 'id': None, 'dur': g.tm(1), 'vals': {ch: _fr(g.val()) for ch in outer},
                                         'meas': []}]
                    elif helper == 'appended':
                        c['args'] = [r, other(), other()] if rng.random() < 0.5 else [other(), r]
                    elif helper == 'arithop':
                        o = rng.choice('+-*/')
                        c['aop'] = o
                        c['side'] = 'l' if o == '/' else rng.choice('lr')
                        c['scalar'] = _fr(rng.choice([2, -1, F(1, 2)])) if o in '*/' else _fr(g.val() or 1)
                    elif helper == 'paratomic':
                        if cls not in ATOMS:
                            break
                        c['args'] = [r, {'k': 'const', 'id': None, 'dur': _fr(est_ticks(r, step) * F(step)),
                                         'vals': {'C': _fr(g.val())}, 'meas': [['k', g.tm(1), g.tm(1)]]}]
                    if not times_ok(ctor_explicit(c), step, {}) or sum(est_ticks(a, step, {'i': 0}) for a in c['args']) > 40:
                        continue
                    cases.append(c)
                    break
    return cases


# ---- helpers that combine an EXPRESSION attribute of the receiver with their argument ---------------------------------
COUNT_INNER = [['1', 'p', '1'], ['-1', 'p', '1'], ['0', 'p', '2'], ['0', 'p', '1'], ['3', 'p', '-1'],
               ['0', 'p', '1', 'q', '1'], ['1', 'p', '1', 'q', '-1'], 2]
COUNT_OUTER = [2, 3, ['1', 'q', '1'], ['1', 'p', '1'], ['-1', 'q', '1'], 0, 1]


def gen_exprattr_cases(rng, exhaustive=False):
    """class `a helper computes a new expression from an expression attribute of its receiver` (seed C05-10:
    with_repetition built the merged count from the TEXT of the two counts, 'p + 1 * 2'; every count the other families
    generate is an integer literal, every padded duration a number).  Deterministic: with_repetition / ** on a RepetitionPT
    whose count is a sum / difference / multiple of top-level parameters (merged when unnamed and without measurements,
    nested otherwise) with a number or an expression as outer count, at parameter values where n + c*m != (n + c)*m;
    pad_to on templates whose DURATION is a sum of parameter expressions, to a number / an expression of another
    parameter; compared with the explicit nesting (sampled), and with Ctors.v (tie)."""
    cases = []
    step = '1'
    g = Gen(rng, step)
    k = 0
    for inner in COUNT_INNER:
        for outer in COUNT_OUTER:
            if not isinstance(inner, list) and not isinstance(outer, list):
                continue
            for variant in (['merge', 'named', 'meas'] if exhaustive else ['merge'] if k % 4 else ['merge', 'named', 'meas'][k % 3:][:2] + ['merge']):
                for pv in ([(1, 2), (2, 3), (3, 2), (2, 1)] if exhaustive else [(2, 3), (1, 2), (3, 2)]):
                    env = {'p': F(pv[0]), 'q': F(pv[1])}
                    try:
                        ni, no = count_val(inner, env), count_val(outer, env)
                    except AssertionError:
                        continue
                    if ni * no > 12 or (not exhaustive and ni * no == 0 and k % 5):
                        continue
                    k += 1
                    body = {'k': 'table', 'id': None, 'entries': {'A': [['0', _fr(g.val()), 'hold'], ['2', _fr(g.val()), 'linear']]},
                            'meas': [['n', '1', '1']]} if k % 2 else \
                           {'k': 'const', 'id': None, 'dur': '1', 'vals': {'A': _fr(g.val() or 1)}, 'meas': [['m', '0', '1']]}
                    r = {'k': 'rep', 'id': 'rcv' if variant == 'named' else None,
                         'meas': [['k', '0', '1']] if variant == 'meas' else [], 'n': inner, 'body': body}
                    names = set(expr_names(inner)) | set(expr_names(outer))
                    cases.append({'kind': 'ctor', 'step': step, 'op': 'pow' if k % 3 == 0 else 'rep', 'args': [r], 'n': outer,
                                  'family': 'exprattr', 'params': {n: _fr(env[n]) for n in sorted(names)}})
                    if not exhaustive:
                        break
    # the outer count as a plain STRING (signature: Union[int, str, ExpressionScalar]): fine on a named receiver (the
    # string reaches RepetitionPT), SympifyError on a merged one (known finding with_repetition_string_count)
    for variant, inner in (('merge', ['1', 'p', '1']), ('named', ['1', 'p', '1']), ('merge', 2), ('meas', 2)):
        body = {'k': 'const', 'id': None, 'dur': '1', 'vals': {'A': '3/2'}, 'meas': [['m', '0', '1']]}
        r = {'k': 'rep', 'id': 'rcv' if variant == 'named' else None, 'meas': [['k', '0', '1']] if variant == 'meas' else [],
             'n': inner, 'body': body}
        cases.append({'kind': 'ctor', 'step': step, 'op': 'rep', 'args': [r], 'n': ['1', 'q', '1'], 'n_str': True,
                      'family': 'exprattr', 'params': {'p': '2', 'q': '3'} if isinstance(inner, list) else {'q': '3'}})
    # pad_to: the receiver's duration is a sum of parameter expressions
    for j, (d1, d2) in enumerate([(['1', 'p', '1'], ['1', 'p', '2']), (['0', 'p', '1'], ['2', 'p', '-1/2']),
                                  (['1', 'p', '1', 'q', '1'], None), (['2', 'q', '1'], ['0', 'p', '1'])]):
        for mode in (None, 'expr', 'kwargs', 'callable'):
            for pv in ([(2, 1), (2, 3), (4, 2)] if exhaustive else [(2, 1 + j % 2)]):
                env = {'p': F(pv[0]), 'q': F(pv[1])}
                atom = lambda d, i: {'k': 'const', 'id': None, 'dur': d, 'vals': {'A': _fr(g.val()), 'B': _fr(F(i))},
                                     'meas': [['m', '0', '1']]}
                inner = atom(d1, 1) if d2 is None else {'k': 'seq', 'id': None if j % 2 else 's', 'meas': [],
                                                        'subs': [atom(d1, 1), atom(d2, 2)]}
                names = free_names(inner)
                extra = 1 + (j + len(cases)) % 3
                c = {'kind': 'ctor', 'step': step, 'op': 'pad', 'args': [inner], 'extra': extra, 'family': 'exprattr'}
                if mode:
                    c['pad_mode'] = mode
                total = est_ticks(inner, step, env)
                if mode == 'expr':
                    # new duration = an expression of the OTHER parameter where there is one, valued total + extra
                    other = 'q' if 'q' not in names else 'p'
                    coef = F(2)
                    c['new_duration'] = [_fr(total + extra - coef * env[other]), other, _fr(coef)]
                    names = set(names) | {other}
                c['params'] = {n: _fr(env[n]) for n in sorted(names)}
                if times_ok(inner, step, env) and total + extra <= 40:
                    cases.append(c)
    return cases


def ctor_explicit(c):
    """JSON tree of the explicit nesting a constructor call replaces"""
    op = c['op']
    a = c['args']
    if op == 'script':
        return script_values(c)[c['target']]
    if op in ('appended', 'paratomic') and len(a) == 1:
        return a[0]
    if op in ('matmul', 'concat', 'appended'):
        return {'k': 'seq', 'id': None, 'meas': [], 'subs': list(a)}
    if op == 'rmatmul':
        return {'k': 'seq', 'id': None, 'meas': [], 'subs': [
            {'k': 'map', 'id': None, 'chmap': dict(c['chmap']), 'mmap': {}, 'sub': a[0]}, a[1]]}
    if op == 'arithop':
        return {'k': 'arith', 'id': None, 'op': c['aop'], 'side': c['side'], 'scalar': c['scalar'], 'sub': a[0]}
    if op in ('rep', 'pow'):
        return {'k': 'rep', 'id': None, 'meas': [], 'n': c['n'], 'body': a[0]}
    if op == 'map':
        node = {'k': 'map', 'id': None, 'chmap': dict(c['chmap']), 'mmap': dict(c.get('mmap') or {}), 'sub': a[0]}
        if c.get('pmap'):
            node['pmap'] = dict(c['pmap'])
        return node
    if op == 'paratomic':
        return {'k': 'amc', 'id': None, 'meas': [], 'subs': list(a)}
    if op == 'par':
        return {'k': 'par', 'id': None, 'ov': dict(c['ov']), 'sub': a[0]}
    if op == 'rev2':
        return {'k': 'rev', 'id': None, 'sub': {'k': 'rev', 'id': 'first' if c['named'] else None, 'sub': a[0]}}
    if op == 'rev1':
        return {'k': 'rev', 'id': None, 'sub': a[0]}
    if op == 'iter':
        return {'k': 'for', 'id': None, 'meas': [], 'idx': 'i', 'range': list(c['range']), 'body': a[0]}
    if op == 'pad':
        inner = a[0]
        if c['extra'] == 0:
            return inner
        # the final values of the operand, from its description alone (edge_vals)
        fv = edge_vals(inner)
        pad = {'k': 'const', 'id': None, 'dur': _fr(F(c['extra']) * F(c['step'])),
               'vals': {ch: aff_json(v) for ch, v in fv.items()}, 'meas': []}
        return {'k': 'seq', 'id': 'padded' if c.get('pad_mode') == 'kwargs' else None, 'meas': [], 'subs': [inner, pad]}
    raise ValueError(op)


def ctor_call(c, a=None):
    """the real convenience constructor applied to real operand templates (`a`: operands built by the caller)"""
    from qupulse.pulses import SequencePT, TimeReversalPT
    op = c['op']
    a = a if a is not None else [I.build_pt(x) for x in c['args']]
    if op == 'matmul':
        return a[0] @ a[1]
    if op == 'concat':
        return SequencePT.concatenate(*a)
    if op == 'appended':
        return a[0].with_appended(*a[1:])
    if op == 'rmatmul':
        return (a[0], dict(c['chmap'])) @ a[1]
    if op == 'arithop':
        import operator
        f = {'+': operator.add, '-': operator.sub, '*': operator.mul, '/': operator.truediv}[c['aop']]
        sc = c['scalar']
        sc = {ch: I._py(v) for ch, v in sc.items()} if isinstance(sc, dict) else I._py(sc)
        return f(a[0], sc) if c['side'] == 'l' else f(sc, a[0])
    if op in ('rep', 'pow'):
        n = c['n']
        if isinstance(n, list):
            # an expression as outer count is handed over as ExpressionScalar, or (n_str) as the plain string the
            # signature also allows: that raises SympifyError on a receiver whose count is merged (ExpressionScalar * str
            # is not defined) - known finding with_repetition_string_count
            from qupulse.expressions import ExpressionScalar
            n = str(I._expr(n)) if c.get('n_str') else ExpressionScalar(str(I._expr(n)))
        return a[0].with_repetition(n) if op == 'rep' else a[0] ** n
    if op == 'map':
        kw = {'parameter_mapping': {k: str(I._expr(e)) for k, e in c['pmap'].items()}} if c.get('pmap') else {}
        if c.get('positional'):
            maps = [m for m in (dict(c['chmap']), dict(c.get('mmap') or {}), kw.get('parameter_mapping')) if m]
            return a[0].with_mapping(*maps)
        return a[0].with_mapping(channel_mapping=dict(c['chmap']), measurement_mapping=dict(c.get('mmap') or {}), **kw)
    if op == 'paratomic':
        return a[0].with_parallel_atomic(*a[1:])
    if op == 'par':
        return a[0].with_parallel_channels({k: I._py(v) for k, v in c['ov'].items()})
    if op == 'rev2':
        first = TimeReversalPT(a[0], identifier='first') if c['named'] else a[0].with_time_reversal()
        return first.with_time_reversal()
    if op == 'rev1':
        return a[0].with_time_reversal()
    if op == 'iter':
        return a[0].with_iteration('i', tuple(c['range']))
    if op == 'pad':
        total = est_ticks(c['args'][0], c['step'], {k: F(v) for k, v in (c.get('params') or {}).items()}) * F(c['step'])
        mode = c.get('pad_mode')
        if mode == 'expr':
            # the new duration is an EXPRESSION of a top-level parameter (its value: total + extra ticks)
            return a[0].pad_to(str(I._expr(c['new_duration'])))
        if mode == 'callable':
            return a[0].pad_to(lambda d: d + I._py(F(c['extra']) * F(c['step'])))
        if mode == 'next_multiple':
            from qupulse.utils import to_next_multiple
            return a[0].pad_to(to_next_multiple(int(1 / F(c['step'])), c['quantum']))
        if mode == 'kwargs':
            return a[0].pad_to(I._py(total + F(c['extra']) * F(c['step'])), pt_kwargs={'identifier': 'padded'})
        return a[0].pad_to(I._py(total + F(c['extra']) * F(c['step'])))
    raise ValueError(op)


# ---- scripts: several constructor calls / queries on SHARED template objects, in a given order --------------------------
# A script case is {'kind':'ctor','op':'script','args':[base trees],'steps':[step...],'target':k,'same':None|'before'|
# 'after'|'fresh-first', 'params':{'i':..}}.  Values v0..v(n-1) are the base templates (built ONCE), every step appends
# one value (or none, for a query) and is executed on the real objects in the order given:
#   ['pad', s, extra]        v_s.pad_to(duration + extra ticks)
#   ['iter', s, [a, b, st]]  v_s.with_iteration('i', (a, b, st))
#   ['par', s, {ch: num}]    v_s.with_parallel_channels({...})
#   ['rep', s, n]            v_s.with_repetition(n)
#   ['map', s, chmap, pmap]  v_s.with_mapping(channel_mapping=.., parameter_mapping=..)
#   ['seq', s, s2]           v_s @ v_s2            (s2 == s allowed: the very same object twice)
#   ['rev', s]               v_s.with_time_reversal()
#   ['arith', s, op, num]    ArithmeticPT(v_s, op, num)         (a plain wrapper, shares v_s)
#   ['query', s, attribute]  getattr(v_s, attribute) / a plain create_program; exceptions are swallowed (the caller
#                            survives a failed call); produces no value
# The explicit nesting of a value is the JSON tree obtained by replacing every constructor by the class it stands for
# (pad: SequencePT(x, ConstantPT(extra, final values of x)) with the final values computed HERE, by `final_vals`, from
# the description alone).  `same`: the explicit nesting is built from fresh objects (None), or from the SAME base objects
# before the steps run / after them.

SCRIPT_QUERIES = ['final_values', 'initial_values', 'duration', 'integral', 'parameter_names', 'defined_channels',
                  'measurement_names', 'compile']


def aff(x):
    """JSON number -> {name: coefficient} ('' = constant term)"""
    d = {'': F(x[0]) if isinstance(x, list) else F(x)}
    for n, k in I.terms(x):
        d[n] = d.get(n, F(0)) + k
    return d


def aff_json(d):
    out = [_fr(d.get('', F(0)))]
    for n in sorted(k for k in d if k and d[k] != 0):
        out += [n, _fr(d[n])]
    return out if len(out) > 1 else out[0]


def aff_lin(a, ka, b=None, kb=0):
    out = {n: F(ka) * v for n, v in a.items()}
    for n, v in (b or {}).items():
        out[n] = out.get(n, F(0)) + F(kb) * v
    return out


def aff_const(a):
    return all(v == 0 for n, v in a.items() if n)


def aff_mul(a, b):
    if aff_const(b):
        return aff_lin(a, b.get('', F(0)))
    if aff_const(a):
        return aff_lin(b, a.get('', F(0)))
    return None


def aff_subst(a, sub):
    """simultaneous substitution name -> affine"""
    out = {'': a.get('', F(0))}
    for n, k in a.items():
        if not n:
            continue
        out = aff_lin(out, 1, sub[n] if n in sub else {n: F(1)}, k)
    return out


def last_index(r):
    vals = list(range(*r))
    return vals[-1] if vals else r[0]          # an empty loop plays nothing; the code substitutes the start value


def edge_vals(node, final=True):
    """{channel: affine} = the voltages a template ends on (final) / starts with, as expressions in the names the
    template reads; None when the code defines none (TimeReversalPT) or the value is not affine.  Computed from the
    description alone: this is the meaning of `final values of pt` in pad_to's explicit nesting."""
    k = node['k']
    if k == 'const':
        return {c: aff(v) for c, v in node['vals'].items()}
    if k == 'table':
        return {c: aff(es[-1 if final else 0][1]) for c, es in node['entries'].items()}
    if k == 'func':
        b = aff(node['b'])
        return {node['ch']: aff_lin(b, 1, aff(node['dur']), F(node['a'])) if final else b}
    if k == 'amc':
        out = {}
        for s in node['subs']:
            v = edge_vals(s, final)
            if v is None:
                return None
            out.update(v)
        return out
    if k == 'seq':
        return edge_vals(node['subs'][-1 if final else 0], final)
    if k == 'rep':
        return edge_vals(node['body'], final)
    if k == 'rev':
        return None
    sub = edge_vals(I.children(node)[0], final)
    if sub is None:
        return None
    if k == 'for':
        r = node['range']
        at = {node['idx']: {'': F(last_index(r) if final else r[0])}}
        return {c: aff_subst(v, at) for c, v in sub.items()}
    if k == 'map':
        pm = {n: aff(e) for n, e in (node.get('pmap') or {}).items()}
        return {node['chmap'].get(c, c): aff_subst(v, pm) for c, v in sub.items()}
    if k == 'par':
        return dict(sub, **{c: aff(v) for c, v in node['ov'].items()})
    if k == 'arith':
        sc = node['scalar']
        out = {}
        for c, v in sub.items():
            if isinstance(sc, dict) and c not in sc:
                out[c] = aff_lin(v, -1) if node['side'] == 'r' and node['op'] == '-' else v
                continue
            s = aff(sc[c] if isinstance(sc, dict) else sc)
            if node['op'] == '+':
                r = aff_lin(v, 1, s, 1)
            elif node['op'] == '-':
                r = aff_lin(v, 1, s, -1) if node['side'] == 'l' else aff_lin(s, 1, v, -1)
            elif node['op'] == '*':
                r = aff_mul(v, s)
            else:
                r = aff_lin(v, 1 / s['']) if aff_const(s) and s[''] != 0 and node['side'] == 'l' else None
            if r is None:
                return None
            out[c] = r
        return out
    raise ValueError(k)


def script_values(c):
    """explicit nesting (JSON tree) of every value of a script; None for a value that cannot be formed"""
    vals = list(c['args'])
    for st in c['steps']:
        op, s = st[0], st[1]
        x = vals[s]
        if op == 'query':
            continue
        if x is None:
            vals.append(None)
        elif op == 'pad':
            fv = edge_vals(x)
            if st[2] == 0:
                vals.append(x)
            elif fv is None:
                vals.append(None)
            else:
                pad = {'k': 'const', 'id': None, 'dur': _fr(F(st[2]) * F(c['step'])),
                       'vals': {ch: aff_json(v) for ch, v in fv.items()}, 'meas': []}
                vals.append({'k': 'seq', 'id': None, 'meas': [], 'subs': [x, pad]})
        elif op == 'iter':
            vals.append({'k': 'for', 'id': None, 'meas': [], 'idx': 'i', 'range': list(st[2]), 'body': x})
        elif op == 'par':
            vals.append({'k': 'par', 'id': None, 'ov': dict(st[2]), 'sub': x})
        elif op == 'rep':
            vals.append({'k': 'rep', 'id': None, 'meas': [], 'n': st[2], 'body': x})
        elif op == 'map':
            node = {'k': 'map', 'id': None, 'chmap': dict(st[2]), 'mmap': {}, 'sub': x}
            if st[3]:
                node['pmap'] = dict(st[3])
            vals.append(node)
        elif op == 'seq':
            vals.append(None if vals[st[2]] is None else {'k': 'seq', 'id': None, 'meas': [], 'subs': [x, vals[st[2]]]})
        elif op == 'rev':
            vals.append({'k': 'rev', 'id': None, 'sub': x})
        elif op == 'arith':
            vals.append({'k': 'arith', 'id': None, 'op': st[2], 'side': 'l', 'scalar': st[3], 'sub': x})
        else:
            raise ValueError(op)
    return vals


def script_ancestry(c, k):
    """indices of the values a value is built from (excluding itself)"""
    src = {}
    n = len(c['args'])
    for st in c['steps']:
        if st[0] == 'query':
            continue
        src[n] = [st[1]] + ([st[2]] if st[0] == 'seq' else [])
        n += 1
    out, todo = set(), list(src.get(k, []))
    while todo:
        x = todo.pop()
        if x not in out:
            out.add(x)
            todo += src.get(x, [])
    return out


def script_run(c, pool):
    """execute the steps of a script on the real objects `pool` (list, extended in place)"""
    from qupulse.pulses import ArithmeticPT
    step = F(c['step'])
    vals = script_values(c)
    k = len(c['args'])
    for st in c['steps']:
        op, x = st[0], pool[st[1]]
        if op == 'query':
            try:
                if st[2] == 'compile':
                    x.create_program(parameters=I.py_params(c.get('params')))
                else:
                    getattr(x, st[2])
            except Exception:
                pass
            continue
        if op == 'pad':
            total = est_ticks(vals[st[1]], c['step'], {n: F(v) for n, v in (c.get('params') or {}).items()}) * step
            new = x.pad_to(I._py(total + F(st[2]) * step))
        elif op == 'iter':
            new = x.with_iteration('i', tuple(st[2]))
        elif op == 'par':
            new = x.with_parallel_channels({ch: I._expr(v) for ch, v in st[2].items()})
        elif op == 'rep':
            new = x.with_repetition(st[2])
        elif op == 'map':
            kw = {'parameter_mapping': {n: str(I._expr(e)) for n, e in st[3].items()}} if st[3] else {}
            new = x.with_mapping(channel_mapping=dict(st[2]), **kw)
        elif op == 'seq':
            new = x @ pool[st[2]]
        elif op == 'rev':
            new = x.with_time_reversal()
        elif op == 'arith':
            new = ArithmeticPT(x, st[2], I._expr(st[3]))
        pool.append(new)
        k += 1
    return pool


def script_impl(c):
    """-> {'built': description of the target value, 'o1': what it plays, 'o2': what the explicit nesting plays}"""
    params = c.get('params')
    explicit = ctor_explicit(c)
    pool = [I.build_pt(a) for a in c['args']]
    share = {canon(a): {(): o} for a, o in zip(c['args'], pool)}
    same = c.get('same')
    o2 = None
    if same == 'before':
        o2 = I.observe(I.build_pt(explicit, None, (), share).create_program(parameters=I.py_params(params)), c['step'])
    elif same == 'fresh-first':
        o2 = I.run_options(explicit, [], None, c['step'], params=params)
    script_run(c, pool)
    built = pool[c['target']]
    o1 = I.observe(built.create_program(parameters=I.py_params(params)), c['step'])
    if same == 'after':
        o2 = I.observe(I.build_pt(explicit, None, (), share).create_program(parameters=I.py_params(params)), c['step'])
    elif o2 is None:
        o2 = I.run_options(explicit, [], None, c['step'], params=params)
    return built, o1, o2


def script_base(rng, g, chans, kind):
    """a base template whose VALUES read the index i and whose durations do not"""
    A = lambda: g.simple_atom(chans, ['i'])
    for _ in range(30):
        if kind == 'seq':
            t = {'k': 'seq', 'id': g.ident(), 'meas': g.meas(2), 'subs': [A() for _ in range(rng.randint(1, 3))]}
        elif kind == 'atom':
            t = A()
        elif kind == 'repseq':
            t = {'k': 'rep', 'id': g.ident(), 'meas': [], 'n': rng.choice([1, 2]),
                 'body': {'k': 'seq', 'id': g.ident(), 'meas': [], 'subs': [A(), A()]}}
        elif kind == 'seqseq':
            t = {'k': 'seq', 'id': g.ident(), 'meas': [], 'subs': [
                A(), {'k': 'seq', 'id': g.ident(), 'meas': g.meas(2), 'subs': [A(), A()]}]}
        else:
            t = g.tree(rng.randint(1, 2), chans, idxs=['i'], kinds=['seq', 'seq', 'rep', 'par', 'arith', 'map'])
        fv = edge_vals(t)
        if fv is None or not any('i' in v and v['i'] != 0 for v in fv.values()):
            last = t
            while last['k'] in ('seq', 'rep'):
                last = last['subs'][-1] if last['k'] == 'seq' else last['body']
            force_final_idx(last)
            fv = edge_vals(t)
        if fv is None or not any(v.get('i') for v in fv.values()):
            continue
        if len({est_ticks(t, g.step, {'i': v}) for v in (0, 1, 2, 5)}) != 1 or est_ticks(t, g.step, {'i': 0}) <= 0:
            continue
        if not all(times_ok(t, g.step, {'i': F(v)}) for v in (0, 1, 2, 5)):
            continue
        return t
    return None


def force_final_idx(node):
    """make the LAST value of an atom depend on i (so that the final values of everything ending on it do)"""
    if node['k'] == 'const':
        c = sorted(node['vals'])[0]
        if not isinstance(node['vals'][c], list):
            node['vals'][c] = [node['vals'][c], 'i', '1']
    elif node['k'] == 'table':
        c = sorted(node['entries'])[0]
        e = node['entries'][c][-1]
        if not isinstance(e[1], list):
            e[1] = [e[1], 'i', '1']
            if len(node['entries'][c]) == 2 and not isinstance(node['entries'][c][0][1], list):
                node['entries'][c][0][1] = [node['entries'][c][0][1], 'i', '-1/2']


def script_step(rng, g, c, vals, kinds, src=None):
    """one random applicable step (or None)"""
    live = [k for k, v in enumerate(vals) if v is not None]
    s = src if src is not None else rng.choice(live)
    x = vals[s]
    op = rng.choice(kinds)
    chans = out_channels(x)
    if op == 'pad':
        return ['pad', s, rng.choice([1, 2, 2, 3, 0])] if edge_vals(x) is not None else None
    if op == 'iter':
        return ['iter', s, rng.choice([[0, 3, 1], [0, 2, 1], [2, 0, -1], [1, 6, 2], [0, 4, 3]])] \
            if 'i' in free_names(x) else None
    if op == 'par':
        ch = rng.choice(chans + ['Z'])
        v = _fr(g.val())
        return ['par', s, {ch: [v, 'i', _fr(rng.choice([1, -1, F(1, 2)]))] if rng.random() < 0.5 else v}]
    if op == 'rep':
        return ['rep', s, rng.choice([1, 2, 2, 3])]
    if op == 'map':
        pm = {'i': [_fr(rng.choice([0, 1, -1])), 'i', _fr(rng.choice([1, 2, -1, F(1, 2)]))]} \
            if 'i' in free_names(x) and rng.random() < 0.7 else None
        free = [z for z in 'ABCXYZ' if z not in chans]
        cm = {rng.choice(chans): rng.choice(free)} if rng.random() < 0.5 or not pm else {}
        return ['map', s, cm, pm]
    if op == 'seq':
        cand = [k for k in live if sorted(out_channels(vals[k])) == sorted(chans)]
        return ['seq', s, rng.choice(cand)]
    if op == 'rev':
        return ['rev', s]
    if op == 'arith':
        o = rng.choice('+-*')
        return ['arith', s, o, _fr(rng.choice([2, -1, F(1, 2)])) if o == '*' else
                ([_fr(g.val()), 'i', '1'] if rng.random() < 0.4 else _fr(g.val() or 1))]
    if op == 'query':
        return ['query', s, rng.choice(SCRIPT_QUERIES[:2] * 3 + SCRIPT_QUERIES)]
    raise ValueError(op)


def script_finish(rng, c, budget=48):
    """choose params / validate; None when the target cannot be compiled within the assumptions"""
    vals = script_values(c)
    t = vals[c['target']]
    if t is None:
        return None
    if c['target'] < len(c['args']) and c.get('same') == 'after':
        c['same'] = None              # a receiver compared with itself says nothing; 'before' = compiled before AND after
    names = free_names(t)
    if names - {'i'}:
        return None
    if 'i' in names:
        c['params'] = {'i': _fr(rng.choice([5, 4, -3, 7]))}         # outside every generated loop range
    env = {k: F(v) for k, v in (c.get('params') or {}).items()}
    try:
        if not times_ok(t, c['step'], env) or not 0 < est_ticks(t, c['step'], env) <= budget:
            return None
        for st in c['steps']:                        # durations handed to pad_to must be whole positive ticks
            if st[0] == 'pad' and est_ticks(vals[st[1]], c['step'], env) <= 0:
                return None
    except KeyError:
        return None
    return c


SCRIPT_WRAPS = ['iter', 'par', 'rep', 'map', 'seq', 'arith']


def gen_script_cases(rng, n, exhaustive=False):
    """class `order of operations on shared template objects`:
    (a) ORDER family: base b; wrappers w = W_k(..W_1(b)) (k <= 2) built through the convenience constructors; then a
        TRIGGER on the wrapper (pad_to / reading final_values / initial_values / compiling it), and only then the
        ACTION on the inner object (b.pad_to, or pad of an intermediate wrapper); targets: the padded inner template, a
        sweep of it, the wrapper padded again, a second pad of the same object; bottom-up control orders included;
    (b) random scripts over all step kinds (constructors applied twice, the same object twice in a sequence, queries
        in between), random target.
    Every case compares the constructor result with the explicit nesting built from fresh objects or from the same
    base objects (before / after the script)."""
    cases = []
    sames = [None, 'after', 'before', 'fresh-first']
    chains = [(w,) for w in SCRIPT_WRAPS] + [(a, b) for a in SCRIPT_WRAPS for b in SCRIPT_WRAPS]
    bases = ['seq', 'atom', 'repseq', 'seqseq', 'tree']
    triggers = ['pad', 'final_values', 'initial_values', 'compile', 'none']
    combos = [(b, ch, tr) for b in bases for ch in chains for tr in triggers]
    if exhaustive:        # every base x single wrapper x trigger; all wrapper pairs on the two sequence bases
        combos = [x for x in combos if len(x[1]) == 1 or x[0] in ('seq', 'seqseq')]
    if not exhaustive:
        must = [(b, (w,), tr) for b in ('seq', 'seqseq') for w in ('iter', 'par') for tr in ('pad', 'final_values')]
        rest = [x for x in combos if x not in must]
        rng.shuffle(rest)
        combos = must + rest[:max(0, n // 4 - len(must))]
    for bi, (bk, chain, trig) in enumerate(combos):
        for _ in range(6):
            step = rng.choice(STEPS)
            g = Gen(rng, step)
            chans = rng.choice([['A'], ['A', 'B'], ['X']])
            b = script_base(rng, g, chans, bk)
            if b is None:
                continue
            c = {'kind': 'ctor', 'op': 'script', 'step': step, 'args': [b], 'steps': [], 'family': 'order'}
            vals = [b]
            ok = True
            for w in chain:                                   # wrappers, outermost last
                st = script_step(rng, g, c, vals, [w], src=len(vals) - 1)
                if st is None:
                    ok = False
                    break
                c['steps'].append(st)
                vals = script_values(c)
            if not ok:
                continue
            top = len(vals) - 1
            if trig == 'pad':
                if edge_vals(vals[top]) is None:
                    continue
                c['steps'].append(['pad', top, rng.choice([1, 2])])
            elif trig != 'none':
                c['steps'].append(['query', top, trig])
            vals = script_values(c)
            # the action: pad an inner object (the base or, for chains of two, the first wrapper)
            inner = rng.choice([0] * 3 + list(range(1, top))) if top > 1 else 0
            c['steps'].append(['pad', inner, rng.choice([1, 2, 3])])
            padded = len(script_values(c)) - 1
            variants = [('padded', [])]
            if 'i' in free_names(script_values(c)[padded]):
                variants.append(('sweep', [['iter', padded, [0, 3, 1]]]))
            if trig == 'pad':
                variants.append(('top', None))                 # the padded wrapper itself (top-down pad result)
            variants.append(('again', [['pad', inner, rng.choice([1, 2, 4])]]))        # the same object padded twice
            variants.append(('padpad', [['pad', padded, 1]]))                           # pad of the padded template
            variants.append(('rewrap', [script_step(rng, g, c, script_values(c), [chain[0]], src=padded)]))
            variants.append(('base', 'base'))            # the receiver itself, after everything was built from it
            if not exhaustive:
                variants = variants[:2] + rng.sample(variants[2:], 1) if len(variants) > 2 else variants
            for name, extra in variants:
                cc = copy.deepcopy(c)
                if extra == 'base':
                    cc['target'] = rng.choice(range(top + 1))      # the base or one of the wrappers, compiled last
                elif extra is None:
                    cc['target'] = padded - 1
                elif any(e is None for e in extra):
                    continue
                else:
                    cc['steps'] += extra
                    cc['target'] = len(script_values(cc)) - 1
                cc['same'] = sames[(bi + len(cases)) % 4]
                cc['variant'] = name
                cc = script_finish(rng, cc)
                if cc is not None:
                    cases.append(cc)
            break
    # (b) random scripts
    kinds = ['pad', 'pad', 'pad', 'iter', 'par', 'rep', 'map', 'seq', 'rev', 'arith', 'query', 'query']
    tries = 0
    want = len(cases) + (n // 3 if not exhaustive else n)
    while len(cases) < want and tries < 40 * n:
        tries += 1
        step = rng.choice(STEPS)
        g = Gen(rng, step)
        chans = rng.choice([['A'], ['A', 'B']])
        args = [script_base(rng, g, chans, rng.choice(bases)) for _ in range(rng.choice([1, 1, 2]))]
        if any(a is None for a in args):
            continue
        c = {'kind': 'ctor', 'op': 'script', 'step': step, 'args': args, 'steps': [], 'family': 'script'}
        for _ in range(rng.randint(2, 6)):
            vals = script_values(c)
            live = [k for k, v in enumerate(vals) if v is not None]
            r = rng.random()
            src = live[-1] if r < 0.4 else rng.choice(range(len(args))) if r < 0.7 else rng.choice(live)
            st = script_step(rng, g, c, vals, kinds, src=src)
            if st is not None:
                c['steps'].append(st)
        vals = script_values(c)
        pads = [len(args) + k for k, st in enumerate(s for s in c['steps'] if s[0] != 'query') if st[0] == 'pad']
        live = [k for k in range(len(args), len(vals)) if vals[k] is not None]
        if not live:
            continue
        c['target'] = rng.choice(pads) if pads and rng.random() < 0.7 else rng.choice(live)
        if rng.random() < 0.12:
            c['target'] = rng.choice(range(len(args)))         # a receiver itself: must be what it was
        c['same'] = rng.choice(sames)
        c = script_finish(rng, c)
        if c is not None:
            cases.append(c)
    return cases


def describe(pt):
    """JSON tree of a real template object (structure read back from the object's public attributes)"""
    import sympy
    from qupulse.pulses import (ConstantPT, TablePT, SequencePT, RepetitionPT, ForLoopPT, MappingPT, TimeReversalPT,
                                ParallelChannelPT, ArithmeticPT, FunctionPT, AtomicMultiChannelPT)
    from qupulse.expressions import ExpressionScalar

    def numj(x):
        """number or affine expression in one loop index -> JSON number"""
        if isinstance(x, (int, float)):
            return _fr(vlib.to_fraction(x))
        e = sympy.sympify(getattr(x, 'sympified_expression', getattr(x, 'underlying_expression', x))).doit()
        syms = sorted(e.free_symbols, key=str)
        if not syms:
            return _fr(vlib.to_fraction(float(e)) if not e.is_Rational else F(int(e.p), int(e.q)))
        tof = lambda v: F(int(v.p), int(v.q)) if v.is_Rational else vlib.to_fraction(float(v))
        zero = {s: 0 for s in syms}
        c0 = e.subs(zero)
        out = [_fr(tof(c0))]
        rest = e - c0
        for s in syms:
            one = dict(zero)
            one[s] = 1
            k = sympy.simplify(e.subs(one) - c0)
            rest = rest - k * s
            if k != 0:
                out += [str(s), _fr(tof(k))]
        assert sympy.simplify(rest) == 0, e          # affine
        return out if len(out) > 1 else out[0]

    def meas(p):
        return [[m[0], numj(m[1]), numj(m[2])] for m in (p.measurement_declarations or [])]
    ident = pt.identifier
    if isinstance(pt, ConstantPT):
        d = pt.get_serialization_data()
        return {'k': 'const', 'id': ident, 'dur': numj(d['duration']),
                'vals': {c: numj(v) for c, v in d['amplitude_dict'].items()}, 'meas': meas(pt)}
    if isinstance(pt, TablePT):
        return {'k': 'table', 'id': ident,
                'entries': {c: [[numj(e.t), numj(e.v), str(e.interp)] for e in es] for c, es in pt.entries.items()},
                'meas': meas(pt)}
    if isinstance(pt, FunctionPT):
        e = sympy.expand(pt.expression.sympified_expression)
        t = sympy.Symbol('t')
        a = e.coeff(t, 1)
        assert a.is_number and sympy.simplify(e - a * t - e.coeff(t, 0)) == 0, e
        (ch,) = pt.defined_channels
        return {'k': 'func', 'id': ident, 'ch': ch, 'dur': numj(pt.duration), 'a': numj(a), 'b': numj(e.coeff(t, 0)),
                'meas': meas(pt)}
    if isinstance(pt, AtomicMultiChannelPT):
        return {'k': 'amc', 'id': ident, 'meas': meas(pt), 'subs': [describe(s) for s in pt.subtemplates]}
    if isinstance(pt, SequencePT):
        return {'k': 'seq', 'id': ident, 'meas': meas(pt), 'subs': [describe(s) for s in pt.subtemplates]}
    if isinstance(pt, RepetitionPT):
        n = sympy.sympify(pt.repetition_count.sympified_expression)
        if n.is_Integer:
            n = int(n)
        else:
            try:
                n = numj(n)
            except AssertionError:          # not affine: e.g. the product of two expression counts
                n = {'sympy': str(n)}
        return {'k': 'rep', 'id': ident, 'meas': meas(pt), 'n': n, 'body': describe(pt.body)}
    if isinstance(pt, ForLoopPT):
        r = pt.loop_range.to_tuple()
        return {'k': 'for', 'id': ident, 'meas': meas(pt), 'idx': pt.loop_index, 'range': [int(x) for x in r],
                'body': describe(pt.body)}
    if isinstance(pt, MappingPT):
        node = {'k': 'map', 'id': ident, 'chmap': dict(pt.channel_mapping),
                'mmap': {a: b for a, b in pt.measurement_mapping.items() if a != b}, 'sub': describe(pt.template)}
        pm = {k: numj(v) for k, v in pt.parameter_mapping.items() if str(v) != k}
        if pm:
            node['pmap'] = pm
        return node
    if isinstance(pt, ParallelChannelPT):
        return {'k': 'par', 'id': ident, 'ov': {c: numj(v) for c, v in pt.overwritten_channels.items()},
                'sub': describe(pt.template)}
    if isinstance(pt, ArithmeticPT):
        left = pt.lhs is pt._pulse_template
        sc = pt.rhs if left else pt.lhs
        sc = {c: numj(v) for c, v in sc.items()} if isinstance(sc, dict) else numj(sc)
        return {'k': 'arith', 'id': ident, 'op': pt._arithmetic_operator, 'side': 'l' if left else 'r', 'scalar': sc,
                'sub': describe(pt._pulse_template)}
    if isinstance(pt, TimeReversalPT):
        return {'k': 'rev', 'id': ident, 'sub': describe(pt._inner)}
    raise TypeError(type(pt))


# ---------------------------------------------------------------------------------------------------------------------

def gen_cases(rng, tier, ctx):
    cases = fixed_cases()
    if tier == 'quick':
        cases += gen_opt_cases(rng, 180, 3, 3)
        cases += gen_opt_cases(rng, 25, 2, 0, exhaustive=True)
        cases += gen_rebind_cases(rng, 80)
        cases += gen_shape_cases(rng, 100)
        cases += gen_ctor_cases(rng, 240)
        cases += gen_receiver_cases(rng)
        cases += gen_script_cases(rng, 130)
        cases += gen_exprattr_cases(rng)       # (last: the families above see the same random stream as before round 6)
    else:
        cases += gen_opt_cases(rng, 900, 4, 4)
        cases += gen_opt_cases(rng, 150, 3, 0, exhaustive=True)
        cases += gen_rebind_cases(rng, 0, exhaustive=True)
        cases += gen_rebind_cases(rng, 400)
        cases += gen_shape_cases(rng, 800)
        cases += gen_ctor_cases(rng, 1200)
        cases += gen_receiver_cases(rng, exhaustive=True)
        cases += gen_receiver_cases(rng)
        cases += gen_receiver_cases(rng)
        cases += gen_script_cases(rng, 200, exhaustive=True)
        cases += gen_script_cases(rng, 500)
        cases += gen_exprattr_cases(rng, exhaustive=True)
    return cases


def _guard(fn):
    try:
        with vlib.time_limit(20):
            return fn()
    except vlib.Timeout:
        return {'hang': True}
    except KeyError as e:
        if e.args and e.args[0] == 'Invalid input channels':
            # LinearTransformation did not get its input channels (seen when ParallelChannelPT chains the global
            # transformation before adding its channel): an expected error kind, reported as observation
            return {'raise': 'KeyError'}
        return {'crash': 'KeyError: %s' % str(e)[:200]}
    except Exception as e:      # every exception is unexpected here: all generated inputs are valid
        return {'crash': '%s: %s' % (type(e).__name__, str(e)[:200])}


def run_impl(case):
    import warnings
    if case['kind'] == 'opt':
        def go():
            kw = {'params': case.get('params'), 'share': bool(case.get('share')), 'cp': case.get('cp')}
            built = None
            if case.get('reuse'):
                objs = {}
                with warnings.catch_warnings():
                    warnings.simplefilter('ignore')
                    built = (I.build_pt(case['tree'], objs, share={} if case.get('share') else None), objs)
            plain = I.run_options(case['tree'], [], None, case['step'], built=built, **kw)
            opt = _guard(lambda: I.run_options(case['tree'], case['S'], case['G'], case['step'], built=built, **kw))
            for o in (plain, opt):
                if 'crash' in o or 'hang' in o:
                    return o
            if built is not None:
                again = I.run_options(case['tree'], [], None, case['step'], built=built, **kw)
                if again != plain:
                    return {'crash': 'the plain compilation of the same template objects differs after the option run'}
            return {'plain': plain, 'opt': opt}
        return _guard(go)
    if case['kind'] == 'ctor':
        def go():
            with warnings.catch_warnings():
                warnings.simplefilter('ignore')
                if case['op'] == 'script':
                    built, o1, o2 = script_impl(case)
                    for o in (o1, o2):
                        if 'crash' in o:
                            return o
                    return {'built': describe(built), 'o1': o1, 'o2': o2}
                # the operands are compiled before and after the call: a constructor must leave them as they were
                operands = [I.build_pt(x) for x in case['args']]
                pp = dict({'i': 1}, **I.py_params(case.get('params')))

                def look():
                    try:
                        return [I.observe(a.create_program(parameters=pp), case['step']) for a in operands]
                    except Exception as e:
                        return 'not compilable: %s' % type(e).__name__
                before = look()
                built = ctor_call(case, operands)
                o1 = I.observe(built.create_program(parameters=I.py_params(case.get('params'))), case['step'])
                o2 = I.run_options(ctor_explicit(case), [], None, case['step'], params=case.get('params'))
                for o in (o1, o2):
                    if 'crash' in o:
                        return o
                if look() != before:
                    return {'crash': 'the convenience constructor changed one of its operands (compiled before and '
                                     'after the call: different programs)'}
                # the operands as the real objects are (MappingPT(MappingPT(x)) already merges when it is built)
                bad = bad_counts(describe(built), case.get('params'))
                if bad:
                    return {'crash': 'the constructor returned a RepetitionPT whose count %s is not a non-negative integer '
                                     'at the parameters of the case (the counts of the explicit nesting are)' % (bad,)}
                return {'built': describe(built), 'o1': o1, 'o2': o2,
                        'args': [describe(I.build_pt(x)) for x in case['args']]}
        return _guard(go)
    raise ValueError(case['kind'])


# ---- Gallina printers -------------------------------------------------------------------------------------------------

PN = {'i': 1, 'j': 2, 'l': 3, 'p': 4, 'q': 5}


class Printer:
    """JSON tree -> Gallina term of type `ppt` (Param.v).  Nothing is evaluated here: expressions are printed as
    they stand (times divided by the sampling step, so that they count ticks), for-loops as QFor, parameter mappings
    as lists of expressions; the model instantiates, unrolls and detects constant tables itself."""

    def __init__(self, step, tree=None, S_eff_paths=()):
        self.step = F(step)
        self.classes = {}
        self.params = {}           # top-level parameter values: ONLY for expression-valued repetition counts (count_val)

    def cls(self, node):
        return self.classes.setdefault(canon(node), len(self.classes) + 1)

    def ex(self, x, scale=1):
        if isinstance(x, list):
            return '(EAff %s %s)' % (gQ(F(x[0]) * scale),
                                     glist(lambda nk: '(%s, %s)' % (gN(PN[nk[0]]), gQ(nk[1] * scale)), I.terms(x)))
        return '(EAff %s [])' % gQ(F(x) * scale)

    def tex(self, x):
        """a time, in ticks"""
        if not isinstance(x, list):
            v = F(x) / self.step
            assert v.denominator == 1, 'time %s is not a multiple of the step' % v
        return self.ex(x, 1 / self.step)

    def wins(self, node):
        return glist(lambda m: '(%s, %s, %s)' % (gN(MN[m[0]]), self.tex(m[1]), self.tex(m[2])), node.get('meas', []))

    def patom(self, node):
        k = node['k']
        if k == 'const':
            return '(AConst %s %s)' % (self.tex(node['dur']), glist(
                lambda cv: '(%s, %s)' % (gN(CH[cv[0]]), self.ex(cv[1])), sorted(node['vals'].items())))
        if k == 'table':
            ip = {'hold': 'IHold', 'linear': 'ILinear', 'jump': 'IJump'}
            return '(ATable %s)' % glist(lambda ce: '(%s, %s)' % (gN(CH[ce[0]]), glist(
                lambda e: '(%s, %s, %s)' % (self.tex(e[0]), self.ex(e[1]), ip[e[2]]), ce[1])), sorted(node['entries'].items()))
        if k == 'func':
            assert not isinstance(node['a'], list)
            return '(AFun %s %s %s %s)' % (gN(CH[node['ch']]), self.tex(node['dur']), gQ(F(node['a']) * self.step),
                                           self.ex(node['b']))
        raise ValueError(k)

    def pamc(self, node):
        if node['k'] == 'amc':
            return '(MNode %s %s)' % (self.wins(node), glist(self.pamc, node['subs']))
        return '(MLeaf %s %s)' % (self.wins(node), self.patom(node))

    def pt(self, node, env=None):
        k = node['k']
        i = gN(self.cls(node))
        if k in ('const', 'table', 'func', 'amc'):
            return '(QAtom %s %s)' % (i, self.pamc(node))
        if k == 'seq':
            return '(QSeq %s %s %s)' % (i, self.wins(node), glist(lambda c: self.pt(c), node['subs']))
        if k == 'rep':
            return '(QRep %s %s %s %s)' % (i, self.wins(node), vlib.gnat(count_val(node['n'], self.params)),
                                           self.pt(node['body']))
        if k == 'for':
            a, b, st = node['range']
            return '(QFor %s %s %s %s %s %s %s)' % (i, self.wins(node), gN(PN[node['idx']]), gZ(a), gZ(b), gZ(st),
                                                    self.pt(node['body']))
        if k == 'map':
            ren = glist(lambda ab: '(%s, %s)' % (gN(CH[ab[0]]), gN(CH[ab[1]])), sorted(node['chmap'].items()))
            mren = glist(lambda ab: '(%s, %s)' % (gN(MN[ab[0]]), gN(MN[ab[1]])), sorted((node.get('mmap') or {}).items()))
            pm = glist(lambda ne: '(%s, %s)' % (gN(PN[ne[0]]), self.ex(ne[1])), sorted((node.get('pmap') or {}).items()))
            return '(QMap %s %s %s %s %s)' % (i, ren, mren, pm, self.pt(node['sub']))
        if k == 'par':
            ov = glist(lambda cv: '(%s, %s)' % (gN(CH[cv[0]]), self.ex(cv[1])), sorted(node['ov'].items()))
            return '(QPar %s %s %s)' % (i, ov, self.pt(node['sub']))
        if k == 'arith':
            op = {'+': 'AAdd', '-': 'ASub', '*': 'AMul', '/': 'ADiv'}[node['op']]
            sc = node['scalar']
            if isinstance(sc, dict):
                s = '(QSMap %s)' % glist(lambda cv: '(%s, %s)' % (gN(CH[cv[0]]), self.ex(cv[1])), sorted(sc.items()))
            else:
                s = '(QAll %s)' % self.ex(sc)
            return '(QArith %s %s %s %s %s)' % (i, op, gbool(node['side'] == 'l'), s, self.pt(node['sub']))
        if k == 'rev':
            return '(QRev %s %s)' % (i, self.pt(node['sub']))
        raise ValueError(k)


def g_params(params):
    return glist(lambda kv: '(%s, %s)' % (gN(PN[kv[0]]), gQ(F(kv[1]))), sorted((params or {}).items()))


def g_trafo(t):
    if t is None:
        return '[]'
    d = lambda m: glist(lambda cv: '(%s, %s)' % (gN(CH[cv[0]]), gQ(F(cv[1]))), sorted(m.items()))
    k = t['k']
    if k == 'identity':
        return '[]'
    if k == 'offset':
        return '[TOffset %s]' % d(t['m'])
    if k == 'scale':
        return '[TScale %s]' % d(t['m'])
    if k == 'parallel':
        return '[TParallel %s]' % d(t['m'])
    if k == 'linear':
        # LinearTransformation sorts its channels; rows follow the sorted outs, columns the sorted ins
        ins = sorted(t['ins'])
        outs = sorted(t['outs'])
        mat = [[t['mat'][t['outs'].index(o)][t['ins'].index(i)] for i in ins] for o in outs]
        return '[TLinear %s %s %s]' % (glist(lambda c: gN(CH[c]), ins), glist(lambda c: gN(CH[c]), outs),
                                       glist(lambda row: glist(lambda x: gQ(F(x)), row), mat))
    if k == 'chain':
        return '(%s)' % ' ++ '.join(g_trafo(x) for x in t['ts'])
    raise ValueError(k)


def g_obs(o, step):
    if o.get('none'):
        return 'ONone'
    if o.get('raise'):
        return 'ORaise'
    step = F(step)
    d = F(o['dur']) / step
    assert d.denominator == 1
    chans = sorted(o['chans'], key=lambda c: CH[c])
    smp = glist(lambda c: '(%s, %s)' % (gN(CH[c]), glist(lambda v: 'None' if v is None else '(Some %s)' % gQ(F(v)),
                                                          o['samples'][c])), chans)

    def tick(x):
        v = F(x) / step
        assert v.denominator == 1, 'window %s off the tick grid' % x
        return int(v)
    wins = sorted([(MN[w[0]], tick(w[1]), tick(w[2])) for w in o['windows']])
    return '(OProg %s %s %s %s)' % (gZ(int(d)), glist(lambda c: gN(CH[c]), chans), smp,
                                    glist(lambda w: '(%s, %s, %s)' % (gN(w[0]), gZ(w[1]), gZ(w[2])), wins))


def to_coq(case, obs):
    if 'crash' in obs or 'hang' in obs:
        return 'CCrash'
    if case['kind'] == 'opt':
        pr = Printer(case['step'], case['tree'])
        term = pr.pt(cp_wrap(case), {})
        eff = effective_paths(case['tree'], case['S'])
        S = sorted({pr.cls(I.node_at(case['tree'], p)) for p in eff})
        return '(COpt %s %s %s %s %s %s)' % (term, g_params(case.get('params')), glist(gN, S), g_trafo(case['G']),
                                             g_obs(obs['plain'], case['step']), g_obs(obs['opt'], case['step']))
    pr = Printer(case['step'], None)
    pr.params = {k: F(v) for k, v in (case.get('params') or {}).items()}
    q1, q2 = pr.pt(obs['built'], {}), pr.pt(ctor_explicit(case), {})
    k = g_cop(dict(case, args=obs['args']), pr) if 'args' in obs else None
    if k is None:
        return '(CSame %s %s %s %s %s)' % (q1, q2, g_params(case.get('params')),
                                           g_obs(obs['o1'], case['step']), g_obs(obs['o2'], case['step']))
    # node classes without identifier (ForLoopPTs excluded: the model unrolls them into sequences, the constructors
    # only look for real SequencePTs)
    un = sorted(i for key, i in pr.classes.items()
                if json.loads(key).get('id') is None and json.loads(key)['k'] != 'for')
    return '(CCtor %s %s %s %s %s %s %s)' % (k, glist(gN, un), q1, q2, g_params(case.get('params')),
                                             g_obs(obs['o1'], case['step']), g_obs(obs['o2'], case['step']))


def g_cop(case, pr):
    """which constructor was called on which operands (Corr.v: cop); None for scripts"""
    op = case['op']
    a = case['args']
    if op == 'script':
        return None
    if op in ('iter', 'arithop') or op in ('appended', 'paratomic') and len(a) == 1:
        return '(KIs %s)' % pr.pt(ctor_explicit(case))
    if op in ('matmul', 'concat', 'appended'):
        return '(KConcat %s)' % glist(pr.pt, a)
    if op == 'rmatmul':
        first = {'k': 'map', 'id': None, 'chmap': dict(case['chmap']), 'mmap': {}, 'sub': a[0]}
        return '(KConcat %s)' % glist(pr.pt, [first, a[1]])
    if op == 'pad':
        return '(KPad %s %s %s)' % (gbool(case.get('pad_mode') == 'kwargs'), pr.pt(a[0]), gZ(case['extra']))
    if op in ('rep', 'pow'):
        return '(KRep %s %s)' % (vlib.gnat(count_val(case['n'], pr.params)), pr.pt(a[0]))
    if op == 'rev2':
        return '(KRev2 %s %s)' % (gbool(case['named']), pr.pt(a[0]))
    if op == 'rev1':
        return '(KRev1 %s)' % pr.pt(a[0])
    if op == 'map':
        ren = glist(lambda ab: '(%s, %s)' % (gN(CH[ab[0]]), gN(CH[ab[1]])), sorted(case['chmap'].items()))
        mren = glist(lambda ab: '(%s, %s)' % (gN(MN[ab[0]]), gN(MN[ab[1]])), sorted((case.get('mmap') or {}).items()))
        pm = glist(lambda ne: '(%s, %s)' % (gN(PN[ne[0]]), pr.ex(ne[1])), sorted((case.get('pmap') or {}).items()))
        return '(KMap %s %s %s %s)' % (ren, mren, pm, pr.pt(a[0]))
    if op == 'par':
        ov = glist(lambda cv: '(%s, %s)' % (gN(CH[cv[0]]), pr.ex(cv[1])), sorted(case['ov'].items()))
        return '(KPar %s %s)' % (ov, pr.pt(a[0]))
    if op == 'paratomic':
        return '(KParAtomic %s)' % glist(pr.pt, a)
    raise ValueError(op)


# ---------------------------------------------------------------------------------------------------------------------

def count_nodes(t):
    return len(I.all_paths(t))


def nontrivial(case, obs):
    if case['kind'] == 'ctor':
        return True
    return count_nodes(case['tree']) >= 2 and (bool(effective_paths(case['tree'], case['S'])) or case['G'] is not None)


def kinds_in(t):
    return {I.node_at(t, p)['k'] for p in I.all_paths(t)}


def histogram_keys(case, obs):
    keys = [case['kind'], 'step:' + case['step']]
    if 'crash' in obs or 'hang' in obs:
        return keys + ['obs:crash']
    if case['kind'] == 'opt':
        t = case['tree']
        keys += ['node:' + k for k in sorted(kinds_in(t))]
        keys.append('nodes:%d' % min(count_nodes(t), 12))
        eff = effective_paths(t, case['S'])
        keys.append('collapsed:%d' % min(len(eff), 6))
        keys += sorted({'S-by:' + s['by'] for s in case['S']})
        keys.append('G:' + (case['G']['k'] if case['G'] else 'none'))
        keys.append('program:none' if obs['plain'].get('none') else 'program:some')
        keys.append('family:' + case.get('family', 'random'))
        keys += [f for f in ('share', 'reuse', 'params') if case.get(f)]
        keys += ['create_program:' + f for f in sorted(case.get('cp') or {})]
        pms = [I.node_at(t, p).get('pmap') or {} for p in I.all_paths(t)]
        if any(pms):
            keys.append('pmap')
        if any(k in expr_names(e) for pm in pms for k, e in pm.items()):
            keys.append('pmap-rebinds-name-to-itself')
        if any(set(expr_names(e)) & (set(pm) - {k}) for pm in pms for k, e in pm.items()):
            keys.append('pmap-swap')
        if linear_inputs_absent(case):
            keys.append('G-linear-inputs-absent')
        if obs['opt'].get('raise'):
            keys.append('opt-raises')
        elif any(v is None for o in (obs['opt'],) if not o.get('none') for l in o['samples'].values() for v in l):
            keys.append('opt-has-NaN')
    else:
        keys.append('ctor:' + case['op'])
        if case.get('family') == 'receiver':
            keys += ['family:receiver', 'receiver:' + case['receiver']]
        if case.get('pad_mode'):
            keys.append('ctor:pad-' + case['pad_mode'])
        if case.get('positional'):
            keys.append('ctor:map-positional')
        if case['op'] in ('appended', 'paratomic') and len(case['args']) == 1:
            keys.append('ctor:%s-without-arguments' % case['op'])
        if case['op'] == 'script':
            keys += ['family:' + case['family'], 'script-same:%s' % case.get('same'),
                     'script-steps:%d' % len(case['steps'])]
            keys += sorted({'script-step:' + (st[0] if st[0] != 'query' else 'query-' + st[2]) for st in case['steps']})
            if case.get('variant'):
                keys.append('order-target:' + case['variant'])
            # an inner object is padded AFTER a template built from it was padded / queried (the top-down order)
            seen = set()
            for st in case['steps']:
                if st[0] == 'pad' and st[1] in seen:
                    keys.append('script-pad-after-enclosing-was-used')
                    break
                if st[0] in ('pad', 'query'):
                    seen |= script_ancestry(case, st[1])
        if case.get('pmap'):
            keys.append('ctor:map-with-parameter-mapping')
    return keys


ATOMS = ('const', 'table', 'func', 'amc')


def under_reversal(tree, eff):
    """a collapsed COMPOSITE node strictly below the inner template of a TimeReversalPT (a collapsed atomic template
    compiles to the very same leaf: C05_atom_collapse_identity; it is not part of the finding)"""
    for p in eff:
        if I.node_at(tree, p)['k'] in ATOMS:
            continue
        for i in range(len(p) - 1):            # ancestors excluding the parent position: rev at depth i, node deeper than i+1
            if I.node_at(tree, p[:i])['k'] == 'rev':
                return True
    return False


def par_gets_transformation(tree, G):
    def go(n, has):
        if n['k'] == 'par' and has:
            return True
        nxt = has or n['k'] in ('par', 'arith')
        return any(go(c, nxt) for c in I.children(n))
    return go(tree, G is not None)


def linear_after_parallel(G):
    """chain in which a LinearTransformation with several inputs consumes a channel that an earlier element creates
    (ParallelChannelTransformation value or output of another LinearTransformation): sampling one output channel asks
    the chain for the inputs of that channel only, the earlier element re-creates its channel, and the linear step
    then sees some but not all of its inputs"""
    ts = G['ts'] if G and G['k'] == 'chain' else []
    seen = set()
    for t in ts:
        if t['k'] == 'linear' and seen & set(t['ins']) and len(t['ins']) > 1:
            return True
        if t['k'] == 'parallel':
            seen |= set(t['m'])
        if t['k'] == 'linear':
            seen |= set(t['outs'])
    return False


def linear_inputs_absent(case):
    """the global transformation contains a LinearTransformation none of whose inputs is among the channels that
    reach it"""
    G = case.get('G')
    if not G:
        return False
    cp = case.get('cp') or {}
    chans = {(cp.get('chmap') or {}).get(c, c) for c in out_channels(case['tree'])}
    for t in (G['ts'] if G['k'] == 'chain' else [G]):
        if t['k'] == 'parallel':
            chans |= set(t['m'])
        elif t['k'] == 'linear':
            if not set(t['ins']) & chans:
                return True
            if set(t['ins']) <= chans:
                chans = (chans - set(t['ins'])) | set(t['outs'])
    return False


def merged_values_lost(case, obs):
    """independent oracle for with_parallel_channels on an UNNAMED ParallelChannelPT (the value dicts are merged into one
    node): the channels given in the call must play the given values.  Only judged when nothing below can overwrite
    them again (no further ParallelChannelPT inside), so that the known inner-wins defect cannot interfere."""
    if case['kind'] != 'ctor' or case['op'] != 'par' or 'o1' not in obs:
        return None
    a = case['args'][0]
    if a['k'] != 'par' or a.get('id') is not None or 'par' in kinds_in(a['sub']) or obs['o1'].get('none') \
            or obs['o1'].get('raise'):
        return None
    for ch, v in case['ov'].items():
        want = vlib.frac_json(F(v))
        got = obs['o1']['samples'].get(ch)
        if got is None or any(x != want for x in got):
            return 'with_parallel_channels(%s=%s) on an unnamed ParallelChannelPT does not play the new value' % (ch, v)
    return None


def py_spec(case, obs):
    if 'crash' in obs or 'hang' in obs:
        return None
    return merged_values_lost(case, obs)


def rev_spans(tree, eff, step, env):
    """[begin, end) in ticks of every played TimeReversalPT that has a collapsed COMPOSITE node strictly below its inner
    template (where finding collapsed_inside_reversal shows), read off the description"""
    step = F(step)
    bad = []
    for p in eff:
        if I.node_at(tree, p)['k'] in ATOMS:
            continue
        for i in range(len(p) - 1):
            if I.node_at(tree, p[:i])['k'] == 'rev':
                bad.append(tuple(p[:i]))
    bad = set(bad)
    spans = []

    def go(node, path, start, env):
        k = node['k']
        if k in ATOMS:
            return max(F(0), est_ticks(node, step, env))
        if k == 'seq':
            t = start
            for i, c in enumerate(node['subs']):
                t += go(c, path + (i,), t, env)
            return t - start
        if k == 'rep':
            t = start
            for _ in range(count_val(node['n'], env)):
                t += go(node['body'], path + (0,), t, env)
            return t - start
        if k == 'for':
            t = start
            for v in range(*node['range']):
                t += go(node['body'], path + (0,), t, dict(env, **{node['idx']: F(v)}))
            return t - start
        if k == 'map':
            return go(node['sub'], path + (0,), start, I.map_env(node, env))
        if k == 'rev':
            if path in bad:
                d = max(F(0), est_ticks(node['sub'], step, env))
                spans.append((start, start + d))
                return d
        return go(node['sub'], path + (0,), start, env)
    go(tree, (), F(0), dict(env or {}))
    return spans


def par_channels(tree, top=None):
    """names (as seen at the top) of the channels some ParallelChannelPT of the tree overwrites"""
    out = set()

    def go(node, ren):
        if node['k'] == 'par':
            out.update(ren(c) for c in node['ov'])
        if node['k'] == 'map':
            cm = dict(node.get('chmap') or {})
            inner = ren
            ren = lambda c, cm=cm, inner=inner: inner(cm.get(c, c))
        if node['k'] == 'amc':
            return
        for ch in I.children(node):
            go(ch, ren)
    top = dict(top or {})
    go(tree, lambda c: top.get(c, c))
    return out


def has_linear(G):
    return bool(G) and (G['k'] == 'linear' or G['k'] == 'chain' and any(has_linear(t) for t in G['ts']))


def opt_diffs(case, obs):
    """-> None when duration or windows of the option run are not those of the plain run (no known finding touches
    them) or T(plain) is undefined, 'channels' when the channel set is not that of T(plain), else the list of
    (tick, channel) where the option run does not play T(plain)"""
    from props import c05_search
    plain, opt = obs['plain'], obs['opt']
    for o in (plain, opt):
        if o.get('none') or o.get('raise'):
            return None
    if F(plain['dur']) != F(opt['dur']) or plain['windows'] != opt['windows']:
        return None
    out = []
    n = len(next(iter(plain['samples'].values()))) if plain['samples'] else 0
    for k in range(n):
        data = {c: c05_search._val(plain['samples'][c][k]) for c in plain['chans']}
        try:
            want = c05_search.apply_trafo(case['G'], data) if case.get('G') else data
        except KeyError:
            return None
        if sorted(want) != sorted(opt['chans']):
            return 'channels'
        for c, v in want.items():
            got = c05_search._val(opt['samples'][c][k])
            if got is None or got != v:
                out.append((k, c))
    return out


def classify(case, obs):
    """id of the known finding a property-violating case belongs to.  Round 5: the predicates look at the OBSERVATION
    too - no known finding changes the duration, the measurement windows or (without a raise) the channel set;
    collapsed_inside_reversal only shows while a reversed part with a collapsed composite is played;
    parallel_channel_before_global_transformation only on the channels a ParallelChannelPT overwrites (any channel when
    a LinearTransformation can mix them).  Anything else in the same input class is a violation of its own."""
    if case['kind'] == 'opt' and str(obs.get('crash', '')).startswith('get_sampled(') and \
            under_reversal(case['tree'], effective_paths(case['tree'], case['S'])):
        # the same unwritten sample (t = duration of the collapsed Sequence/RepetitionWaveform inside ReversedWaveform):
        # NaN in a fresh array, the previous content in a caller-provided one
        return 'collapsed_inside_reversal'
    if case['kind'] == 'ctor' and case.get('op') in ('rep', 'pow') and case.get('n_str') and isinstance(case.get('n'), list) \
            and str(obs.get('crash', '')).startswith('SympifyError'):
        r = case['args'][0]
        if r['k'] == 'rep' and r.get('id') is None and not r.get('meas'):
            # the counts are merged: ExpressionScalar * str (round 6).  Any other outcome of such a call (a program that
            # differs from the explicit nesting, another exception) is not filed here
            return 'with_repetition_string_count'
    if 'crash' in obs or 'hang' in obs:
        return None
    if case['kind'] == 'opt':
        eff = effective_paths(case['tree'], case['S'])
        par = par_gets_transformation(case['tree'], case['G']) and (eff or case['G'] is not None)
        if obs['opt'].get('raise'):
            if obs['plain'].get('raise') or obs['plain'].get('none'):
                return None
            if obs['opt'].get('raise') == 'KeyError' and linear_after_parallel(case['G']):
                return 'linear_after_parallel_partial_inputs'
            if obs['opt'].get('raise') == 'KeyError' and linear_inputs_absent(case):
                return 'linear_inputs_absent'
            # a LinearTransformation that needs the channel a ParallelChannelPT adds later / leaves on different channels
            if par and (has_linear(case['G']) or obs['opt'].get('raise') == 'ChannelSetsDiffer'):
                return 'parallel_channel_before_global_transformation'
            return None
        diffs = opt_diffs(case, obs)
        if diffs == 'channels':
            # only a LinearTransformation meeting a ParallelChannelPT changes the channel set (the overwrite re-adds a
            # consumed input / the inputs are not there yet and everything is forwarded)
            return 'parallel_channel_before_global_transformation' if par and has_linear(case['G']) else None
        if not diffs:
            return None            # duration / windows wrong (or nothing differs): not a known finding
        found = None
        if under_reversal(case['tree'], eff):
            env = {k: F(v) for k, v in (case.get('params') or {}).items()}
            spans = rev_spans(case['tree'], eff, case['step'], env)
            rest = [(k, c) for k, c in diffs if not any(a <= k < b for a, b in spans)]
            if len(rest) < len(diffs):
                found, diffs = 'collapsed_inside_reversal', rest
        if diffs and par:
            cp = case.get('cp') or {}
            chans = par_channels(case['tree'], cp.get('chmap'))
            rest = diffs if not (has_linear(case['G']) or chans) else \
                [] if has_linear(case['G']) else [(k, c) for k, c in diffs if c not in chans]
            if len(rest) < len(diffs):
                found, diffs = found or 'parallel_channel_before_global_transformation', rest
        return found if not diffs else None
    if merged_values_lost(case, obs):
        return None                      # not the known inner-wins defect: the merge itself lost the new value
    if case['op'] == 'par' and case['args'][0]['k'] == 'par' or \
            par_gets_transformation(ctor_explicit(case), None) or par_gets_transformation(obs['built'], None):
        # the inner-wins defect only changes the voltages of overwritten channels
        o1, o2 = obs['o1'], obs['o2']
        if any(o.get('none') or o.get('raise') for o in (o1, o2)):
            return None
        if F(o1['dur']) != F(o2['dur']) or o1['windows'] != o2['windows'] or o1['chans'] != o2['chans']:
            return None
        chans = par_channels(ctor_explicit(case)) | par_channels(obs['built'])
        if all([F(x) if x is not None else None for x in o1['samples'][c]] ==
               [F(x) if x is not None else None for x in o2['samples'][c]] for c in o1['chans'] if c not in chans):
            return 'parallel_channel_before_global_transformation'
    return None


def shrink(case, obs, ctx=None):
    from props import c05_search
    import sys
    return c05_search.shrink(sys.modules[__name__], case, obs, ctx)


def search_failing(ctx, broken):
    from props import c05_search
    import sys
    return c05_search.search_failing(sys.modules[__name__], ctx, broken)


MANIFEST = {
    'level_text': 'Proof: for a faithful executable model of create_program with to_single_waveform / '
                  'global_transformation (builder, to_waveform, waveform sampling, transformation chaining, KeyError as '
                  'explicit result) it is proved for ALL template trees, all sets of collapsed nodes and all '
                  'transformation chains that collapsing changes neither voltages nor duration nor the multiset of '
                  'measurement windows, that a global transformation acts pointwise on the voltages, and that compiled '
                  'programs are well-formed - under two executable guards that exclude the two confirmed defect classes '
                  '(the guards are somewhat wider than the defects: syntactic channel test, every collapsed composite below '
                  'a reversal), which are refuted on witnesses (collapsing an atom is proved to be the identity). That a '
                  'global transformation changes neither the measurement windows nor the duration is proved without any '
                  'guard. The combined statement the property makes (set S and transformation T together against the plain '
                  'run: duration, window multiset, T pointwise) is one theorem under both guards (round 6, '
                  'C05_options_vs_plain, also for parametrised templates). Parameters are inside the model: the code\'s scope threading '
                  '(MappedScope, RangeScope, the builder\'s frame stack) is proved equal to compiling the instantiated '
                  'template for every frame stack. The constant fold of a transformed waveform is proved pointwise '
                  'correct with the keys Transformation.__call__ returns (a LinearTransformation none of whose inputs '
                  'is present forwards everything). Constructor claims proved for the functions of Ctors.v: '
                  'concatenate/@/with_appended, pad_to, double with_time_reversal, with_repetition/** count merging, '
                  'chained with_mapping (incl. parameter mappings merged by substitution: equal programs), '
                  'with_parallel_atomic (distinct channels), chained with_parallel_channels (guarded + refuted); that '
                  'the REAL constructors return the shape Ctors.v predicts (and that pad_to holds the final values of '
                  'its operand, pt_final) is checked on every constructor case by an executable comparison, not proved. '
                  'Freedom from KeyError is proved for every whole program compiled with NOTHING collapsed under a global '
                  'transformation without LinearTransformation (round 6: every leaf is atom / T(atom) / reversed, chains '
                  'Linear-free) and for the single leaf T(atom) with one LinearTransformation whose inputs are all present; '
                  'not for programs with collapsed nodes or LinearTransformations in general. Repetition counts of the model '
                  'are numbers: expression-valued counts (family exprattr) are evaluated by the harness at the top-level '
                  'parameters before the term is printed. The model is tied to /repo by an exact correspondence check.',
    'level_note': 'see notes/C05.md for which statements are full / guarded / only tested',
    'technique': 'Coq proof by induction over template trees (frame lemma on builder states, scope-threading refinement) '
                 '+ correspondence check on generated parametrised trees x option subsets (incl. name-coincidence, '
                 'aliasing, stateful and order-of-operations-on-shared-objects families, create_program argument '
                 'variants, every helper applied once to a receiver of every template class) + structural tie of the '
                 'constructor functions to the templates the real constructors return + one independent Python oracle for '
                 'with_parallel_channels; known-finding predicates also read the observation (duration, windows, where and '
                 'on which channels the voltages differ)',
    'design_ref': 'DESIGN.md §5 C05',
}
