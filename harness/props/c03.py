"""C03 — declared parameters suffice and declared constraints are enforced."""
import copy
import json
import fractions
import os
import warnings

import vlib
from vlib import gQ, gbool, glist

F = fractions.Fraction
PID = 'C03'
COQ_DIRS = ['common', 'C03']
TARGETS = ['C03/Props.vo', 'C03/Corr.vo']
MODEL_TARGETS = ['C03/Corr.vo']
PROPS_FILE = 'C03/Props.v'
PROPS_MODULE = 'QV.C03.Props'
CORR_IMPORTS = ['QV.C03.Model', 'QV.C03.Spec', 'QV.C03.Corr']
CHECK_CORR = 'check_corr'
CHECK_SPEC = 'check_spec'
SHARD = 150
RULE = ('template trees over Table/Point/Function/Constant atoms, AtomicMultiChannelPT, ParallelChannelPT, ArithmeticPT '
        '(scalar incl. division and time dependent scalars, atomic), TimeReversalPT, SequencePT, RepetitionPT, ForLoopPT, '
        'MappingPT (partial mappings, shadowing, self-referential rebinding x -> f(x), swaps, directly nested mappings '
        'with and without constraints, channel swap / rename, measurement renaming), random to_single_waveform sets, with '
        'constraints and measurement windows on every node kind that accepts them; constraints are generated tight '
        'against a reference assignment in every environment their node is reached in (loop indices, mapped values), '
        'deliberately false on unreached nodes (count <= 0, empty range).  A deterministic directed stream (no RNG) '
        'enumerates the name-coincidence classes: D1 self-referential / shadowing / swap mappings x 8 positions (incl. '
        'between a loop and its body with the loop index, eager path in an AtomicMultiChannelPT, nested mapping of the '
        'same name, above a loop whose bound / index is the name) x 9 constrainable node kinds x constraint on the '
        'mapping node (outer scope) or below it (mapped scope) x {true where it belongs and false in the other scope, '
        'the converse}; D2 loop index = a name of its own range / enclosing bound / window; D3 every node kind around a '
        'FunctionPT with all undeclared internal names (t, measurement and channel names, loop indices, mapping keys) '
        'as extra parameters; D4 channel swap / rename x dropped channels x removed names; D5 every frame-pushing node '
        'kind (repetition, sequence, for loop, time reversal, to_single_waveform, stacked) between a mapping that rebinds '
        'the loop index and the constrained reader; H1 histories of create_program calls on ONE template object whose '
        'consecutive assignments differ only in values with equal Python hashes (-1/-2 as int, float, numpy.int64; '
        'n / n +- (2**61-1)) and lie on both sides of a constraint, plus calls after a failed call; H2 loop indices '
        'running through such values; D7 the very same object in two places; D8 zero-duration atoms, parametrised first '
        'entry times; D9 ParallelChannelPT below atomic composites; D10 time dependent ParallelChannelPT values x dropped '
        'channels x removed names; D11 a MappingPT that maps an inner channel to None; D12 inputs inside the class of the '
        'known finding (zero factor hides a missing name in a FunctionPT / time dependent value) x own constraint true / '
        'false / on the missing name, negative window, violated sibling before / after, mappings, loops, repetitions, '
        'dropped channels, a plain read of the missing name in front of / behind the vanishing expression; D13 a MappingPT '
        'directly around a constraint-free MappingPT (merged by the constructor; object and tuple form, in SequencePT / '
        'AtomicMultiChannelPT, below a third mapping) whose outer mapping exchanges, shifts (both directions), rotates or '
        'self-references the names it maps, inner expressions combining those names asymmetrically, leaf constraint '
        '== / < / > the composed value, constraint on the outer node, every declared name removed.  '
        'Values are handed over as int / float / numpy scalar / string / DictScope.  '
        'Families: exact declared '
        'names, +extra names (second assignment; the two programs are compared by what they play), one declared name '
        'removed, one constraint violated, perturbed values, channels dropped (all / partial), zero factor + removed '
        'name in a function product, malformed (non-integer count, zero step, negative window).  Declared names are '
        'taken from the implementation at run time.  Non-trivial = tree with >= 1 constraint and >= 2 nodes; distinct '
        '= distinct canonical JSON.')
TRUSTED = [
    'Coq 8.16.1 kernel + vm_compute',
    'sympy parsing/evaluation of the generated polynomial expressions and comparisons (oracle; expressions whose sympy '
    'free symbols differ from their syntactic variables are filtered out by the generator)',
    'numpy arithmetic on small integers / half-integers is exact',
    'harness: generators, construction of the real template objects from the JSON tree, Gallina printers, comparison '
    'of two programs by loop structure, repetition counts, measurement windows and 5 samples per leaf and channel',
]
ASSUMPTIONS = [
    'templates have no identifier; no volatile parameters; a MappingPT '
    'that renames channels is not placed directly above a constraint-free MappingPT; no TimeReversalPT directly below '
    'an atomic composite (AtomicMultiChannelPT / ArithmeticAtomicPT)',
    'ArithmeticPT: operators + - * / with parameter-only scalars (optionally multiplied by the time variable next to '
    'an atomic operand; divisors read a parameter); ArithmeticAtomicPT operands have equal durations',
    'expression language: + - * over parameters and dyadic constants; comparisons < <= > >= ==',
    '"played node" is read as "reached node": an atom whose channels are all dropped or whose duration is 0 produces '
    'nothing, yet its constraints are validated by the code and count in the specification',
    'AtomicMultiChannelPT without explicit duration; time dependent ParallelChannelPT values only next to an atomic '
    'template (constructor requirement); '
    'ParallelChannelPT values are either all plain or all time dependent (mixed = two nested templates)',
]

# ---------------------------------------------------------------------------------------------------------------------
# expressions (JSON):  ['c', 'num/den'] | ['v', name] | ['+', a, b] | ['-', a, b] | ['*', a, b]


def ev(e, env):
    t = e[0]
    if t == 'c':
        return F(e[1])
    if t == 'v':
        return env[e[1]]
    a, b = ev(e[1], env), ev(e[2], env)
    return a + b if t == '+' else a - b if t == '-' else a * b


def evars(e):
    if e[0] == 'c':
        return set()
    if e[0] == 'v':
        return {e[1]}
    return evars(e[1]) | evars(e[2])


def num_str(q):
    q = F(q)
    s = str(q.numerator) if q.denominator == 1 else repr(float(q))
    return '(%s)' % s if q < 0 else s


def estr(e):
    if e[0] == 'c':
        return num_str(e[1])
    if e[0] == 'v':
        return e[1]
    return '(%s %s %s)' % (estr(e[1]), e[0], estr(e[2]))


def cstr(c):
    return '%s %s %s' % (estr(c['l']), c['op'], estr(c['r']))


def C(q):
    return ['c', str(F(q))]


def V(x):
    return ['v', x]


# ---------------------------------------------------------------------------------------------------------------------
# python-side parameter names of the *user-level* tree (only used to keep generated trees constructible)

def cs_vars(cs):
    s = set()
    for c in cs:
        s |= evars(c['l']) | evars(c['r'])
    return s


def ms_vars(ms):
    s = set()
    for b, l in ms:
        s |= evars(b) | evars(l)
    return s


def py_pnames(n):
    k = n['k']
    if k in ('table', 'point', 'func', 'const'):
        s = evars(n['dur']) | (evars(n['t0']) if n.get('t0') else set())
        for r in n['reads']:
            s |= evars(r)
        return s | cs_vars(n['cs']) | ms_vars(n['ms'])
    if k in ('amc', 'seq'):
        s = cs_vars(n['cs']) | ms_vars(n['ms'])
        for q in n['subs']:
            s |= py_pnames(q)
        return s
    if k == 'par':
        s = py_pnames(n['inner'])
        for _, e in par_ow(n):
            s |= evars(e)
        return s
    if k == 'ari':
        s = py_pnames(n['inner'])
        for e in n['sa']:
            s |= evars(e)
        for _, e in n['sc']:
            s |= evars(e)
        return s
    if k == 'aat':
        return py_pnames(n['lhs']) | py_pnames(n['rhs']) | ms_vars(n['ms'])
    if k == 'rev':
        return py_pnames(n['inner'])
    if k == 'rep':
        return py_pnames(n['body']) | evars(n['count']) | cs_vars(n['cs']) | ms_vars(n['ms'])
    if k == 'for':
        s = py_pnames(n['body']) - {n['idx']}
        return s | evars(n['a']) | evars(n['b']) | evars(n['st']) | cs_vars(n['cs']) | ms_vars(n['ms'])
    if k == 'map':
        inner = py_pnames(n['inner'])
        s = cs_vars(n['cs']) | (inner - set(n['m']))
        for key, e in n['m'].items():
            s |= evars(e)
        return s
    raise ValueError(k)


def py_is_atomic(n):
    """PulseTemplate._is_atomic: atoms, AtomicMultiChannelPT, ArithmeticAtomicPT; transparent through ParallelChannelPT,
    ArithmeticPT, TimeReversalPT, MappingPT"""
    k = n['k']
    if k in ('table', 'point', 'func', 'const', 'amc', 'aat'):
        return True
    if k in ('par', 'ari', 'rev', 'map'):
        return py_is_atomic(n['inner'])
    return False


def py_mnames(n):
    """measurement_names of the user-level tree (every window is called m; a MappingPT may rename it)"""
    s = {'m'} if n.get('ms') else set()
    for q in children(n):
        s |= py_mnames(q)
    if n['k'] == 'map' and n.get('mren'):
        s = {n['mren'].get(x, x) for x in s}
    return s


def children(n):
    k = n['k']
    if k in ('amc', 'seq'):
        return list(n['subs'])
    if k in ('par', 'map', 'ari', 'rev'):
        return [n['inner']]
    if k == 'aat':
        return [n['lhs'], n['rhs']]
    if k in ('rep', 'for'):
        return [n['body']]
    return []


def par_ow(n):
    """overwritten channels of a 'par' node as [(channel, expr)] (old corpus format: 'ow': [expr], 'och': channel)"""
    if 'och' in n:
        return [(n['och'], n['ow'][0])]
    return [(c, e) for c, e in n['ow']]


def nodes(n):
    yield n
    k = n['k']
    if k in ('amc', 'seq'):
        for q in n['subs']:
            yield from nodes(q)
    elif k in ('par', 'map', 'ari', 'rev'):
        yield from nodes(n['inner'])
    elif k == 'aat':
        yield from nodes(n['lhs'])
        yield from nodes(n['rhs'])
    elif k in ('rep', 'for'):
        yield from nodes(n['body'])


# ---------------------------------------------------------------------------------------------------------------------
# generator

TOP = ['p0', 'p1', 'p2', 'p3', 'p4', 'p5']


class Gen:
    def __init__(self, rng, max_depth=4):
        self.rng = rng
        self.cid = 0
        self.fresh = 0
        self.max_depth = max_depth
        self.only = None        # restrict the composite node kinds (small-scope enumeration)
        self.visible = []       # ids of constraints generated against a non-empty list of environments
        self.hot = set()        # names rebound by a mapping / used as loop index although they exist outside: preferred

    def name(self, prefix):
        self.fresh += 1
        return '%s%d' % (prefix, self.fresh)

    def small(self, halves=True):
        r = self.rng
        if halves and r.random() < 0.15:
            return F(r.randint(-3, 7), 2)
        return F(r.choice([-2, -1, 0, 0, 1, 1, 2, 2, 3, 4]))

    def expr(self, avail, exclude=(), want_var=False):
        r = self.rng
        names = [x for x in avail if x not in exclude]
        if not names:
            return C(self.small())
        x = r.choice(names)
        hot = [y for y in names if y in self.hot]
        if hot and r.random() < 0.35:
            x = r.choice(hot)
        shape = r.random()
        if shape < 0.35 or (want_var and shape < 0.4):
            return V(x)
        if shape < 0.45 and not want_var:
            return C(self.small())
        if shape < 0.65:
            return [r.choice('+-'), V(x), C(self.small(False) or 1)]
        if shape < 0.72:
            return ['*', V(x), C(r.choice([2, 3, -1]))]
        others = [y for y in names if y != x]
        if others and shape < 0.92:
            return [r.choice('+-*'), V(x), V(r.choice(others))]
        return ['*', V(x), V(x)]

    def int_expr(self, avail, envs, lo, hi):
        """expression that is an integer in [lo, hi] in every environment"""
        r = self.rng
        ints = [x for x in avail if all(e[x].denominator == 1 for e in envs)]
        for _ in range(4):
            if ints and r.random() < 0.7:
                x = r.choice(ints)
                e = V(x) if r.random() < 0.6 else [r.choice('+-'), V(x), C(r.randint(0, 2))]
                if all(lo <= ev(e, en) <= hi for en in envs):
                    return e
        return C(r.randint(max(lo, 0), hi))

    def constraints(self, avail, envs, p=0.6):
        r = self.rng
        cs = []
        n = 0 if r.random() > p else r.choice([1, 1, 1, 2])
        for _ in range(n):
            if not avail:
                break
            l = self.expr(avail, want_var=True)
            if not evars(l):
                continue
            rb = self.expr(avail, exclude=evars(l))
            op = r.choice(['<=', '<=', '<', '>=', '>', '=='])
            self.cid += 1
            if envs:
                diffs = [ev(l, e) - ev(rb, e) for e in envs]
                if op == '==' and len(set(diffs)) != 1:
                    op = '<='
                c = {'<=': max(diffs), '<': max(diffs) + 1, '>=': min(diffs), '>': min(diffs) - 1, '==': diffs[0]}[op]
                self.visible.append(self.cid)
            else:
                c = {'<=': -100, '<': -100, '>=': 100, '>': 100, '==': 1000}[op]   # unreached node: false on purpose
            rr = C(F(rb[1]) + c) if rb[0] == 'c' else (rb if c == 0 and r.random() < 0.5 else ['+', rb, C(c)])
            cs.append({'op': op, 'l': l, 'r': rr, 'id': self.cid})
        return cs

    def windows(self, avail, p=0.25):
        r = self.rng
        if r.random() > p:
            return []
        def nonneg():
            if avail and r.random() < 0.5:
                x = r.choice(sorted(avail))
                return ['*', V(x), V(x)]
            return C(r.choice([0, 1, 2]))
        return [[nonneg(), nonneg()]]

    def dur(self, avail, const=False):
        r = self.rng
        if const:
            return C(2)
        if avail and r.random() < 0.45:
            x = r.choice(sorted(avail))
            sq = ['*', V(x), V(x)]
            return sq if r.random() < 0.7 else ['+', sq, C(1)]
        return C(r.choice([1, 2, 3]))

    def atom(self, avail, envs, chs, in_amc=False, must=None):
        r = self.rng
        names = sorted(avail)
        kinds = ['table', 'point', 'const'] + (['func', 'func'] if len(chs) == 1 else [])
        k = r.choice(kinds)
        nreads = {'table': 2 * len(chs), 'point': 2, 'func': 1, 'const': len(chs)}[k]
        reads = [self.expr(names) for _ in range(nreads)]
        if k == 'func' and r.random() < 0.6:
            reads = [self.fexpr(names)]
        if must is not None:
            reads[r.randrange(nreads)] = V(must) if r.random() < 0.6 else ['+', V(must), C(1)]
        dur = self.dur(names, const=in_amc)
        if k == 'const' and not in_amc and names and r.random() < 0.4:
            x = r.choice(names)
            if envs and r.random() < 0.5:
                dur = ['-', V(x), C(envs[0][x])]                                  # exactly 0 in the first environment
            else:
                dur = [r.choice('+-'), V(x), C(r.choice([0, 1]))]                 # may be <= 0: no waveform
        return {'k': k, 'ch': list(chs), 'reads': reads, 'dur': dur,
                'cs': [] if k == 'const' else self.constraints(names, envs), 'ms': self.windows(names)}

    def fexpr(self, names):
        """expression of a function atom, depth <= 2, with products (sympy: a factor 0 absorbs the other factor)"""
        r = self.rng
        if len(names) < 2:
            return self.expr(names)
        x, y = r.sample(names, 2)
        z = r.choice(names)
        shape = r.randrange(6)
        if shape == 0:
            return ['*', V(x), V(y)]
        if shape == 1:
            return [r.choice('+-'), ['*', V(x), V(y)], V(z) if z not in (x, y) else C(1)]
        if shape == 2:
            return ['*', ['*', V(x), V(y)], V(z)]
        if shape == 3:
            return ['*', V(x), [r.choice('+-'), V(y), C(r.choice([1, 2]))]]
        if shape == 4:
            return ['*', ['+', V(x), C(r.choice([-1, 0, 1]))], V(y)]
        return [r.choice('+-'), V(z) if z not in (x, y) else C(2), ['*', V(y), V(x)]]

    def mapping(self, avail, envs, make_inner, must=None, chs=None):
        """MappingPT around make_inner(avail', envs')"""
        r = self.rng
        names = sorted(avail)
        m = {}
        for _ in range(r.choice([0, 1, 1, 2, 3])):
            key = self.name('q') if (r.random() < 0.75 or not names) else r.choice(names)   # fresh name or shadowing
            if key == must:
                continue
            if key in names and r.random() < 0.5:
                # self-referential rebinding x -> f(x) that reads only x / x and one other name
                other = r.choice(names)
                m[key] = r.choice([['*', V(key), C(2)], ['+', V(key), C(r.choice([1, 2]))], ['-', V(key), C(1)],
                                   ['*', V(key), V(key)], ['*', V(key), C(-1)],
                                   ['+', V(key), V(other)] if other != key else ['+', V(key), C(3)]])
            else:
                m[key] = self.expr(names)
            if key in names:
                self.hot.add(key)
        if len(names) >= 2 and r.random() < 0.06:           # swap
            x, y = r.sample(names, 2)
            if must not in (x, y):
                m[x], m[y] = V(y), V(x)
                self.hot |= {x, y}
        avail2 = set(avail) | set(m)
        envs2 = []
        for e in envs:
            e2 = dict(e)
            for key, ex in m.items():
                e2[key] = ev(ex, e)
            envs2.append(e2)
        # channel renaming (channel_mapping of the MappingPT): two channels are swapped, a single channel is a fresh
        # inner channel renamed to the expected one.  Not above a constraint-free mapping (the real constructor merges
        # the two and composes the channel mappings; the model's constructor merges parameter mappings only).
        ren, inner_chs = None, chs
        if chs is not None and r.random() < 0.3:
            if len(chs) == 2:
                ren = {chs[0]: chs[1], chs[1]: chs[0]}
            else:
                z = self.name('Z')
                ren, inner_chs = {z: chs[0]}, (z,)
        st = r.getstate()
        inner = make_inner(avail2, envs2, inner_chs) if chs is not None else make_inner(avail2, envs2)
        if ren is not None and inner['k'] == 'map' and not inner['cs']:
            r.setstate(st)
            ren = None
            inner = make_inner(avail2, envs2, chs)
        used = py_pnames(inner)
        m = {key: ex for key, ex in m.items() if key in used}
        n = {'k': 'map', 'inner': inner, 'm': m, 'cs': self.constraints(names, envs, p=0.5)}
        if ren is not None:
            n['ren'] = ren
        if r.random() < 0.3 and 'm' in py_mnames(inner):
            n['mren'] = {'m': 'mm'}         # measurement renaming: transparent for parameters (not in the model)
        return n

    def atomic_sub(self, avail, envs, ch, depth=0):
        """atomic template on one channel with duration 2: atom, mapping / arithmetic around one, sum of two"""
        r = self.rng
        c = r.random()
        if depth >= 2 or c >= 0.5:
            return self.atom(avail, envs, (ch,), in_amc=True)
        if c < 0.25:
            return self.mapping(avail, envs, lambda a, e, c2: self.atomic_sub(a, e, c2[0], depth + 1), chs=(ch,))
        if c < 0.4:
            return self.arith(avail, self.atomic_sub(avail, envs, ch, depth + 1), (ch,))
        if c < 0.44:
            # ParallelChannelPT around an atomic template is atomic (it overwrites the part's own channel)
            n = {'k': 'par', 'inner': self.atomic_sub(avail, envs, ch, depth + 1), 'ow': [[ch, self.expr(sorted(avail))]]}
            if r.random() < 0.4:
                n['td'] = True
            return n
        return {'k': 'aat', 'lhs': self.atomic_sub(avail, envs, ch, depth + 1),
                'rhs': self.atomic_sub(avail, envs, ch, depth + 1), 'op': r.choice('+-'),
                'ms': self.windows(sorted(avail))}

    def arith(self, avail, inner, chs):
        """ArithmeticPT(inner op scalar) / (scalar op inner); scalar = one expression or a mapping on some channels;
        op '/' only as inner / scalar with a scalar that reads a parameter (a constant 0 divisor raises
        ZeroDivisionError, a parameter that is 0 gives inf: not a matter of parameters); 'td': every scalar is
        multiplied by the time variable t (time dependent scalar; t is not a parameter)"""
        r = self.rng
        names = sorted(avail)
        n = {'k': 'ari', 'inner': inner, 'op': r.choice('+-*'), 'side': r.choice('lr'), 'sa': [], 'sc': []}
        if r.random() < 0.5:
            n['sa'] = [self.expr(names)]
        else:
            sub = [c for c in chs if r.random() < 0.7]
            n['sc'] = [[c, self.expr(names)] for c in sub]
        scalars = n['sa'] + [e for _, e in n['sc']]
        if r.random() < 0.25 and scalars and all(evars(e) for e in scalars):
            n['op'], n['side'] = '/', 'r'
        elif py_is_atomic(inner) and r.random() < 0.6:
            n['td'] = True          # the real constructor accepts a time dependent scalar only next to an atomic template
        return n

    def tree(self, depth, avail, envs, chs, must=None):
        r = self.rng
        names = sorted(avail)
        kinds = ['atom'] * 3
        if depth < self.max_depth:
            kinds += ['seq', 'seq', 'rep', 'rep', 'for', 'for', 'map', 'map', 'map', 'ari', 'rev', 'aat']
            if len(chs) == 2:
                kinds += ['amc', 'amc', 'par']
            else:
                kinds += ['par']
        if self.only is not None:
            kinds = [k for k in kinds if k in self.only] or ['atom']
        k = r.choice(kinds)
        if k == 'atom':
            if len(chs) == 1 or r.random() < 0.7:
                n = self.atom(avail, envs, chs, must=must)
                return n
            k = 'amc'
        if k == 'amc':
            subs = [self.atomic_sub(avail, envs, chs[0]), self.atomic_sub(avail, envs, chs[1])]
            for q in subs:
                if q['k'] == 'map' and not q['cs'] and q['m'] and r.random() < 0.5:
                    q['tup'] = True
            n = {'k': 'amc', 'subs': subs, 'cs': self.constraints(names, envs), 'ms': self.windows(names)}
        elif k == 'aat':
            n = {'k': 'aat', 'lhs': self.atomic_sub(avail, envs, chs[0], 1), 'rhs': self.atomic_sub(avail, envs, chs[-1], 1),
                 'op': r.choice('+-'), 'ms': self.windows(names)}
        elif k == 'ari':
            n = self.arith(avail, self.tree(depth + 1, avail, envs, chs), chs)
        elif k == 'rev':
            n = {'k': 'rev', 'inner': self.tree(depth + 1, avail, envs, chs)}
        elif k == 'par':
            inner_chs = chs if (len(chs) == 1 or r.random() < 0.5) else (chs[0],)
            n = {'k': 'par', 'inner': self.tree(depth + 1, avail, envs, inner_chs),
                 'ow': [[chs[-1], self.expr(names)]] + ([[chs[0], self.expr(names)]] if len(chs) == 2 and r.random() < 0.2 else [])}
            if py_is_atomic(n['inner']) and r.random() < 0.5:
                n['td'] = True      # time dependent values (only next to an atomic template)
                if r.random() < 0.5:
                    n['ow'][0][1] = self.fexpr(names)
        elif k == 'seq':
            subs = [self.tree(depth + 1, avail, envs, chs) for _ in range(r.choice([1, 2, 2, 3]))]
            if r.random() < 0.12:
                # the very same object twice among the direct children (aliasing; the model sees two copies)
                j = r.randrange(len(subs))
                self.fresh += 1
                subs[j]['oid'] = 'o%d' % self.fresh
                subs.insert(r.randrange(len(subs) + 1), copy.deepcopy(subs[j]))
            for q in subs:
                if q['k'] == 'map' and not q['cs'] and q['m'] and r.random() < 0.5:
                    q['tup'] = True     # given to the SequencePT as a (template, mapping) tuple
            n = {'k': 'seq', 'subs': subs, 'cs': self.constraints(names, envs), 'ms': self.windows(names)}
        elif k == 'rep':
            count = self.int_expr(names, envs, -1, 3)
            if count[0] == 'c' and r.random() < 0.3:
                count = C(0)
            envs2 = [e for e in envs if ev(count, e) > 0]
            n = {'k': 'rep', 'body': self.tree(depth + 1, avail, envs2, chs), 'count': count,
                 'cs': self.constraints(names, envs), 'ms': self.windows(names)}
        elif k == 'for':
            idx = self.name('i') if (r.random() < 0.8 or not names) else r.choice(names)
            if idx == must:
                idx = self.name('i')
            a = self.int_expr(names, envs, -2, 3)
            b = self.int_expr(names, envs, -2, 4)
            if idx in names:
                self.hot.add(idx)
                if envs and all(e[idx].denominator == 1 and -2 <= e[idx] <= 3 for e in envs) and r.random() < 0.6:
                    # the index name is also read by the loop's own range (evaluated outside the loop)
                    a, b = r.choice([(V(idx), ['+', V(idx), C(r.randint(0, 3))]), (C(0), V(idx)), (V(idx), C(3))])
            st = r.choice([C(1), C(1), C(2), C(-1), C(-2), self.int_expr(names, envs, -2, 2)])
            ok = True
            envs2 = []
            for e in envs:
                s = ev(st, e)
                if s == 0:
                    ok = False
                    break
                rg = range(int(ev(a, e)), int(ev(b, e)), int(s))
                if len(rg) > 3:
                    ok = False
                    break
                for v in rg:
                    e2 = dict(e)
                    e2[idx] = F(v)
                    envs2.append(e2)
            if not ok or (st[0] == 'c' and F(st[1]) == 0):
                a, b, st = C(0), C(r.choice([0, 1, 2, 3])), C(1)
                envs2 = []
                for e in envs:
                    for v in range(int(F(b[1]))):
                        e2 = dict(e)
                        e2[idx] = F(v)
                        envs2.append(e2)
            body = self.tree(depth + 1, set(avail) | {idx}, envs2, chs, must=idx)
            if idx not in py_pnames(body):
                extra = self.atom(set(avail) | {idx}, envs2, chs, must=idx)
                body = {'k': 'seq', 'subs': [body, extra] if r.random() < 0.5 else [extra, body], 'cs': [], 'ms': []}
            n = {'k': 'for', 'body': body, 'idx': idx, 'a': a, 'b': b, 'st': st,
                 'cs': self.constraints(names, envs), 'ms': self.windows(names)}
        else:
            n = self.mapping(avail, envs, lambda a2, e2, c2: self.tree(depth + 1, a2, e2, c2), chs=chs)
        if r.random() < 0.06:
            n['tsw'] = True     # member of to_single_waveform
        if must is not None and must not in py_pnames(n):
            extra = self.atom(avail, envs, chs, must=must)
            n = {'k': 'seq', 'subs': [n, extra], 'cs': [], 'ms': []}
        return n


_FS_CACHE = {}
_REL_CACHE = {}


def _rel_symbols(c):
    """free symbols of the constraint as sympy sees it; None if it is not a relation"""
    import sympy
    key = cstr(c)
    if key not in _REL_CACHE:
        if c['op'] == '==':
            rel = sympy.Eq(sympy.sympify(estr(c['l'])), sympy.sympify(estr(c['r'])))
        else:
            rel = sympy.sympify(key)
        _REL_CACHE[key] = ({str(x) for x in rel.free_symbols}
                           if isinstance(rel, sympy.core.relational.Relational) else None)
    return _REL_CACHE[key]


def sympy_ok(tree):
    """filter: sympy must see exactly the syntactic variables (no cancellation / auto-evaluation)"""
    import sympy

    def fs(s):
        if s not in _FS_CACHE:
            _FS_CACHE[s] = frozenset(str(x) for x in sympy.sympify(s).free_symbols)
        return _FS_CACHE[s]
    for n in nodes(tree):
        exprs = list(n.get('reads', [])) + list(n.get('sa', []))
        if n['k'] == 'par':
            exprs += [e for _, e in par_ow(n)]
        exprs += [e for _, e in n.get('sc', [])]
        for key in ('dur', 'count', 'a', 'b', 'st', 't0'):
            if n.get(key):
                exprs.append(n[key])
        for b, l in n.get('ms', []):
            exprs += [b, l]
        exprs += list(n.get('m', {}).values())
        for e in exprs:
            if fs(estr(e)) != evars(e):
                return False
        for c in n.get('cs', []):
            if _rel_symbols(c) != evars(c['l']) | evars(c['r']):
                return False
        if n['k'] == 'map' and n['inner']['k'] == 'map' and not n['inner']['cs']:
            # will be merged: the composed expressions must not lose variables
            inner = n['inner']
            outer = dict(n['m'])
            for key, e in inner['m'].items():
                comp = sympy.sympify(estr(e)).subs({sympy.Symbol(k2): sympy.sympify(estr(e2))
                                                     for k2, e2 in outer.items()}, simultaneous=True)
                want = set()
                for x in evars(e):
                    want |= evars(outer[x]) if x in outer else {x}
                if {str(x) for x in comp.free_symbols} != want:
                    return False
    return True


def div_ok(n, py=frozenset()):
    """filter: the divisor of an ArithmeticPT must get its value from the caller's parameters (numpy scalars: a zero
    gives inf).  A name bound to a constant by a mapping, or to a loop index, reaches the division as a Python number,
    where a zero raises ZeroDivisionError: what a zero divisor does is not a matter of parameters (notes: outside C03)"""
    k = n['k']
    if k == 'ari' and n['op'] == '/':
        for e in list(n['sa']) + [e for _, e in n['sc']]:
            if not (evars(e) - py):
                return False
    if k == 'for':
        return div_ok(n['body'], py | {n['idx']})
    if k == 'map':
        bound = {key for key, e in n['m'].items() if not (evars(e) - py)}
        return div_ok(n['inner'], (py - set(n['m'])) | bound)
    return all(div_ok(q, py) for q in children(n))


def strip_ids(tree):
    t = copy.deepcopy(tree)
    for n in nodes(t):
        for c in n.get('cs', []):
            c.pop('id', None)
    return t


def violate(tree, cid):
    t = copy.deepcopy(tree)
    for n in nodes(t):
        for c in n.get('cs', []):
            if c.get('id') == cid:
                delta = {'<=': -1, '<': -1, '>=': 1, '>': 1, '==': 1}[c['op']]
                r = c['r']
                c['r'] = C(F(r[1]) + delta) if r[0] == 'c' else ['+', r, C(delta)]
    return t


def malform(tree, rng):
    """malformed stream: non-integer repetition count / range bound, zero step, negative measurement window"""
    t = copy.deepcopy(tree)
    ns = list(nodes(t))
    rng.shuffle(ns)
    for n in ns:
        k = n['k']
        choice = rng.random()
        if k == 'rep' and choice < 0.5:
            n['count'] = C(F(rng.choice([1, 3]), 2)) if rng.random() < 0.5 else ['+', n['count'], C(F(1, 2))]
            return t, 'noninteger-count'
        if k == 'for' and choice < 0.4:
            n['st'] = C(0)
            return t, 'zero-step'
        if k == 'for' and choice < 0.7:
            n['b'] = ['+', n['b'], C(F(1, 2))]
            return t, 'noninteger-bound'
        if 'ms' in n and choice > 0.6:
            n['ms'] = [[C(-1), C(1)]]
            return t, 'negative-window'
    return None, None


def constructible(tree):
    """the real constructors accept the tree: no unnecessary mapping, the loop index is a parameter of the body"""
    for n in nodes(tree):
        if n['k'] == 'map' and set(n['m']) - py_pnames(n['inner']):
            return False
        if n['k'] == 'for' and n['idx'] not in py_pnames(n['body']):
            return False
    return True


def gen_tree(rng, max_depth):
    for _ in range(50):
        g = Gen(rng, max_depth)
        ref = {x: g.small() for x in TOP}
        if rng.random() < 0.5:
            for x in TOP[:3]:
                ref[x] = F(int(ref[x]))
        tree = g.tree(0, set(TOP), [ref], ('A', 'B'))
        if sympy_ok(tree) and div_ok(tree):
            return g, tree, ref
    raise RuntimeError('generator could not produce a sympy-stable tree')


def mk_case(tree, ref, family, rng, drop=(), tag='', zeros=(), rmn=None):
    extras = {('x%d' % i): str(F(rng.randint(-3, 3))) for i in range(rng.choice([1, 2]))}
    for x in d_internal_names(tree):        # undeclared names that coincide with internal ones (t, m, A, indices, keys)
        if rng.random() < 0.5:
            extras[x] = str(F(rng.randint(-3, 5)))
    c = {'kind': family, 'tree': strip_ids(tree), 'ref': {k: str(v) for k, v in sorted(ref.items())},
         'drop': sorted(drop), 'rm': rng.randrange(64), 'extra': extras, 'tag': tag}
    if family == 'zero':
        c['zeros'] = sorted(zeros)
        c['rmn'] = rmn
    if rng.random() < 0.3:
        # how the values are handed over: numpy scalars, strings (evaluated by create_program), floats, a ready-made
        # DictScope.  Only numpy scalars next to a division: a Python 0 / 0.0 divisor (float, string, or an int that
        # reaches the template uncast inside a Scope) raises ZeroDivisionError, numpy zeros (ints in a dict are cast
        # to int64) give inf -- what a zero divisor does is not a matter of parameters
        div = any(n['k'] == 'ari' and n['op'] == '/' for n in nodes(tree))
        c['vt'] = rng.choice(['np', 'npsmall'] if div else ['np', 'npsmall', 'scope', 'str', 'float'])
        if rng.random() < 0.5:
            c['vt2'] = 'int'
    return c


def mk_history(tree, ref, rng, drop=()):
    """random history on one template object: the reference assignment, then assignments that differ from their
    predecessor only in values with the same Python hash (-1 <-> -2, as int / float / numpy scalar), then the
    reference again; sometimes a declared name is missing in one step (a failed call in between)"""
    tog = {F(-1): F(-2), F(-2): F(-1)}
    names = sorted(ref)
    cand = [x for x in names if ref[x] in tog]
    # a Python float 0.0 as divisor of an ArithmeticPT raises ZeroDivisionError where int / numpy zeros give inf: not
    # a matter of parameters (notes: outside C03), so no float values next to a division
    div = any(n['k'] == 'ari' and n['op'] == '/' for n in nodes(tree))
    vts = ['int', 'np', 'npsmall'] if div else ['int', 'float', 'np', 'npsmall']
    vt = rng.choice(['int'] + vts)
    steps = [{'set': {}, 'vt': vt}]
    if cand and rng.random() < 0.8:
        sub = rng.sample(cand, rng.randint(1, len(cand)))
        steps.append({'set': {x: str(tog[ref[x]]) for x in sub}, 'vt': vt})
    else:
        x = rng.choice(names)
        a, b = rng.choice([(-1, -2), (-2, -1)])
        steps.append({'set': {x: str(a)}, 'vt': vt})
        steps.append({'set': {x: str(b)}, 'vt': vt})
        if rng.random() < 0.5:
            steps.append({'set': {x: str(a)}, 'vt': rng.choice(vts)})
    if rng.random() < 0.3:
        steps.insert(rng.randrange(1, len(steps) + 1), {'set': dict(steps[-1]['set']), 'del': [rng.choice(names)], 'vt': vt})
    steps.append({'set': {}, 'vt': rng.choice(['int', vt])})
    c = {'kind': 'history', 'tree': strip_ids(tree), 'ref': {k: str(v) for k, v in sorted(ref.items())},
         'drop': sorted(drop), 'rm': 0, 'extra': {}, 'tag': 'collide', 'hist': steps}
    return c


def drop_list(case):
    d = case.get('drop')
    if d is True:           # old corpus format: every channel dropped
        return ['A', 'B']
    return list(d or [])


def zero_candidates(tree):
    """(x, y): a function atom multiplies the top-level names x and y: x := 0 hides a missing y (known finding)"""
    out = []

    def prods(e):
        if e[0] in '+-*':
            if e[0] == '*' and e[1][0] == 'v' and e[2][0] == 'v' and e[1][1] != e[2][1]:
                yield e[1][1], e[2][1]
                yield e[2][1], e[1][1]
            yield from prods(e[1])
            yield from prods(e[2])
    for n in nodes(tree):
        exprs = [n['reads'][0]] if n['k'] == 'func' else [e for _, e in par_ow(n)] if (n['k'] == 'par' and n.get('td')) else []
        for e in exprs:
            for x, y in prods(e):
                if x in TOP and y in TOP:
                    out.append((x, y))
    return out


def enum_small():
    """thorough tier: every tree with <= 3 nodes over a small grammar (names a, b; one channel), with <= 2 constraints
    from a fixed pool on the constrainable nodes, under 3 reference assignments; families: exact (+ extra names as
    second assignment), each declared name removed, channel dropped"""
    import itertools
    a, b, i = V('p0'), V('p1'), V('i1')
    pool = [{'op': '<', 'l': a, 'r': b}, {'op': '==', 'l': b, 'r': C(1)}, {'op': '>=', 'l': ['*', a, b], 'r': C(0)}]

    def atoms(x):
        yield {'k': 'table', 'ch': ['A'], 'reads': [x, b], 'dur': C(2), 'cs': [], 'ms': []}
        yield {'k': 'point', 'ch': ['A'], 'reads': [x, C(1)], 'dur': ['*', b, b], 'cs': [], 'ms': []}
        yield {'k': 'func', 'ch': ['A'], 'reads': [['*', x, b]], 'dur': C(2), 'cs': [], 'ms': []}
        yield {'k': 'const', 'ch': ['A'], 'reads': [x], 'dur': b, 'cs': [], 'ms': [[C(0), x]]}

    def wrap(t):
        yield {'k': 'seq', 'subs': [t], 'cs': [], 'ms': []}
        for cnt in (C(0), C(1), a):
            yield {'k': 'rep', 'body': t, 'count': cnt, 'cs': [], 'ms': []}
        yield {'k': 'map', 'inner': t, 'm': {'p0': ['+', b, C(1)]} if 'p0' in py_pnames(t) else {}, 'cs': []}
        yield {'k': 'map', 'inner': t, 'm': {'p1': ['*', a, a]} if 'p1' in py_pnames(t) else {}, 'cs': []}
        yield {'k': 'par', 'inner': t, 'ow': [['B', a]]}
        yield {'k': 'ari', 'inner': t, 'op': '+', 'side': 'r', 'sa': [b], 'sc': []}
        yield {'k': 'ari', 'inner': t, 'op': '*', 'side': 'l', 'sa': [], 'sc': [['A', a]]}
        yield {'k': 'rev', 'inner': t}
        if t['k'] in ('table', 'point', 'func', 'const'):
            yield {'k': 'aat', 'lhs': t, 'rhs': {'k': 'const', 'ch': ['A'], 'reads': [b], 'dur': t['dur'], 'cs': [], 'ms': []},
                   'op': '+', 'ms': [[a, C(1)]]}

    def loops(t_of):
        for t in t_of(i):
            yield {'k': 'for', 'body': t, 'idx': 'i1', 'a': C(0), 'b': a, 'st': C(1), 'cs': [], 'ms': []}
        for t in t_of(a):
            yield {'k': 'for', 'body': t, 'idx': 'p0', 'a': C(0), 'b': b, 'st': C(1), 'cs': [], 'ms': []}     # shadowing

    one = list(atoms(a))
    two = [w for t in one for w in wrap(t)] + list(loops(atoms))
    two += [{'k': 'seq', 'subs': [t, u], 'cs': [], 'ms': []} for t in one[:2] for u in one]
    three = [w for t in two for w in wrap(t) if not (w['k'] == 'aat')]
    three += list(loops(lambda x: [w for t in atoms(x) for w in wrap(t) if w['k'] in ('seq', 'rep', 'map', 'ari')]))
    trees = one + two + three
    refs = [{'p0': F(1), 'p1': F(2)}, {'p0': F(2), 'p1': F(1)}, {'p0': F(0), 'p1': F(1)}]
    out = []
    import random
    r0 = random.Random(1)
    for t in trees:
        if not sympy_ok(t) or not constructible(t):
            continue
        slots = [n for n in nodes(t) if 'cs' in n and n['k'] != 'const']
        variants = [t]
        for n_i, cs in itertools.product(range(len(slots)), [[pool[0]], [pool[1], pool[2]]]):
            t2 = copy.deepcopy(t)
            [n for n in nodes(t2) if 'cs' in n and n['k'] != 'const'][n_i]['cs'] = copy.deepcopy(cs)
            variants.append(t2)
        for v in variants:
            for ref in refs:
                out.append(mk_case(v, ref, 'exact', r0, tag='small'))
            out.append(mk_case(v, refs[0], 'removed', r0, tag='small'))
            out[-1]['rm'] = 0
            out.append(mk_case(v, refs[0], 'removed', r0, tag='small'))
            out[-1]['rm'] = 1
            out.append(mk_case(v, refs[2], 'zero', r0, zeros=['p0'], rmn='p1', tag='small'))
            out.append(mk_case(v, refs[0], 'exact', r0, drop=['A'], tag='small'))
    return out


# ---------------------------------------------------------------------------------------------------------------------
# directed stream (deterministic, no RNG): name-coincidence classes
#   D1 self-referential / shadowing mappings  x -> f(x)  (2*x, x+2, x-1, x*x, x+y, -x, y, swap {x: y, y: x}) above every
#      constrainable node kind, in every position (top, below a sequence / repetition, between a loop and its body with
#      x = the loop index, on the eager path inside an AtomicMultiChannelPT, nested in a second mapping of the same name,
#      above a loop whose range reads x, above a loop whose index is x), with one constraint on x that is
#        - placed on the mapping node itself (sees the *outer* x)   or   on a node below it (sees the *mapped* x),
#        - chosen so that it separates the two scopes: true where it belongs and false in the other scope (must be
#          accepted) / false where it belongs and true in the other scope (must be rejected);
#   D2 loop index = a name of the loop's own range / of the enclosing loop's bound; constraint on the loop vs in the body;
#   D3 extra (undeclared) names that coincide with internal names: 't' (time variable of FunctionPT), loop indices,
#      inner mapping keys, the measurement name, channel names -- every directed case passes *all* of them as the
#      second assignment; (b) then demands the same outcome and an equal program.

def _tagged(n, tag):
    n['_tags'] = n.get('_tags', []) + [tag]
    return n


def reach(n, env, out):
    """generator-side reference semantics (all values present): environments seen by every reached tagged node"""
    for tg in n.get('_tags', []):
        out.setdefault(tg, []).append(dict(env))
    k = n['k']
    if k in ('amc', 'seq'):
        for q in n['subs']:
            reach(q, env, out)
    elif k in ('par', 'ari', 'rev'):
        reach(n['inner'], env, out)
    elif k == 'aat':
        reach(n['lhs'], env, out)
        reach(n['rhs'], env, out)
    elif k == 'rep':
        if ev(n['count'], env) > 0:
            reach(n['body'], env, out)
    elif k == 'for':
        for v in range(int(ev(n['a'], env)), int(ev(n['b'], env)), int(ev(n['st'], env))):
            e2 = dict(env)
            e2[n['idx']] = F(v)
            reach(n['body'], e2, out)
    elif k == 'map':
        e2 = dict(env)
        for key, ex in n['m'].items():
            e2[key] = ev(ex, env)
        reach(n['inner'], e2, out)
    return out


def strip_tags(t):
    t = copy.deepcopy(t)
    for n in nodes(t):
        n.pop('_tags', None)
    return t


def find_tag(t, tag):
    for n in nodes(t):
        if tag in n.get('_tags', []):
            return n
    return None


def separating(x, A, B, truth):
    """constraints on x: truth=True -> true on every value of A and false on some value of B;
    truth=False -> false on some value of A and true on every value of B (A: where the node lives, B: the other scope)"""
    if not A or not B:
        return []
    if not truth:
        A, B = B, A
    out = []            # now: true on all of A, false on some of B
    if min(B) < min(A):
        out.append({'op': '>=', 'l': V(x), 'r': C(min(A))})
        out.append({'op': '>', 'l': V(x), 'r': C(min(A) - F(1, 2))})
    if max(B) > max(A):
        out.append({'op': '<=', 'l': V(x), 'r': C(max(A))})
        out.append({'op': '<', 'l': ['-', V(x), C(1)], 'r': C(max(A))})
    if len(set(A)) == 1 and set(B) != set(A):
        out.append({'op': '==', 'l': V(x), 'r': C(A[0])})
    return out


def _const(e, ch='A', dur=None):
    return {'k': 'const', 'ch': [ch], 'reads': [e], 'dur': dur or C(2), 'cs': [], 'ms': []}


D_TARGETS = ['table', 'point', 'func', 'amc', 'seq', 'rep', 'for', 'map0', 'mapz']
D_ATOMIC_TARGETS = ['table', 'point', 'func', 'map0', 'mapz', 'aat']


def d_target(kind, x, ch='A'):
    """a node that reads x and accepts constraints (tag 'T'); inside an AMC: atomic, duration 2, one channel"""
    if kind == 'table':
        n = {'k': 'table', 'ch': [ch], 'reads': [V(x), C(1)], 'dur': C(2), 'cs': [], 'ms': []}
    elif kind == 'point':
        n = {'k': 'point', 'ch': [ch], 'reads': [C(1), V(x)], 'dur': C(2), 'cs': [], 'ms': [[C(0), C(1)]]}
    elif kind == 'func':
        n = {'k': 'func', 'ch': [ch], 'reads': [['+', V(x), C(1)]], 'dur': C(2), 'cs': [], 'ms': []}
    elif kind == 'amc':
        n = {'k': 'amc', 'subs': [_const(V(x), ch)], 'cs': [], 'ms': [[C(1), C(1)]]}
    elif kind == 'seq':
        n = {'k': 'seq', 'subs': [_const(V(x), ch)], 'cs': [], 'ms': [[C(0), ['*', V(x), V(x)]]]}
    elif kind == 'rep':
        n = {'k': 'rep', 'body': _const(V(x), ch), 'count': C(2), 'cs': [], 'ms': []}
    elif kind == 'for':
        n = {'k': 'for', 'body': _const(['+', V(x), V('j9')], ch), 'idx': 'j9', 'a': C(0), 'b': C(2), 'st': C(1),
             'cs': [], 'ms': []}
    elif kind == 'map0':            # partial mapping (completed with the identity), constraints of its own
        n = {'k': 'map', 'inner': {'k': 'table', 'ch': [ch], 'reads': [V(x), C(0)], 'dur': C(2), 'cs': [], 'ms': []},
             'm': {}, 'cs': []}
    elif kind == 'mapz':            # a mapping of another name that reads x
        n = {'k': 'map', 'inner': {'k': 'table', 'ch': [ch], 'reads': [V('z9'), V(x)], 'dur': C(2), 'cs': [], 'ms': []},
             'm': {'z9': ['+', V(x), C(1)]}, 'cs': []}
    elif kind == 'aat':
        n = {'k': 'aat', 'lhs': {'k': 'table', 'ch': [ch], 'reads': [V(x), C(1)], 'dur': C(2), 'cs': [], 'ms': []},
             'rhs': _const(C(1), ch), 'op': '+', 'ms': []}
        _tagged(n['lhs'], 'T')
        return n
    else:
        raise ValueError(kind)
    return _tagged(n, 'T')


def d_fkinds(x, y):
    return [('2x', {x: ['*', V(x), C(2)]}), ('x+2', {x: ['+', V(x), C(2)]}), ('x-1', {x: ['-', V(x), C(1)]}),
            ('xx', {x: ['*', V(x), V(x)]}), ('x+y', {x: ['+', V(x), V(y)]}), ('negx', {x: ['*', V(x), C(-1)]}),
            ('y', {x: V(y)}), ('swap', {x: V(y), y: V(x)})]


D_REF = {'p0': F(3), 'p1': F(3), 'p2': F(2), 'p3': F(1)}
D_CONTEXTS = ['top', 'seq', 'rep', 'loopidx', 'amc', 'nested', 'looprange', 'idxshadow']


def d_context(cname, m, tkind):
    """(tree, x): the mapping node M (tag 'M') with parameter mapping m (over x, y) in position cname above the target"""
    x, y = ('i1', 'p2') if cname == 'loopidx' else ('p0', 'p2')
    mm = dict(m(x, y))
    keep_y = [_const(V(y), 'A')] if y in mm else []        # the swap also maps y: keep y needed below the mapping
    if cname == 'amc':
        t = d_target(tkind, x, 'A')
        M = _tagged({'k': 'map', 'inner': t, 'm': mm, 'cs': [], 'tup': tkind in ('point', 'mapz')}, 'M')
        if keep_y:
            M['inner'] = {'k': 'aat', 'lhs': t, 'rhs': keep_y[0], 'op': '+', 'ms': []}
        return {'k': 'amc', 'subs': [M, _const(C(1), 'B')], 'cs': [], 'ms': []}, x
    t = d_target(tkind, x)
    inner = {'k': 'seq', 'subs': [t] + keep_y, 'cs': [], 'ms': []} if keep_y else t
    if cname == 'top':
        return _tagged({'k': 'map', 'inner': inner, 'm': mm, 'cs': []}, 'M'), x
    if cname == 'seq':
        M = _tagged({'k': 'map', 'inner': {'k': 'seq', 'subs': [_const(C(1)), inner], 'cs': [], 'ms': []}, 'm': mm, 'cs': [],
                     'tup': tkind in ('table', 'func', 'rep', 'map0')}, 'M')
        return {'k': 'seq', 'subs': [M, _const(V(x))], 'cs': [], 'ms': []}, x
    if cname == 'rep':
        M = _tagged({'k': 'map', 'inner': inner, 'm': mm, 'cs': []}, 'M')
        return {'k': 'rep', 'body': M, 'count': C(2), 'cs': [], 'ms': []}, x
    if cname == 'loopidx':          # the loop index is rebound between the loop and its body
        M = _tagged({'k': 'map', 'inner': inner, 'm': mm, 'cs': []}, 'M')
        return {'k': 'for', 'body': M, 'idx': x, 'a': C(0), 'b': V('p1'), 'st': C(1), 'cs': [], 'ms': []}, x
    if cname == 'nested':           # a second mapping of the same name above (merged iff M has no constraints)
        M = _tagged({'k': 'map', 'inner': inner, 'm': mm, 'cs': []}, 'M')
        return {'k': 'map', 'inner': M, 'm': {x: ['+', V(x), C(1)]}, 'cs': []}, x
    if cname == 'looprange':        # the mapped name is the bound of a loop below
        body = {'k': 'seq', 'subs': [inner, _const(V('j8'))], 'cs': [], 'ms': []}
        loop = {'k': 'for', 'body': body, 'idx': 'j8', 'a': C(0), 'b': V(x), 'st': C(3), 'cs': [], 'ms': []}
        return _tagged({'k': 'map', 'inner': loop, 'm': mm, 'cs': []}, 'M'), x
    if cname == 'idxshadow':        # the mapped name is the bound *and* the index of a loop below
        loop = {'k': 'for', 'body': inner, 'idx': x, 'a': C(0), 'b': V(x), 'st': C(2), 'cs': [], 'ms': []}
        return _tagged({'k': 'map', 'inner': loop, 'm': mm, 'cs': []}, 'M'), x
    raise ValueError(cname)


def d_internal_names(tree):
    """undeclared names that coincide with internal ones: time variable, measurement / channel names, loop indices,
    inner mapping keys"""
    s = {'t', 'm', 'A'}
    for n in nodes(tree):
        if n['k'] == 'for':
            s.add(n['idx'])
        if n['k'] == 'map':
            s |= set(n['m']) | set(n.get('ren', {})) | set(n.get('mren', {}).values())
    return sorted(s - py_pnames(tree))


def d_case(tree, ref, tag, kind='exact', rm=0, drop=(), extra_vals=(5, -3, 2, 7)):
    tree = strip_tags(tree)
    extra = {x: str(extra_vals[j % len(extra_vals)]) for j, x in enumerate(d_internal_names(tree))}
    return {'kind': kind, 'tree': tree, 'ref': {k: str(v) for k, v in sorted(ref.items())}, 'drop': sorted(drop),
            'rm': rm, 'extra': extra, 'tag': tag}


def _values_at(tree, tag, x, ref, inner=False):
    out = reach(tree, dict(ref), {})
    envs = out.get(tag, [])
    return [e[x] for e in envs if x in e]


def directed_mapping_cases(full):
    """D1.  quick: for every context all mappings (targets rotating) and all targets (mappings rotating); thorough:
    the full product"""
    cases = []
    for ci, cname in enumerate(D_CONTEXTS):
        tks = D_ATOMIC_TARGETS if cname == 'amc' else D_TARGETS
        nf = len(d_fkinds('x', 'y'))
        if full:
            pairs = [(fi, ti) for fi in range(nf) for ti in range(len(tks))]
        else:
            pairs = [(fi, (fi + ci) % len(tks)) for fi in range(nf)] + [((ti + ci) % nf, ti) for ti in range(len(tks))]
            pairs = list(dict.fromkeys(pairs))
        for fi, ti in pairs:
            fname = d_fkinds('x', 'y')[fi][0]
            m = lambda x, y, fi=fi: d_fkinds(x, y)[fi][1]
            ident = lambda x, y, fi=fi: {k: V(k) for k in d_fkinds(x, y)[fi][1]}
            tree, x = d_context(cname, m, tks[ti])
            alt, _ = d_context(cname, ident, tks[ti])           # the "other scope" below M: as if M were the identity
            if not (sympy_ok(strip_tags(tree)) and constructible(strip_tags(tree))):
                continue
            # M tagged nodes see the outer scope; the node directly below sees the mapped one
            M = find_tag(tree, 'M')
            _tagged(M['inner'], 'MI')
            placements = [('M', _values_at(tree, 'M', x, D_REF), _values_at(tree, 'MI', x, D_REF)),
                          ('T', _values_at(tree, 'T', x, D_REF), _values_at(alt, 'T', x, D_REF))]
            for where, A, B in placements:
                for truth in (True, False):
                    cands = separating(x, A, B, truth)
                    if not cands:
                        continue
                    # rotate over the shapes of the constraint, deterministic
                    c = cands[(fi + ti + ci + (0 if truth else 1)) % len(cands)]
                    t2 = copy.deepcopy(tree)
                    node = find_tag(t2, where)
                    if node['k'] == 'aat' or 'cs' not in node:
                        continue
                    node['cs'] = [copy.deepcopy(c)]
                    tag = 'D1:%s:%s:%s:on%s:%s' % (cname, fname, tks[ti], where, 'accept' if truth else 'reject')
                    if sympy_ok(strip_tags(t2)):
                        cases.append(d_case(t2, D_REF, tag))
    return cases


def directed_loop_cases():
    """D2: the loop index coincides with a name of the loop's own range / of the enclosing loop / of a constraint or
    measurement window of the loop node (evaluated outside the loop)"""
    cases = []
    x, nn = 'p0', 'p1'
    ref = {'p0': F(1), 'p1': F(3), 'p2': F(2)}
    for tk in D_TARGETS:
        # resume: for x in range(x, n)
        t = d_target(tk, x)
        loop = _tagged({'k': 'for', 'body': t, 'idx': x, 'a': V(x), 'b': V(nn), 'st': C(1), 'cs': [], 'ms': []}, 'L')
        # triangular: for n in range(0, n + 1): for i in range(0, n): body(i)
        t3 = d_target(tk, 'i1')
        tri = _tagged({'k': 'for', 'idx': nn, 'a': C(0), 'b': ['+', V(nn), C(1)], 'st': C(1), 'cs': [], 'ms': [],
                       'body': {'k': 'for', 'body': t3, 'idx': 'i1', 'a': C(0), 'b': V(nn), 'st': C(1), 'cs': [], 'ms': []}},
                      'L')
        _tagged(tri['body'], 'L2')
        # index named like a name that only the loop's own window / constraint reads
        t4 = d_target(tk, x)
        win = _tagged({'k': 'for', 'body': t4, 'idx': x, 'a': C(0), 'b': C(2), 'st': C(1), 'cs': [],
                       'ms': [[C(0), ['*', V(x), V(x)]]]}, 'L')
        for name, tree, xs in (('resume', loop, x), ('triangular', tri, nn), ('window', win, x)):
            cases.append(d_case(tree, ref, 'D2:%s:%s:plain' % (name, tk)))
            cases.append(d_case(tree, ref, 'D2:%s:%s:removed' % (name, tk), kind='removed', rm=len(cases)))
            wrap = {'k': 'map', 'inner': copy.deepcopy(tree), 'm': {'p2': ['*', V('p2'), C(2)]}, 'cs': []}
            if 'p2' in py_pnames(tree):
                cases.append(d_case(wrap, ref, 'D2:%s:%s:mapped' % (name, tk)))
            tgt = 'T' if name != 'triangular' else 'L2'
            A_L, A_T = _values_at(tree, 'L', xs, ref), _values_at(tree, tgt, xs, ref)
            for where, A, B in (('L', A_L, A_T), (tgt, A_T, A_L)):
                for truth in (True, False):
                    cands = separating(xs, A, B, truth)
                    if not cands:
                        continue
                    t2 = copy.deepcopy(tree)
                    node = find_tag(t2, where)
                    if 'cs' not in node or node['k'] == 'const':
                        continue
                    node['cs'] = [copy.deepcopy(cands[len(cases) % len(cands)])]
                    if sympy_ok(strip_tags(t2)):
                        cases.append(d_case(t2, ref, 'D2:%s:%s:on%s:%s' % (name, tk, where, 'accept' if truth else 'reject')))
    return cases


def directed_extra_cases():
    """D3: FunctionPT (time variable t) and the other node kinds in every position, extra names t / m / A / loop
    indices / mapping keys supplied in the second assignment"""
    cases = []
    ref = {'p0': F(2), 'p1': F(3), 'p2': F(1)}
    f = lambda: {'k': 'func', 'ch': ['A'], 'reads': [['*', V('p0'), V('p2')]], 'dur': C(2),
                 'cs': [{'op': '<', 'l': V('p0'), 'r': C(3)}], 'ms': [[C(0), C(1)]]}
    fq = lambda: {'k': 'func', 'ch': ['A'], 'reads': [['+', V('q1'), V('i1')]], 'dur': V('p1'), 'cs': [], 'ms': []}
    tb = lambda: {'k': 'table', 'ch': ['A'], 'reads': [V('t'), C(1)], 'dur': C(2), 'cs': [], 'ms': []}
    fq2 = lambda: {'k': 'func', 'ch': ['A'], 'reads': [['+', V('p0'), V('i1')]], 'dur': C(2), 'cs': [], 'ms': []}
    trees = [
        ('bare', f()),
        ('map', {'k': 'map', 'inner': f(), 'm': {'p0': ['+', V('p0'), C(0)]}, 'cs': []}),
        ('loop_map', {'k': 'for', 'idx': 'i1', 'a': C(0), 'b': V('p1'), 'st': C(1), 'cs': [], 'ms': [],
                      'body': {'k': 'map', 'inner': fq(), 'm': {'q1': ['+', V('p0'), V('i1')]}, 'cs': []}}),
        ('seq', {'k': 'seq', 'subs': [_const(V('p1')), f()], 'cs': [], 'ms': []}),
        ('amc', {'k': 'amc', 'subs': [f(), _const(V('p1'), 'B')], 'cs': [], 'ms': []}),
        ('ari', {'k': 'ari', 'inner': f(), 'op': '+', 'side': 'r', 'sa': [V('p1')], 'sc': []}),
        ('ari_td', {'k': 'ari', 'inner': f(), 'op': '*', 'side': 'l', 'sa': [V('p1')], 'sc': [], 'td': True}),
        ('ari_td_ch', {'k': 'ari', 'inner': f(), 'op': '+', 'side': 'r', 'sa': [], 'sc': [['A', ['+', V('p1'), C(1)]]], 'td': True}),
        ('ari_div', {'k': 'ari', 'inner': f(), 'op': '/', 'side': 'r', 'sa': [V('p1')], 'sc': []}),
        ('ari_div_loop_t', {'k': 'for', 'idx': 'i1', 'a': C(1), 'b': V('p1'), 'st': C(1), 'cs': [], 'ms': [],
                            'body': {'k': 'ari', 'inner': fq2(), 'op': '/', 'side': 'r', 'sa': [], 'sc': [['A', V('i1')]]}}),
        ('par', {'k': 'par', 'inner': f(), 'ow': [['B', V('p1')]]}),
        ('rep', {'k': 'rep', 'body': f(), 'count': V('p1'), 'cs': [], 'ms': []}),
        ('rev', {'k': 'rev', 'inner': f()}),
        ('aat', {'k': 'aat', 'lhs': f(), 'rhs': _const(V('p1')), 'op': '+', 'ms': []}),
        ('tsw', dict({'k': 'seq', 'subs': [f(), f()], 'cs': [], 'ms': []}, tsw=True)),
        # a sibling declares a parameter called t: t is supplied, the function template must still ignore it
        ('sibling_t', {'k': 'seq', 'subs': [tb(), f()], 'cs': [], 'ms': []}),
        ('map_to_t', {'k': 'seq', 'subs': [{'k': 'map', 'inner': tb(), 'm': {'t': V('p1')}, 'cs': []}, f()], 'cs': [], 'ms': []}),
    ]
    for name, tree in trees:
        for j, vals in enumerate([(5, -3, 2, 7), (0, 1, -1, 2)]):
            cases.append(d_case(tree, ref, 'D3:%s:%d' % (name, j), extra_vals=vals))
        cases.append(d_case(tree, ref, 'D3:%s:removed' % name, kind='removed', rm=len(cases)))
    return cases


def directed_channel_cases():
    """D4: MappingPT channel renaming (swap {A: B, B: A}, fresh inner channel renamed) x dropped outer channels: an
    inner channel is dropped iff the outer channel it is renamed to is; only the kept channels' values are needed"""
    cases = []
    ref = {'p0': F(1), 'p1': F(2), 'p2': F(3)}
    swap = {'A': 'B', 'B': 'A'}
    amc2 = lambda: {'k': 'amc', 'subs': [_const(V('p0'), 'A'), _const(V('p1'), 'B')], 'cs': [], 'ms': []}
    tb2 = lambda: {'k': 'table', 'ch': ['A', 'B'], 'reads': [V('p0'), C(1), V('p1'), C(0)], 'dur': C(2),
                   'cs': [{'op': '<', 'l': V('p0'), 'r': V('p1')}], 'ms': [[C(0), C(1)]]}
    mp = lambda inner, ren, cs=(): {'k': 'map', 'inner': inner, 'm': {}, 'cs': list(cs), 'ren': dict(ren)}
    trees = [
        ('swap_amc', mp(amc2(), swap)),
        ('swap_table', mp(tb2(), swap)),
        ('swap_par', mp({'k': 'par', 'inner': _const(V('p0'), 'A'), 'ow': [['B', V('p1')]]}, swap)),
        ('swap_ari', mp({'k': 'ari', 'inner': amc2(), 'op': '+', 'side': 'r', 'sa': [], 'sc': [['A', V('p2')]]}, swap)),
        ('swap_swap', mp(mp(amc2(), swap, [{'op': '<', 'l': V('p0'), 'r': C(5)}]), swap)),
        ('swap_seq', {'k': 'seq', 'subs': [mp(amc2(), swap), amc2()], 'cs': [], 'ms': []}),
        # the mapped child given as a tuple (template, channel mapping) / (template, parameters, channels, measurements)
        ('swap_seq_tuple', {'k': 'seq', 'subs': [dict(mp(amc2(), swap), tup=True), amc2()], 'cs': [], 'ms': []}),
        ('swap_seq_tuple3', {'k': 'seq', 'cs': [], 'ms': [], 'subs': [
            dict(mp(tb2(), swap), tup=True, m={'p0': ['-', V('p2'), C(3)]}, mren={'m': 'mm'}, cs=[]), amc2()]}),
        ('rename_in_amc', {'k': 'amc', 'subs': [mp(_const(V('p0'), 'Z1'), {'Z1': 'A'}), _const(V('p1'), 'B')],
                           'cs': [], 'ms': []}),
        ('rename_loop', {'k': 'for', 'idx': 'i1', 'a': C(0), 'b': C(2), 'st': C(1), 'cs': [], 'ms': [],
                         'body': mp({'k': 'amc', 'subs': [_const(V('i1'), 'A'), _const(V('p1'), 'B')], 'cs': [], 'ms': []},
                                    swap)}),
    ]
    for name, tree in trees:
        for drop in ([], ['A'], ['B'], ['A', 'B']):
            dtag = ''.join(drop) or 'none'
            cases.append(d_case(tree, ref, 'D4:%s:%s:exact' % (name, dtag), drop=drop))
            for rm in range(3):
                cases.append(d_case(tree, ref, 'D4:%s:%s:removed%d' % (name, dtag, rm), kind='removed', rm=rm, drop=drop))
    return cases


# ---------------------------------------------------------------------------------------------------------------------
# round 4: frame-pushing nodes between a rebinding mapping and the reader (D5), histories of create_program calls on
# the same template object with hash-colliding values (H1), loop indices that run through hash-colliding values (H2),
# the very same object in two places reached with colliding scopes (D7)

def _seq(*subs, **kw):
    return dict({'k': 'seq', 'subs': list(subs), 'cs': [], 'ms': []}, **kw)


def py_channels(n):
    """defined channels of the user-level tree"""
    k = n['k']
    if k in ('table', 'point', 'func', 'const'):
        return set(n['ch'])
    s = set()
    for q in children(n):
        s |= py_channels(q)
    if k == 'par':
        s |= {c for c, _ in par_ow(n)}
    if k == 'map' and n.get('ren'):
        s = {n['ren'].get(c, c) for c in s} - {None}
    return s


def _const_like(e, t):
    """a constant template on the channels of t"""
    chs = sorted(py_channels(t))
    return {'k': 'const', 'ch': chs, 'reads': [e] * len(chs), 'dur': C(2), 'cs': [], 'ms': []}


def _rep(t, count=None):
    return {'k': 'rep', 'body': t, 'count': count or C(2), 'cs': [], 'ms': []}


def _for(t, idx, a, b, st=None, use_idx=True):
    body = _seq(t, _const_like(V(idx), t)) if use_idx else t
    return {'k': 'for', 'body': body, 'idx': idx, 'a': a, 'b': b, 'st': st or C(1), 'cs': [], 'ms': []}


# every node kind that opens a new frame of the program builder (sequence, repetition, iteration), that instantiates
# its body with a builder of its own (time reversal, to_single_waveform subprogram) or that merely hands the scope on
# (parallel channel, arithmetic), alone and stacked
D_INTERPOSERS = [
    ('rep', lambda t: _rep(t)),
    ('seq', lambda t: _seq(_const(C(1)), t)),
    ('for', lambda t: _for(t, 'j7', C(0), C(2))),
    ('rev', lambda t: {'k': 'rev', 'inner': t}),
    ('tsw', lambda t: _seq(t, tsw=True)),
    ('par', lambda t: {'k': 'par', 'inner': t, 'ow': [['B', C(1)]]}),
    ('ari', lambda t: {'k': 'ari', 'inner': t, 'op': '+', 'side': 'r', 'sa': [V('p3')], 'sc': []}),
    ('rep_p', lambda t: _rep(t, V('p3'))),
    ('seq>rep', lambda t: _seq(_rep(t))),
    ('rep>seq', lambda t: _rep(_seq(t, _const(C(1))))),
    ('rep>rep', lambda t: _rep(_rep(t))),
    ('for>rep', lambda t: _for(_rep(t), 'j7', C(0), C(2))),
    ('rep>for', lambda t: _rep(_for(t, 'j7', C(0), C(2)))),
    ('rev>rep', lambda t: {'k': 'rev', 'inner': _rep(t)}),
    ('rep>rev', lambda t: _rep({'k': 'rev', 'inner': t})),
    ('tsw>rep', lambda t: _seq(_rep(t), tsw=True)),
    ('rep>tsw', lambda t: _rep(_seq(t, tsw=True))),
]
D5_CONTEXTS = ['loopidx', 'loop2', 'idxshadow', 'top']


def d5_context(cname, mm, x, y, below):
    """the rebinding mapping M (parameter mapping mm over x, y) in position cname; `below` = interposer(target)"""
    keep_y = [_const_like(V(y), below)] if y in mm else []
    inner = _seq(below, *keep_y) if keep_y else below
    M = _tagged({'k': 'map', 'inner': inner, 'm': mm, 'cs': []}, 'M')
    if cname == 'loopidx':          # for x: M{x -> f(x)} > I > T
        return {'k': 'for', 'body': M, 'idx': x, 'a': C(0), 'b': V('p1'), 'st': C(1), 'cs': [], 'ms': []}
    if cname == 'loop2':            # for x: for j8: M{x -> f(x)} > I > T     (the innermost iteration is not x)
        return {'k': 'for', 'body': _for(M, 'j8', C(0), C(2)), 'idx': x, 'a': C(0), 'b': V('p1'), 'st': C(1),
                'cs': [], 'ms': []}
    if cname == 'idxshadow':        # M{x -> f(x)} > for x in range(0, x, 2) > I > T   (T sees the index)
        M['inner'] = {'k': 'for', 'body': inner, 'idx': x, 'a': C(0), 'b': V(x), 'st': C(2), 'cs': [], 'ms': []}
        return M
    if cname == 'top':
        return M
    raise ValueError(cname)


def directed_frame_cases(full):
    """D5: ForLoopPT(x) > MappingPT{x -> f(x)} > frame-pushing node(s) > node constraining x: the constrained node sees
    the mapped value, not the loop index (and not the outer value).  The constraint sits on the target and separates
    the value the target must see from the one it would see if the mapping were the identity"""
    cases = []
    nf = len(d_fkinds('x', 'y'))
    for ci, cname in enumerate(D5_CONTEXTS):
        for ii, (iname, wrap) in enumerate(D_INTERPOSERS):
            if full:
                pairs = [(fi, ti) for fi in range(nf) for ti in range(len(D_TARGETS))]
            elif cname == 'loopidx':
                pairs = [((4 * ii + j) % nf, (4 * ii + j + ii // 2) % len(D_TARGETS)) for j in range(4)]
                if iname == 'rep':
                    pairs.append((6, 2))        # the seeded shape: {i: k} above a repetition above a function atom
            else:
                pairs = [((ii + 3 * ci) % nf, (ii + ci) % len(D_TARGETS))]
            for fi, ti in dict.fromkeys(pairs):
                x, y = ('p0', 'p2') if cname in ('top', 'idxshadow') else ('i1', 'p2')
                fname, mm = d_fkinds(x, y)[fi]
                ident = {k: V(k) for k in mm}
                tk = D_TARGETS[ti]
                tree = d5_context(cname, dict(mm), x, y, wrap(d_target(tk, x)))
                alt = d5_context(cname, ident, x, y, wrap(d_target(tk, x)))
                if not (sympy_ok(strip_tags(tree)) and constructible(strip_tags(tree))):
                    continue
                A, B = _values_at(tree, 'T', x, D_REF), _values_at(alt, 'T', x, D_REF)
                for truth in (True, False):
                    cands = separating(x, A, B, truth)
                    if not cands:
                        continue
                    t2 = copy.deepcopy(tree)
                    node = find_tag(t2, 'T')
                    if 'cs' not in node or node['k'] == 'const':
                        continue
                    node['cs'] = [copy.deepcopy(cands[(fi + ti + ii + (0 if truth else 1)) % len(cands)])]
                    if sympy_ok(strip_tags(t2)):
                        cases.append(d_case(t2, D_REF, 'D5:%s:%s:%s:%s:%s' % (cname, iname, fname, tk,
                                                                              'accept' if truth else 'reject')))
    return cases


HM = 2 ** 61 - 1          # hash(n) == hash(n + HM) for Python ints; hash(-1) == hash(-2) == -2
# (satisfying value, violating value with the same Python hash, value type)
H_PAIRS = [(-1, -2, 'int'), (-2, -1, 'int'), (-1, -2, 'float'), (-1, -2, 'np'), (-2, -1, 'np'), (-1, -2 - HM, 'int'),
           (5, 5 + HM, 'int'), (0, -HM, 'int'), (-2, -1, 'float'), (1, 1 - HM, 'np'), (-1, -2, 'npsmall')]
H_SHAPES = ['gb', 'gbg', 'bgb', 'mgb', 'ggb']        # g = satisfying, b = violating, m = the constrained name missing
H_POSITIONS = ['top', 'seq', 'rep', 'loop', 'map', 'maptop']


def _vtag(v):
    k = round(v / HM)
    return str(v) if k == 0 else '%d%+dH' % (v - k * HM, k)


def h_constraint(h, good, bad, j):
    if bad < good:
        return [{'op': '>', 'l': V(h), 'r': C(bad)}, {'op': '>=', 'l': V(h), 'r': C(good)}][j % 2]
    return [{'op': '<', 'l': V(h), 'r': C(bad)}, {'op': '<=', 'l': V(h), 'r': C(good)}][j % 2]


def h_tree(pos, tk, h, good, bad, j):
    """target kind tk (reads p0) constrained on h, in position pos; returns (tree, shift): the assignment gives h the
    value v - shift so that the target sees v"""
    t = d_target(tk, 'p0')
    shift = 0
    if pos == 'map':            # the colliding values are the *mapped* ones
        shift = 1
    node = find_tag(t, 'T')
    node['cs'] = [h_constraint(h, good, bad, j)]
    if pos == 'maptop':         # the colliding values are the outer ones: the target sees v + 1
        node['cs'] = [h_constraint(h, good + 1, bad + 1, j)]
    if pos == 'top':
        return t, shift
    if pos == 'seq':
        return _seq(_const(C(1)), t), shift
    if pos == 'rep':
        return _rep(t), shift
    if pos == 'loop':
        return _for(t, 'j8', C(0), C(2)), shift
    return {'k': 'map', 'inner': t, 'm': {h: ['+', V(h), C(1)]}, 'cs': []}, shift


def h_case(tree, ref, steps, tag, drop=()):
    c = d_case(tree, ref, tag, kind='history', drop=drop)
    c['extra'] = {}
    c['hist'] = steps
    return c


def directed_history_cases(full):
    """H1: create_program called repeatedly on one template object; consecutive assignments differ only in a value
    with the same Python hash (-1 / -2 as int, float, numpy.int64; n / n +- (2**61 - 1)), one satisfies the
    constraint of the target and the other violates it.  Every call is judged on its own"""
    cases = []
    h = 'p4'
    ref = {'p0': F(1), 'p4': F(0)}
    for pi, pos in enumerate(H_POSITIONS):
        for ti, tk in enumerate(D_TARGETS):
            if full:
                combos = [(a, b) for a in range(len(H_PAIRS)) for b in range(len(H_SHAPES))]
            else:
                combos = [((ti + 3 * pi) % len(H_PAIRS), (ti + pi) % len(H_SHAPES))]
                if pos in ('top', 'loop'):
                    combos.append((ti % 2, 0))
            for a, b in dict.fromkeys(combos):
                good, bad, vt = H_PAIRS[a]
                tree, shift = h_tree(pos, tk, h, good, bad, a + b + ti)
                if not (sympy_ok(strip_tags(tree)) and constructible(strip_tags(tree))):
                    continue
                steps = []
                for ch in H_SHAPES[b]:
                    if ch == 'm':
                        steps.append({'del': [h], 'vt': vt})
                    else:
                        steps.append({'set': {h: str(F((good if ch == 'g' else bad) - shift))}, 'vt': vt})
                cases.append(h_case(tree, ref, steps, 'H1:%s:%s:%s,%s/%s:%s' % (pos, tk, _vtag(good), _vtag(bad), vt,
                                                                              H_SHAPES[b])))
    # the constrained name is also the one the waveform is built from (the seeded shape: RepetitionPT(a*t) 'a > -2')
    for ti, tk in enumerate(D_TARGETS):
        for a in (range(5) if full else [ti % 5]):
            good, bad, vt = H_PAIRS[a]
            t = d_target(tk, 'p0')
            find_tag(t, 'T')['cs'] = [h_constraint('p0', good, bad, ti)]
            steps = [{'set': {'p0': str(F(v))}, 'vt': vt} for v in (good, bad, good)]
            cases.append(h_case(t, {'p0': F(1)}, steps, 'H1:self:%s:%d,%d/%s' % (tk, good, bad, vt)))
    # state left behind by a failed call: a declared name missing / a violated constraint / a malformed count first
    for ti, tk in enumerate(D_TARGETS):
        t = _rep(d_target(tk, 'p0'), V('p1'))
        find_tag(t, 'T')['cs'] = [{'op': '<', 'l': V('p0'), 'r': C(3)}]
        steps = [{'del': ['p0']}, {'set': {}}, {'set': {'p0': '5'}}, {'set': {'p1': '1/2'}}, {'set': {'p1': '0'}}, {'set': {}},
                 {'del': ['p1']}, {'set': {}}]
        if not full:
            steps = steps[2 * (ti % 3):2 * (ti % 3) + 4]
        cases.append(h_case(t, {'p0': F(1), 'p1': F(2)}, steps, 'H1:after_failure:%s' % tk))
    return cases


H_RANGES = [((0, -3, -1), -2), ((-2, 0, 1), -1), ((-1, -3, -1), -2), ((5, 5 + 2 * HM, HM), 5 + HM),
            ((-2, 1, 1), -1), ((1, -3, -1), -2)]
H_BETWEEN = ['none', 'map', 'rep', 'mapself', 'seq']


def directed_hash_loop_cases(full):
    """H2: one call, a loop whose index runs through values with equal Python hashes; the constrained node in the body
    is the same object in every iteration and must be validated in every iteration: the constraint fails exactly at
    the colliding value (after the iteration with its twin has passed) / holds everywhere"""
    cases = []
    ref = {'p0': F(1)}
    for ti, tk in enumerate(D_TARGETS):
        for ri, ((a, b, st), bad) in enumerate(H_RANGES):
            for bi, bname in enumerate(H_BETWEEN):
                if not full and bi != (ti + ri) % len(H_BETWEEN):
                    continue
                vals = list(range(a, b, st))
                prev = vals[vals.index(bad) - 1]
                for accept in ((False, True) if (full or ri == ti % len(H_RANGES)) else (False,)):
                    x = 'i1'
                    t = d_target(tk, x)
                    lim = bad if not accept else (min(vals) - 1 if bad < prev else max(vals) + 1)
                    c = ({'op': '>', 'l': V(x), 'r': C(lim)} if bad < prev else {'op': '<', 'l': V(x), 'r': C(lim)})
                    find_tag(t, 'T')['cs'] = [c]
                    body = t
                    if bname == 'map':          # the target reads a mapped name that carries the index
                        t = d_target(tk, 'q1')
                        c = copy.deepcopy(c)
                        c['l'] = V('q1')
                        find_tag(t, 'T')['cs'] = [c]
                        body = {'k': 'map', 'inner': t, 'm': {'q1': V(x)}, 'cs': []}
                    elif bname == 'mapself':
                        body = {'k': 'map', 'inner': t, 'm': {x: ['+', V(x), C(0)]}, 'cs': []}
                    elif bname == 'rep':
                        body = _rep(t)
                    elif bname == 'seq':
                        body = _seq(t, _const(C(1)))
                    tree = {'k': 'for', 'body': body, 'idx': x, 'a': C(a), 'b': C(b), 'st': C(st), 'cs': [], 'ms': []}
                    if bname == 'mapself':
                        body['m'] = {x: V(x)}
                    if not (sympy_ok(strip_tags(tree)) and constructible(strip_tags(tree))):
                        continue
                    cases.append(d_case(tree, ref, 'H2:%s:%d:%s:%s' % (tk, ri, bname, 'accept' if accept else 'reject')))
    return cases


def directed_alias_cases(full):
    """D7: the very same template object in two places of one tree: twice among the direct children of a sequence, and
    below two mappings that give it hash-colliding values (satisfying first, violating second and the converse)"""
    cases = []
    ref = {'p0': F(1), 'p1': F(2)}
    for ti, tk in enumerate(D_TARGETS):
        for oi, (first, second) in enumerate([(-1, -2), (-2, -1), (-1, -1)]):
            for accept in (False, True):
                if not full and (accept and oi != ti % 3):
                    continue
                t = d_target(tk, 'q1')
                t['oid'] = 1
                lo, hi = min(first, second), max(first, second)
                if second <= first:
                    c = {'op': '>', 'l': V('q1'), 'r': C(lo - 1 if accept else lo)}
                else:
                    c = {'op': '<', 'l': V('q1'), 'r': C(hi + 1 if accept else hi)}
                find_tag(t, 'T')['cs'] = [c]
                mk = lambda v: {'k': 'map', 'inner': copy.deepcopy(t), 'm': {'q1': ['-', V('p0'), C(1 - v)]}, 'cs': []}
                tree = _seq(mk(first), dict(mk(second), tup=True))
                if sympy_ok(strip_tags(tree)) and constructible(strip_tags(tree)):
                    cases.append(d_case(tree, ref, 'D7:two_scopes:%s:%d,%d:%s' % (tk, first, second,
                                                                                 'accept' if accept else 'reject')))
        # the same object twice among the direct children; a history on top (hash-colliding values of p0)
        t = d_target(tk, 'p0')
        t['oid'] = 2
        find_tag(t, 'T')['cs'] = [{'op': '>', 'l': V('p0'), 'r': C(-2)}]
        tree = _seq(copy.deepcopy(t), copy.deepcopy(t), _rep(copy.deepcopy(t)))
        cases.append(d_case(tree, {'p0': F(-1)}, 'D7:twice:%s' % tk))
        cases.append(h_case(tree, {'p0': F(-1)}, [{'set': {}}, {'set': {'p0': '-2'}}, {'set': {}}], 'D7:twice:%s:history' % tk))
    return cases


def directed_atom_cases():
    """D8 (from the coverage audit): atoms of duration exactly 0 (PointPT / TablePT / ConstantPT return no waveform,
    constraints are still validated), a parametrised time of the first entry (a further needed read), a table whose
    second channel ends earlier; alone (no program at all), next to a playing sibling, channel dropped"""
    cases = []
    ref = {'p0': F(1), 'p1': F(2), 'p3': F(1)}
    zero = ['-', V('p1'), C(2)]
    def atom(kind, dur, t0=None, short=False):
        if kind == 'table2':
            n = {'k': 'table', 'ch': ['A', 'B'], 'reads': [V('p0'), C(1), C(0), V('p0')], 'dur': dur, 'cs': [], 'ms': []}
        elif kind == 'table':
            n = {'k': 'table', 'ch': ['A'], 'reads': [V('p0'), C(1)], 'dur': dur, 'cs': [], 'ms': [[C(0), C(1)]]}
        elif kind == 'point':
            n = {'k': 'point', 'ch': ['A'], 'reads': [V('p0'), C(1)], 'dur': dur, 'cs': [], 'ms': []}
        elif kind == 'point2':
            n = {'k': 'point', 'ch': ['A', 'B'], 'reads': [V('p0'), C(1)], 'dur': dur, 'cs': [], 'ms': [[C(0), C(1)]]}
        elif kind == 'func':
            n = {'k': 'func', 'ch': ['A'], 'reads': [V('p0')], 'dur': dur, 'cs': [], 'ms': []}
        else:
            return _const(V('p0'), 'A', dur)
        if t0 is not None:
            n['t0'] = t0
        if short:
            n['short'] = True
        return n
    for kind in ('table', 'table2', 'point', 'point2', 'func', 'const'):
        two = kind in ('table2', 'point2')
        for cname, c in (('true', {'op': '<', 'l': V('p0'), 'r': C(3)}), ('false', {'op': '>', 'l': V('p0'), 'r': C(3)}),
                         ('none', None)):
            a = atom(kind, zero)
            if c is not None:
                if kind == 'const':
                    continue
                a['cs'] = [c]
            sib = (lambda: atom('table2', C(2))) if two else (lambda: _const(C(1)))
            for pos, tree in (('alone', a), ('seq', _seq(sib(), copy.deepcopy(a))), ('rep', _rep(copy.deepcopy(a), V('p1'))),
                              ('map', {'k': 'map', 'inner': copy.deepcopy(a), 'm': {'p1': ['+', V('p1'), C(0)]}, 'cs': []})):
                tree = copy.deepcopy(tree)
                if pos == 'map':
                    tree['m'] = {'p1': V('p3')}       # the duration is 1 - 2 < 0 below the mapping
                    if kind != 'const':
                        continue
                cases.append(d_case(tree, ref, 'D8:zero:%s:%s:%s' % (kind, cname, pos)))
            cases.append(d_case(a, ref, 'D8:zero:%s:%s:removed' % (kind, cname), kind='removed', rm=1))
            cases.append(d_case(a, ref, 'D8:zero:%s:%s:dropA' % (kind, cname), drop=['A']))
        if kind in ('table', 'table2', 'point', 'point2'):
            for short in ((False, True) if kind == 'table2' else (False,)):
                a = atom(kind, C(2), t0=V('p3'), short=short)
                a['cs'] = [{'op': '<=', 'l': V('p3'), 'r': C(1)}]
                tag = 'D8:t0:%s%s' % (kind, ':short' if short else '')
                cases.append(d_case(a, ref, tag))
                cases.append(d_case(a, dict(ref, p3=F(0)), tag + ':t0=0'))
                cases.append(d_case(a, dict(ref, p3=F(2)), tag + ':violated'))
                for rm in range(2):
                    cases.append(d_case(a, ref, tag + ':removed%d' % rm, kind='removed', rm=rm))
                if two:
                    cases.append(d_case(a, ref, tag + ':dropA', drop=['A']))
                    cases.append(d_case(a, ref, tag + ':dropAB:removed', drop=['A', 'B'], kind='removed', rm=1))
    return cases


def directed_par_atomic_cases(full):
    """D9 (round 4, after /repo bae1029): ParallelChannelPT below an atomic composite (AtomicMultiChannelPT,
    ArithmeticAtomicPT; also below an eagerly evaluated MappingPT): the overwriting values are needed iff the inner
    waveform exists and their channel is kept"""
    cases = []
    ref = {'p0': F(1), 'p1': F(2), 'p2': F(3), 'p3': F(1)}
    for ti, tk in enumerate(D_ATOMIC_TARGETS):
        def par(ow, x='p0'):
            t = d_target(tk, x, 'A')
            if 'ms' in find_tag(t, 'T'):
                find_tag(t, 'T')['ms'] = [[C(0), V('p3')]]       # a name that only the window of the inner template reads
            return {'k': 'par', 'inner': t, 'ow': ow}
        zero = par([['A', V('p1')]])
        zt = find_tag(zero, 'T')
        trees = [
            ('amc', {'k': 'amc', 'subs': [par([['A', V('p1')]]), _const(V('p2'), 'B')], 'cs': [], 'ms': []}),
            ('amc_map', {'k': 'amc', 'cs': [], 'ms': [], 'subs': [
                {'k': 'map', 'inner': par([['A', ['+', V('p1'), V('p0')]]]), 'cs': [],
                 'm': {'p0': ['+', V('p0'), C(1)], 'p1': ['*', V('p2'), C(2)]}}, _const(V('p2'), 'B')]}),
            ('aat', {'k': 'aat', 'lhs': par([['A', V('p1')]]), 'rhs': _const(V('p2'), 'A'), 'op': '+', 'ms': [[C(0), V('p2')]]}),
            ('aat_addB', {'k': 'aat', 'lhs': par([['B', V('p1')]]),
                          'rhs': {'k': 'const', 'ch': ['A', 'B'], 'reads': [V('p2'), C(1)], 'dur': C(2), 'cs': [], 'ms': []},
                          'op': '-', 'ms': []}),
            ('nested', {'k': 'amc', 'subs': [{'k': 'par', 'inner': par([['A', V('p1')]]), 'ow': [['A', V('p2')]]},
                                            _const(C(1), 'B')], 'cs': [], 'ms': []}),
            ('in_loop', {'k': 'for', 'idx': 'i1', 'a': C(0), 'b': C(2), 'st': C(1), 'cs': [], 'ms': [],
                         'body': {'k': 'amc', 'subs': [par([['A', ['+', V('p1'), V('i1')]]], x='i1'), _const(V('p2'), 'B')],
                                  'cs': [], 'ms': []}}),
            # the second code path of ArithmeticPT (build_waveform below an atomic composite) next to the first
            ('ari_in_amc', {'k': 'amc', 'cs': [], 'ms': [], 'subs': [
                {'k': 'ari', 'inner': par([['A', V('p1')]]), 'op': '+', 'side': 'r', 'sa': [], 'sc': [['A', V('p2')]]},
                _const(V('p2'), 'B')]}),
            ('ari_td_in_amc', {'k': 'amc', 'cs': [], 'ms': [], 'subs': [
                {'k': 'ari', 'inner': d_target(tk, 'p0', 'A'), 'op': '*', 'side': 'l', 'sa': [V('p1')], 'sc': [], 'td': True},
                _const(V('p2'), 'B')]}),
        ]
        for j, (name, tree) in enumerate(trees):
            if not (sympy_ok(strip_tags(tree)) and constructible(strip_tags(tree))):
                continue
            tag = 'D9:%s:%s' % (name, tk)
            cases.append(d_case(tree, ref, tag + ':exact'))
            for rm in (range(4) if full else [(ti + j) % 4, 3]):
                cases.append(d_case(tree, ref, tag + ':removed%d' % rm, kind='removed', rm=rm))
            for drop in ([['A'], ['B'], ['A', 'B']] if full else [[['A'], ['B']][(ti + j) % 2]]):
                cases.append(d_case(tree, ref, tag + ':drop' + ''.join(drop), drop=drop))
                cases.append(d_case(tree, ref, tag + ':drop%s:removed' % ''.join(drop), kind='removed', rm=(ti + j + 1) % 3,
                                    drop=drop))
            t2 = copy.deepcopy(tree)
            node = find_tag(t2, 'T')
            if 'cs' in node and node['k'] != 'const' and name != 'in_loop':
                xx = 'p0'
                node['cs'] = [{'op': '>', 'l': V(xx), 'r': C(1)}]     # true only where p0 was mapped to p0 + 1
                cases.append(d_case(t2, ref, tag + ':constraint'))
    return cases


def directed_par_td_cases(full):
    """D10 (round 4): ParallelChannelPT with time dependent values e*t next to an atomic template: substituted
    symbolically like a FunctionPT expression (needed iff the channel is kept; a missing name is an error unless it
    cancels = the known finding); an extra parameter called t never matters -- in particular not when the time
    dependent channel is dropped and an unneeded mapped name is missing (defect repaired in /repo 1b3543b)"""
    cases = []
    ref = {'p0': F(1), 'p1': F(2), 'p2': F(3)}
    a = lambda: _const(V('p0'), 'A')
    f = lambda: {'k': 'func', 'ch': ['A'], 'reads': [V('p0')], 'dur': C(2), 'cs': [{'op': '<', 'l': V('p0'), 'r': C(3)}], 'ms': []}
    td = lambda inner, ow: {'k': 'par', 'inner': inner, 'ow': ow, 'td': True}
    trees = [
        ('addB', td(a(), [['B', V('p1')]])),
        ('ownA', td(f(), [['A', ['+', V('p1'), V('p0')]]])),
        ('both', td(a(), [['A', V('p1')], ['B', V('p2')]])),
        ('mixed', {'k': 'par', 'inner': td(a(), [['B', V('p1')]]), 'ow': [['A', V('p2')]]}),
        ('mapped', {'k': 'map', 'inner': td(_const(V('q1'), 'A'), [['B', V('q2')]]), 'm': {'q1': V('p0'), 'q2': V('p1')}, 'cs': []}),
        ('mapped_t', {'k': 'map', 'inner': td(_const(V('q1'), 'A'), [['B', V('q2')]]), 'cs': [],
                      'm': {'q1': V('p0'), 'q2': ['+', V('p1'), V('t')]}}),          # a declared parameter called t
        ('in_amc', {'k': 'amc', 'subs': [td(f(), [['A', V('p1')]]), _const(V('p2'), 'B')], 'cs': [], 'ms': []}),
        ('in_loop', {'k': 'for', 'idx': 'i1', 'a': C(0), 'b': V('p2'), 'st': C(1), 'cs': [], 'ms': [],
                     'body': td(_const(V('i1'), 'A'), [['B', ['+', V('p1'), V('i1')]]])}),
        ('product', td(a(), [['B', ['*', V('p1'), V('p2')]]])),
        ('seq', _seq(td(a(), [['B', V('p1')]]), {'k': 'const', 'ch': ['A', 'B'], 'reads': [V('p2'), C(1)], 'dur': C(2), 'cs': [], 'ms': []})),
        ('swap', {'k': 'map', 'inner': td(a(), [['B', V('p1')]]), 'm': {}, 'cs': [], 'ren': {'A': 'B', 'B': 'A'}}),
    ]
    for name, tree in trees:
        if not (sympy_ok(tree) and constructible(tree)):
            continue
        for drop in ([], ['A'], ['B'], ['A', 'B']):
            dtag = ''.join(drop) or 'none'
            cases.append(d_case(tree, ref, 'D10:%s:%s:exact' % (name, dtag), drop=drop))
            for rm in range(3):
                if full or drop in ([], ['B']) or rm == 1:
                    cases.append(d_case(tree, ref, 'D10:%s:%s:removed%d' % (name, dtag, rm), kind='removed', rm=rm, drop=drop))
        if name == 'product':       # a supplied 0 hides the missing factor (known finding, classified by the Coq guard)
            c = d_case(tree, dict(ref, p1=F(0)), 'D10:product:zero', kind='zero')
            c['zeros'], c['rmn'] = ['p1'], 'p2'
            cases.append(c)
    return cases


def directed_ren_none_cases():
    """D11 (round 4): a MappingPT whose channel_mapping sends an inner channel to None: the channel is dropped below
    the mapping whatever the caller keeps; its values are not needed (a table still instantiates all entries)"""
    cases = []
    ref = {'p0': F(1), 'p1': F(2), 'p2': F(3)}
    amc2 = lambda a='A', b='B': {'k': 'amc', 'subs': [_const(V('p0'), a), _const(V('p1'), b)], 'cs': [], 'ms': []}
    tb2 = lambda: {'k': 'table', 'ch': ['A', 'B'], 'reads': [V('p0'), C(1), V('p1'), C(0)], 'dur': C(2),
                   'cs': [{'op': '<', 'l': V('p0'), 'r': V('p1')}], 'ms': [[C(0), C(1)]]}
    mp = lambda inner, ren, cs=(): {'k': 'map', 'inner': inner, 'm': {}, 'cs': list(cs), 'ren': dict(ren)}
    trees = [
        ('amc', mp(amc2(), {'A': None}), 'B'),
        ('table', mp(tb2(), {'A': None}), 'B'),
        ('rename', mp(amc2(), {'A': None, 'B': 'A'}), 'A'),
        ('par_td', mp({'k': 'par', 'inner': _const(V('p0'), 'A'), 'ow': [['B', V('p1')]], 'td': True}, {'B': None}), 'A'),
        ('par', mp({'k': 'par', 'inner': _const(V('p0'), 'A'), 'ow': [['B', V('p1')]]}, {'B': None}), 'A'),
        ('ari', mp({'k': 'ari', 'inner': amc2(), 'op': '+', 'side': 'r', 'sa': [], 'sc': [['A', V('p2')]]}, {'A': None}), 'B'),
        ('in_amc', {'k': 'amc', 'subs': [mp(amc2('Z1', 'B'), {'Z1': None}), _const(V('p2'), 'A')], 'cs': [], 'ms': []}, 'B'),
        ('nested', mp(mp(amc2(), {'A': None}, [{'op': '<', 'l': V('p0'), 'r': C(5)}]), {'B': 'A'}), 'A'),
        ('seq', _seq(mp(amc2(), {'A': None}), _const(V('p2'), 'B')), 'B'),
        ('func', mp({'k': 'amc', 'subs': [{'k': 'func', 'ch': ['A'], 'reads': [V('p0')], 'dur': C(2), 'cs': [], 'ms': []},
                                          _const(V('p1'), 'B')], 'cs': [], 'ms': []}, {'A': None}), 'B'),
    ]
    for name, tree, left in trees:
        if not (sympy_ok(tree) and constructible(tree)):
            continue
        for drop in ([], [left]):
            dtag = ''.join(drop) or 'none'
            cases.append(d_case(tree, ref, 'D11:%s:%s:exact' % (name, dtag), drop=drop))
            for rm in range(3):
                cases.append(d_case(tree, ref, 'D11:%s:%s:removed%d' % (name, dtag, rm), kind='removed', rm=rm, drop=drop))
    return cases


def directed_known_class_cases():
    """D12 (round 5, audit of the known-finding predicate): inputs INSIDE the class of the known finding (a function atom /
    time dependent ParallelChannelPT value `(p0*p1)*t` with p0 = 0 supplied and p1 missing: the missing name vanishes
    symbolically) combined with everything else that can go wrong or right there: own constraint true / false / on the
    missing name, own window negative, a violated sibling before / after, below a mapping (eager and lazy), in a loop
    whose index is the zero factor, in a repetition (count 0: unreached), dropped channel.  Every case is judged by the
    model (check_corr) and the specification; only the bare "result although a needed value is missing" is the known
    finding, everything else must still be reported"""
    cases = []
    ref = {'p0': F(0), 'p1': F(5), 'p2': F(1), 'p3': F(2)}
    prod = lambda x='p0', y='p1': ['*', V(x), V(y)]
    lt = lambda x, q: {'op': '<', 'l': V(x), 'r': C(q)}
    gt = lambda x, q: {'op': '>', 'l': V(x), 'r': C(q)}

    def fz(cs=(), ms=(), x='p0', y='p1'):
        return {'k': 'func', 'ch': ['A'], 'reads': [prod(x, y)], 'dur': C(2), 'cs': list(cs), 'ms': [list(m) for m in ms]}

    def tz(cs=(), x='p0', y='p1'):
        inner = {'k': 'table', 'ch': ['A'], 'reads': [V('p2'), C(1)], 'dur': C(2), 'cs': list(cs), 'ms': []}
        return {'k': 'par', 'inner': inner, 'ow': [['B', prod(x, y)]], 'td': True}
    def sib(c, chs):
        return {'k': 'table', 'ch': list(chs), 'reads': [V('p2'), C(1)] * len(chs), 'dur': C(2), 'cs': [c], 'ms': []}
    for mk, mname in ((fz, 'func'), (tz, 'partd')):
        chs = sorted(py_channels(mk()))
        bad_sib = lambda: sib(gt('p2', 3), chs)
        read_sib = lambda: {'k': 'table', 'ch': list(chs), 'reads': [V('p1'), C(1)] * len(chs), 'dur': C(2), 'cs': [], 'ms': []}
        good_sib = lambda: sib(lt('p2', 3), chs)
        trees = [
            ('plain', mk()),
            ('cs_true', mk(cs=[lt('p2', 3)])),
            ('cs_false', mk(cs=[gt('p2', 3)])),
            ('cs_on_missing', mk(cs=[lt('p1', 9)])),
            ('cs_on_zero', mk(cs=[gt('p0', 0)])),
            ('sib_bad_after', _seq(mk(), bad_sib())),
            ('sib_bad_before', _seq(bad_sib(), mk())),
            ('sib_good', _seq(good_sib(), mk(), good_sib())),
            # round 6: the missing name is needed by a plain read in front of / behind the vanishing expression.  In
            # front: the exact guard (guard_C03_function_zero_tight) is true, the case is outside the finding's class
            ('sib_missing_before', _seq(read_sib(), mk())),
            ('sib_missing_after', _seq(mk(), read_sib())),
            ('seq_window_missing', _seq(mk(), ms=[[C(0), ['*', V('p1'), V('p1')]]])),
            ('seq_cs_false', _seq(mk(), cs=[gt('p2', 3)])),
            ('rep', _rep(mk(), V('p3'))),
            ('rep_cs_false', dict(_rep(mk(), V('p3')), cs=[gt('p2', 3)])),
            ('rep0', _rep(mk(), ['-', V('p3'), C(2)])),
            ('map_lazy', {'k': 'map', 'inner': mk(x='q0', y='q1'), 'm': {'q0': V('p0'), 'q1': V('p1')}, 'cs': []}),
            ('map_zero_product', {'k': 'map', 'inner': mk(x='q0'), 'm': {'q0': ['*', V('p0'), V('p2')]}, 'cs': []}),
            ('map_cs_false', {'k': 'map', 'inner': mk(), 'm': {'p2': ['+', V('p2'), C(1)]}, 'cs': [gt('p2', 3)]}),
            ('map_inner_cs_false', {'k': 'map', 'inner': mk(cs=[lt('p2', 2)]), 'm': {'p2': ['+', V('p2'), C(1)]}, 'cs': []}),
            ('loop_idx_zero', _for(mk(x='i1'), 'i1', C(0), C(1), use_idx=False)),
            ('loop_idx_zero_then_one', _for(mk(x='i1'), 'i1', C(0), C(2), use_idx=False)),
            ('loop_cs_false_2nd', _for(mk(cs=[lt('i1', 1)], x='p0'), 'i1', C(0), C(2), use_idx=False)),
        ]
        if mname == 'func':
            trees += [
                ('win_negative', mk(ms=[(C(0), ['-', V('p2'), C(2)])])),
                ('win_ok', mk(ms=[(C(0), V('p2'))])),
                ('win_on_missing', mk(ms=[(C(0), ['*', V('p1'), V('p1')])])),
                ('in_amc', {'k': 'amc', 'subs': [mk(), _const(V('p2'), 'B')], 'cs': [], 'ms': []}),
                ('in_amc_cs_false', {'k': 'amc', 'subs': [mk(), _const(V('p2'), 'B')], 'cs': [gt('p2', 3)], 'ms': []}),
                ('in_amc_eager_map', {'k': 'amc', 'cs': [], 'ms': [], 'subs': [
                    {'k': 'map', 'inner': mk(x='q0'), 'm': {'q0': V('p0')}, 'cs': []}, _const(V('p2'), 'B')]}),
            ]
        for name, tree in trees:
            if not (sympy_ok(tree) and constructible(tree)):
                continue
            for drop in ([], ['A'], ['B']):
                if drop and name not in ('plain', 'cs_false', 'in_amc', 'sib_bad_after'):
                    continue
                dtag = ''.join(drop) or 'none'
                c = d_case(tree, ref, 'D12:%s:%s:%s' % (mname, name, dtag), kind='zero', drop=drop)
                c['zeros'], c['rmn'] = ['p0'], 'p1'
                cases.append(c)
            c = d_case(tree, ref, 'D12:%s:%s:complete' % (mname, name))       # the same trees with every name supplied
            cases.append(c)
    return cases


def directed_nested_mapping_cases(full):
    """D13 (round 6, seed C03-10): a MappingPT directly around a constraint-free, unnamed MappingPT -- the constructor
    composes the two parameter mappings (flattening).  The composition has to be the *simultaneous* substitution of the
    outer mapping into the inner expressions; this matters exactly when an expression of the outer mapping mentions a
    name that is also a key of the outer mapping (names exchanged, shifted up / down the alphabet, rotated, self
    referential) and an inner expression combines several of those names asymmetrically.  Outer mapping kinds x inner
    mapping kinds (x leaf kind x position: top level, SequencePT / AtomicMultiChannelPT child as object and in tuple
    form, below a third mapping) x {leaf constraint `h == v` with the true composed value v (accept), `h < v`, `h > v`
    (reject: any wrong h accepts one of them), constraint on the outer mapping node (outer scope), each declared name
    removed (parameter_names of the composition)}"""
    u, w, s = 'p0', 'p1', 'p3'
    ref = {'p0': F(5), 'p1': F(2), 'p2': F(1), 'p3': F(-3)}
    sub_, add_, mul_ = (lambda a, b: ['-', a, b]), (lambda a, b: ['+', a, b]), (lambda a, b: ['*', a, b])
    outers = [
        ('swap', {u: V(w), w: V(u)}),
        ('shift_up', {u: V(w), w: V(s)}),
        ('shift_down', {w: V(u), u: V(s)}),
        ('rot3', {u: V(w), w: V(s), s: V(u)}),
        ('rot3back', {u: V(s), s: V(w), w: V(u)}),
        ('selfref', {u: mul_(V(u), V(w)), w: V(u)}),
        ('scaled_swap', {u: mul_(V(w), C(2)), w: sub_(V(u), C(1))}),
        ('one_sided', {u: mul_(V(w), C(2))}),                     # partial outer mapping: w stays w (identity completion)
        ('fresh', {u: V(s), w: mul_(V(s), C(2))}),      # control: no clash
    ]
    inners = [
        ('diff', {'h9': sub_(V(u), V(w))}, False),
        ('lin', {'h9': add_(V(u), mul_(V(w), C(2)))}, False),
        ('sq', {'h9': sub_(mul_(V(u), V(u)), V(w))}, False),
        ('two_keys', {'h9': sub_(V(u), V(w)), 'g9': V(w)}, False),
        ('own_name', {u: sub_(V(u), V(w))}, False),     # the inner key is itself one of the exchanged names (partial)
        ('three', {'h9': add_(sub_(V(u), V(w)), mul_(V(s), C(3)))}, True),
    ]
    leaves = ['table', 'point', 'func']
    positions = ['top', 'seq_obj', 'seq_tup', 'amc_obj', 'amc_tup', 'third']
    cases = []
    combos = []
    for oi, (oname, om) in enumerate(outers):
        for ii, (iname, im, needs_s) in enumerate(inners):
            if (s in om) != needs_s and s in om:        # an outer key that the inner mapping does not declare
                continue
            if full:
                combos += [(oi, ii, li, pi) for li in range(len(leaves)) for pi in range(len(positions))]
            else:
                combos.append((oi, ii, (oi + ii) % len(leaves), (oi + 2 * ii) % len(positions)))
    for oi, ii, li, pi in combos:
        oname, om = outers[oi]
        iname, im, _ = inners[ii]
        h = 'h9' if 'h9' in im else u
        lk, pos = leaves[li], positions[pi]
        leaf = d_target(lk, h)
        if 'g9' in im:
            leaf = {'k': 'aat', 'lhs': leaf, 'rhs': _const(V('g9'), 'A'), 'op': '+', 'ms': []}
        if h == u:                                       # own_name: the leaf also reads w itself
            leaf = {'k': 'aat', 'lhs': leaf, 'rhs': _const(V(w), 'A'), 'op': '+', 'ms': []}
        inner = {'k': 'map', 'inner': leaf, 'm': copy.deepcopy(im), 'cs': []}
        outer = _tagged({'k': 'map', 'inner': inner, 'm': copy.deepcopy(om), 'cs': [], 'tup': pos.endswith('_tup')}, 'O')
        if pos == 'top':
            tree = outer
        elif pos.startswith('seq'):
            tree = {'k': 'seq', 'subs': [_const(V('p2')), outer], 'cs': [], 'ms': []}
        elif pos.startswith('amc'):
            tree = {'k': 'amc', 'subs': [outer, _const(V('p2'), 'B')], 'cs': [], 'ms': []}
        else:                                            # a third mapping above: two flattenings in a row
            tree = {'k': 'map', 'inner': outer, 'm': {k: V(k2) for k, k2 in zip(sorted(py_pnames(strip_tags(outer))),
                                                                              sorted(py_pnames(strip_tags(outer)))[1:]
                                                                              + sorted(py_pnames(strip_tags(outer)))[:1])},
                    'cs': []}
        if not (sympy_ok(strip_tags(tree)) and constructible(strip_tags(tree))):
            continue
        vals = _values_at(tree, 'T', h, ref)
        if not vals:
            continue
        v = vals[0]
        base = 'D13:%s:%s:%s:%s' % (oname, iname, lk, pos)
        for cname, op in (('accept', '=='), ('reject_lt', '<'), ('reject_gt', '>')):
            t2 = copy.deepcopy(tree)
            find_tag(t2, 'T')['cs'] = [{'op': op, 'l': V(h), 'r': C(v)}]
            cases.append(d_case(t2, ref, '%s:%s' % (base, cname)))
        # a constraint on the outer mapping node: judged with the outer values of the exchanged names
        ou = _values_at(tree, 'O', u, ref)
        if ou:
            for cname, op in (('outer_accept', '=='), ('outer_reject', '<')):
                t2 = copy.deepcopy(tree)
                find_tag(t2, 'O')['cs'] = [{'op': op, 'l': V(u), 'r': C(ou[0])}]
                if not find_tag(t2, 'O').get('tup'):
                    cases.append(d_case(t2, ref, '%s:%s' % (base, cname)))
        for rm in range(len(py_pnames(strip_tags(tree)))):
            cases.append(d_case(tree, ref, '%s:removed%d' % (base, rm), kind='removed', rm=rm))
    return cases


def directed_cases(tier):
    full = tier == 'thorough'
    return (directed_nested_mapping_cases(full)
            + directed_mapping_cases(full) + directed_loop_cases() + directed_extra_cases()
            + directed_channel_cases() + directed_frame_cases(full) + directed_history_cases(full)
            + directed_hash_loop_cases(full) + directed_alias_cases(full) + directed_atom_cases()
            + directed_par_atomic_cases(full) + directed_par_td_cases(full)
            + directed_ren_none_cases() + directed_known_class_cases())


def gen_cases(rng, tier, ctx, every_constraint=False):
    ntrees = {'quick': 130, 'thorough': 1200}[tier]
    cases = enum_small() if tier == 'thorough' else []
    if not every_constraint:
        cases += directed_cases(tier)
    for t in range(ntrees):
        g, tree, ref = gen_tree(rng, rng.choice([2, 3, 3, 4]))
        cases.append(mk_case(tree, ref, 'exact', rng))
        cases.append(mk_case(tree, ref, 'removed', rng))
        if rng.random() < 0.5:
            cases.append(mk_case(tree, ref, 'removed', rng))
        if g.visible:
            vis = list(g.visible)
            rng.shuffle(vis)
            for cid in (vis if every_constraint else vis[:2]):
                cases.append(mk_case(violate(tree, cid), ref, 'exact', rng, tag='violate1'))
                if rng.random() < 0.2:
                    cases.append(mk_case(violate(tree, cid), ref, 'removed', rng, tag='violate1'))
        if rng.random() < 0.6:
            ref2 = dict(ref)
            for x in rng.sample(TOP, rng.choice([1, 2])):
                ref2[x] = ref2[x] + rng.choice([-2, -1, 1, 2, F(1, 2)])
            cases.append(mk_case(tree, ref2, 'exact', rng, tag='perturbed'))
        if rng.random() < 0.45:
            cases.append(mk_case(tree, ref, rng.choice(['exact', 'removed']), rng,
                                 drop=rng.choice([['A'], ['B'], ['A', 'B'], ['A', 'B']]), tag='drop'))
        if any(n['k'] in ('aat', 'const', 'ari', 'par', 'amc') for n in nodes(tree)) and rng.random() < 0.5:
            cases.append(mk_case(tree, ref, 'exact', rng, drop=rng.choice([['A'], ['B']]), tag='drop'))
        if rng.random() < 0.4:
            cases.append(mk_history(tree, ref, rng, drop=rng.choice([[], [], [], ['A'], ['B']])))
        zc = zero_candidates(tree)
        if zc:
            x, y = rng.choice(zc)
            cases.append(mk_case(tree, ref, 'zero', rng, zeros=[x], rmn=y, tag='zero'))
        if rng.random() < 0.2:
            bad, what = malform(tree, rng)
            if bad is not None and sympy_ok(bad) and constructible(bad):
                cases.append(mk_case(bad, ref, rng.choice(['exact', 'exact', 'removed']), rng, tag='malformed:' + what))
    return cases


# ---------------------------------------------------------------------------------------------------------------------
# the real objects

def build_pt(n, tsw=None, memo=None):
    """the real template objects; templates flagged 'tsw' are collected in the list tsw (to_single_waveform); nodes
    that carry the same 'oid' and have identical content are built once: the very same Python object then appears in
    several places of the tree (aliasing; the model sees two copies)"""
    if memo is None:
        memo = {}
    key = None
    if n.get('oid') is not None:
        key = (n['oid'], json.dumps(n, sort_keys=True))
        if key in memo:
            return memo[key]
    pt = _build_pt(n, tsw, memo)
    if tsw is not None and n.get('tsw'):
        tsw.append(pt)
    if key is not None:
        memo[key] = pt
    return pt


def _build_pt(n, tsw, memo):
    from qupulse.pulses import (TablePT, PointPT, FunctionPT, AtomicMultiChannelPT, ParallelChannelPT, SequencePT,
                                RepetitionPT, ForLoopPT, MappingPT, ConstantPT)
    from qupulse.pulses.arithmetic_pulse_template import ArithmeticPulseTemplate, ArithmeticAtomicPulseTemplate
    from qupulse.pulses.time_reversal_pulse_template import TimeReversalPulseTemplate
    k = n['k']
    build_pt_ = lambda q: build_pt(q, tsw, memo)
    cs = [cstr(c) for c in n.get('cs', [])] or None
    ms = [('m', estr(b), estr(l)) for b, l in n.get('ms', [])] or None

    def sub(q):
        """a child of a SequencePT / AtomicMultiChannelPT: a constraint-free MappingPT flagged 'tup' is given as the
        tuple (template, parameter mapping[, channel mapping][, measurement mapping]) (MappingPT.from_tuple)"""
        if (q['k'] == 'map' and q.get('tup') and not q['cs'] and (q['m'] or q.get('ren') or q.get('mren'))
                and not q.get('tsw') and q.get('oid') is None):
            tup = (build_pt_(q['inner']),) + (({key: estr(e) for key, e in q['m'].items()},) if q['m'] else ())
            for extra in ('ren', 'mren'):
                if q.get(extra):
                    tup += (dict(q[extra]),)
            return tup
        return build_pt_(q)
    t0 = estr(n['t0']) if n.get('t0') else 0         # time of the first entry (table: of the first channel)
    if k == 'table':
        d = estr(n['dur'])
        entries = {}
        for j, ch in enumerate(n['ch']):
            entries[ch] = [(t0 if j == 0 else 0, estr(n['reads'][2 * j])),
                           (d if (j == 0 or not n.get('short')) else 1, estr(n['reads'][2 * j + 1]))]
        return TablePT(entries, parameter_constraints=cs, measurements=ms, consistency_check=False)
    if k == 'point':
        return PointPT([(t0, estr(n['reads'][0])), (estr(n['dur']), estr(n['reads'][1]))], channel_names=tuple(n['ch']),
                       parameter_constraints=cs, measurements=ms)
    if k == 'func':
        return FunctionPT('%s*t' % estr(n['reads'][0]), estr(n['dur']), channel=n['ch'][0],
                          parameter_constraints=cs, measurements=ms)
    if k == 'const':
        return ConstantPT(estr(n['dur']), {ch: estr(e) for ch, e in zip(n['ch'], n['reads'])}, measurements=ms)
    if k == 'amc':
        return AtomicMultiChannelPT(*[sub(q) for q in n['subs']], parameter_constraints=cs, measurements=ms)
    if k == 'par':
        # 'td': every value is time dependent (e*t; t is the time variable, not a parameter; needs an atomic template)
        vstr = (lambda e: '%s*t' % estr(e)) if n.get('td') else estr
        return ParallelChannelPT(build_pt_(n['inner']), {c: vstr(e) for c, e in par_ow(n)})
    if k == 'ari':
        sstr = (lambda e: '%s*t' % estr(e)) if n.get('td') else estr
        scalar = sstr(n['sa'][0]) if n['sa'] else {c: sstr(e) for c, e in n['sc']}
        inner = build_pt_(n['inner'])
        return (ArithmeticPulseTemplate(scalar, n['op'], inner) if n['side'] == 'l'
                else ArithmeticPulseTemplate(inner, n['op'], scalar))
    if k == 'aat':
        return ArithmeticAtomicPulseTemplate(build_pt_(n['lhs']), n['op'], build_pt_(n['rhs']), measurements=ms)
    if k == 'rev':
        return TimeReversalPulseTemplate(build_pt_(n['inner']))
    if k == 'seq':
        return SequencePT(*[sub(q) for q in n['subs']], parameter_constraints=cs, measurements=ms)
    if k == 'rep':
        return RepetitionPT(build_pt_(n['body']), estr(n['count']), parameter_constraints=cs, measurements=ms)
    if k == 'for':
        return ForLoopPT(build_pt_(n['body']), n['idx'], (estr(n['a']), estr(n['b']), estr(n['st'])),
                         parameter_constraints=cs, measurements=ms)
    if k == 'map':
        inner = build_pt_(n['inner'])
        # no mapping at all = identity; a complete mapping needs no allow_partial_parameter_mapping
        kw = {} if set(n['m']) >= set(inner.parameter_names) else {'allow_partial_parameter_mapping': True}
        return MappingPT(inner, parameter_mapping={key: estr(e) for key, e in n['m'].items()} if n['m'] else None,
                         parameter_constraints=cs, **kw,
                         channel_mapping=dict(n['ren']) if n.get('ren') else None,
                         measurement_mapping=dict(n['mren']) if n.get('mren') else None)
    raise ValueError(k)


def py_value(q, vt='int'):
    """the Python object passed as parameter value: int where possible (default), float, or a numpy scalar
    (hash(-1) == hash(-2) holds for all three)"""
    q = F(q)
    if vt == 'float':
        return float(q)
    if vt == 'str':          # create_program evaluates non-numbers with Expression(value).evaluate_numeric()
        return str(q)
    if vt == 'npsmall' and q.denominator == 1 and -128 <= q < 256:
        import numpy as np         # small / unsigned numpy integers (create_program converts them like Python ints)
        return np.uint8(int(q)) if q >= 0 else np.int8(int(q))
    if vt in ('np', 'npsmall'):
        import numpy as np
        if q.denominator == 1:
            return np.int64(int(q)) if abs(q) < 2 ** 62 else int(q)
        return np.float64(float(q))
    return int(q) if q.denominator == 1 else float(q)


def fingerprint(prog):
    """what a program plays, independent of its representation: loop structure, repetition counts, per leaf the
    duration and 5 samples per channel, and the measurement windows"""
    import numpy as np

    def rec(l):
        if l.is_leaf():
            wf = l.waveform
            d = float(wf.duration)
            ts = np.linspace(0., d, 5)
            return ['leaf', int(l.repetition_count), d,
                    [[str(ch)] + [float(v) for v in wf.get_sampled(ch, ts)] for ch in sorted(wf.defined_channels, key=str)]]
        return ['loop', int(l.repetition_count), [rec(c) for c in l]]
    ms = prog.get_measurement_windows()
    return [rec(prog), [[str(k)] + [float(v) for v in ms[k][0]] + ['/'] + [float(v) for v in ms[k][1]] for k in sorted(ms)]]


def fp_equal(a, b):
    import math
    if isinstance(a, list) and isinstance(b, list):
        return len(a) == len(b) and all(fp_equal(x, y) for x, y in zip(a, b))
    if isinstance(a, float) and isinstance(b, float):
        return (math.isnan(a) and math.isnan(b)) or a == b or math.isclose(a, b, rel_tol=1e-9, abs_tol=1e-9)
    return type(a) == type(b) and a == b


def _create(pt, values, drop, tsw=(), keep=None, vt='int'):
    from qupulse.pulses.parameters import ParameterConstraintViolation, ParameterNotProvidedException
    from qupulse.expressions import ExpressionVariableMissingException
    kw = {}
    if drop:
        kw['channel_mapping'] = {ch: None for ch in pt.defined_channels if ch in drop}
    if tsw:
        kw['to_single_waveform'] = set(tsw)
    if vt == 'scope':        # the assignment handed over as a ready-made Scope object
        from qupulse.parameter_scope import DictScope
        params = DictScope.from_kwargs(**{k: py_value(v) for k, v in values.items()})
    elif not values and vt == 'int':
        params = None        # a template without parameters: create_program()
    else:
        params = {k: py_value(v, vt) for k, v in values.items()}
    try:
        with vlib.time_limit(20):
            prog = pt.create_program(parameters=params, **kw)
            if prog is not None and keep is not None:
                try:
                    keep.append(fingerprint(prog))
                except vlib.Timeout:
                    raise
                except Exception as e:          # a program that cannot be sampled: compared by its text
                    keep.append(['unsampled', type(e).__name__, str(prog)])
        return 'none' if prog is None else 'program'
    except vlib.Timeout:
        return 'hang'
    except ParameterConstraintViolation:
        return 'violated'
    except (ParameterNotProvidedException, ExpressionVariableMissingException):
        return 'missing'
    except Exception as e:
        return 'other:' + type(e).__name__


def run_impl(case):
    with warnings.catch_warnings():
        warnings.simplefilter('ignore')
        try:
            with vlib.time_limit(20):
                tsw = []
                pt = build_pt(case['tree'], tsw)
                names = sorted(pt.parameter_names)
        except vlib.Timeout:
            return {'hang': True}
        except Exception as e:
            return {'crash': 'construction: %s: %s' % (type(e).__name__, str(e)[:200])}
        ref = case['ref']
        if case['kind'] == 'history':
            return run_history(case, pt, names, tsw)
        values = {x: ref.get(x, '1') for x in names}
        if case['kind'] == 'removed' and names:
            del values[names[case['rm'] % len(names)]]
        if case['kind'] == 'zero':
            for z in case['zeros']:
                if z in values:
                    values[z] = '0'
            values.pop(case['rmn'], None)
        values2 = dict(values)
        values2.update(case['extra'])
        drop = drop_list(case)
        fp1, fp2 = [], []
        out = _create(pt, values, drop, tsw, fp1, vt=case.get('vt', 'int'))
        out2 = _create(pt, values2, drop, tsw, fp2, vt=case.get('vt2', case.get('vt', 'int')))
        if 'hang' in (out, out2):
            return {'hang': True}
        # (b): two programs are "the same result" iff they play the same (only meaningful when both exist)
        same = fp_equal(fp1, fp2) if (out == 'program' and out2 == 'program') else True
        return {'names': names, 'values': values, 'out': out, 'values2': values2, 'out2': out2, 'same': same}


def run_history(case, pt, names, tsw):
    """create_program called once per step on the *same* template object, in order.  A step is {'set': {name: value},
    'del': [names], 'vt': int|float|np}: the reference assignment of the declared names, updated / reduced"""
    drop = drop_list(case)
    steps, fps = [], []
    for st in case['hist']:
        values = {x: case['ref'].get(x, '1') for x in names}
        values.update(st.get('set', {}))
        for x in st.get('del', []):
            values.pop(x, None)
        fp = []
        out = _create(pt, values, drop, tsw, fp, vt=st.get('vt', 'int'))
        if out == 'hang':
            return {'hang': True}
        steps.append({'values': values, 'out': out})
        fps.append(fp)
    same = True
    for i in range(len(steps)):
        for j in range(i + 1, len(steps)):
            if (steps[i]['out'] == steps[j]['out'] == 'program'
                    and {k: F(v) for k, v in steps[i]['values'].items()} == {k: F(v) for k, v in steps[j]['values'].items()}):
                same = same and fp_equal(fps[i], fps[j])
    return {'names': names, 'steps': steps, 'same': same}


# ---------------------------------------------------------------------------------------------------------------------
# Gallina

class Names:
    def __init__(self):
        self.t = {}

    def __call__(self, x):
        if x not in self.t:
            self.t[x] = len(self.t)
        return '%d%%N' % self.t[x]


def g_expr(e, nm):
    if e[0] == 'c':
        return '(EConst %s)' % gQ(F(e[1]))
    if e[0] == 'v':
        return '(EVar %s)' % nm(e[1])
    return '(%s %s %s)' % ({'+': 'EAdd', '-': 'ESub', '*': 'EMul'}[e[0]], g_expr(e[1], nm), g_expr(e[2], nm))


OPS = {'<': 'OLt', '<=': 'OLe', '>': 'OGt', '>=': 'OGe', '==': 'OEq'}


def g_cs(cs, nm):
    return glist(lambda c: '(Constr %s %s %s)' % (OPS[c['op']], g_expr(c['l'], nm), g_expr(c['r'], nm)), cs)


def g_ms(ms, nm):
    return glist(lambda m: '(%s, %s)' % (g_expr(m[0], nm), g_expr(m[1], nm)), ms)


def g_pt(n, nm):
    k = n['k']
    if k in ('table', 'point', 'func', 'const'):
        return '(Atom %s %s %s %s %s %s)' % (
            {'table': 'KTable', 'point': 'KPoint', 'func': 'KFunction', 'const': 'KConst'}[k],
            glist(lambda c: nm('ch:' + c), n['ch']),
            glist(lambda e: g_expr(e, nm), list(n['reads']) + ([n['t0']] if n.get('t0') else [])), g_expr(n['dur'], nm),
            g_cs(n['cs'], nm), g_ms(n['ms'], nm))
    if k in ('amc', 'seq'):
        return '(%s %s %s %s)' % ('AMC' if k == 'amc' else 'Seq', glist(lambda q: g_pt(q, nm), n['subs']),
                                  g_cs(n['cs'], nm), g_ms(n['ms'], nm))
    g_ce = lambda ce: '(%s, %s)' % (nm('ch:' + ce[0]), g_expr(ce[1], nm))
    if k == 'par':
        return '(%s %s %s)' % ('ParT' if n.get('td') else 'Par', g_pt(n['inner'], nm), glist(g_ce, par_ow(n)))
    if k == 'ari':
        return '(Ari %s %s %s)' % (g_pt(n['inner'], nm), glist(lambda e: g_expr(e, nm), n['sa']), glist(g_ce, n['sc']))
    if k == 'aat':
        return '(AAt %s %s %s)' % (g_pt(n['lhs'], nm), g_pt(n['rhs'], nm), g_ms(n['ms'], nm))
    if k == 'rev':
        return '(Rev %s)' % g_pt(n['inner'], nm)
    if k == 'rep':
        return '(Rep %s %s %s %s)' % (g_pt(n['body'], nm), g_expr(n['count'], nm), g_cs(n['cs'], nm), g_ms(n['ms'], nm))
    if k == 'for':
        return '(For %s %s %s %s %s %s %s)' % (g_pt(n['body'], nm), nm(n['idx']), g_expr(n['a'], nm), g_expr(n['b'], nm),
                                               g_expr(n['st'], nm), g_cs(n['cs'], nm), g_ms(n['ms'], nm))
    if k == 'map':
        inner = g_pt(n['inner'], nm)
        if n.get('ren'):
            inner = '(Ren %s %s)' % (inner, glist(
                lambda kv: '(%s, %s)' % (nm('ch:' + kv[0]), 'None' if kv[1] is None else '(Some %s)' % nm('ch:' + kv[1])),
                sorted(n['ren'].items())))
        return '(Map %s %s %s)' % (inner,
                                   glist(lambda kv: '(%s, %s)' % (nm(kv[0]), g_expr(kv[1], nm)), list(n['m'].items())),
                                   g_cs(n['cs'], nm))
    raise ValueError(k)


OUT = {'program': 'OProg', 'none': 'ONone', 'missing': 'OMissing', 'violated': 'OViolated'}


def g_out(o):
    return OUT.get(o, 'OOther')


def to_coq(case, obs):
    term = _to_coq(case, obs)
    if _candidate(obs):
        _PENDING[vlib.canonical_hash([case, obs])] = term
    return term


def _to_coq(case, obs):
    if 'crash' in obs or 'hang' in obs:
        return 'CCrash'
    nm = Names()
    p = g_pt(case['tree'], nm)
    gv = lambda vals: glist(lambda kv: '(%s, %s)' % (nm(kv[0]), gQ(F(kv[1]))), sorted(vals.items()))
    if 'steps' in obs:
        return '(CHist %s %s %s %s %s)' % (p, glist(lambda c: nm('ch:' + c), drop_list(case)), glist(nm, obs['names']),
                                           glist(lambda st: '(%s, %s)' % (gv(st['values']), g_out(st['out'])), obs['steps']),
                                           gbool(obs.get('same', True)))
    return '(CCase %s %s %s %s %s %s %s %s)' % (p, glist(lambda c: nm('ch:' + c), drop_list(case)), glist(nm, obs['names']),
                                              gv(obs['values']),
                                              g_out(obs['out']), gv(obs['values2']), g_out(obs['out2']),
                                              gbool(obs.get('same', True)))


def nontrivial(case, obs):
    ns = list(nodes(case['tree']))
    return len(ns) >= 2 and any(n.get('cs') for n in ns)


def histogram_keys(case, obs):
    keys = ['family:' + case['kind'] + (':' + case['tag'] if case.get('tag') else '')]
    ns = list(nodes(case['tree']))
    for k in sorted({n['k'] for n in ns}):
        keys.append('has:' + k)
    for n in ns:
        if n.get('cs'):
            keys.append('constraint_on:' + n['k'])
        if n['k'] == 'map' and n['inner']['k'] == 'map':
            keys.append('nested_map:' + ('with_cs' if n['inner']['cs'] else 'merged'))
        if n['k'] == 'ari':
            keys.append('ari:' + ('time_dependent' if n.get('td') else 'div' if n['op'] == '/' else 'plain'))
        if n['k'] == 'par' and n.get('td'):
            keys.append('par:time_dependent')
        if n['k'] == 'map' and any(key in evars(e) for key, e in n['m'].items()):
            keys.append('map:self_referential')
        if n['k'] == 'map' and n.get('ren'):
            keys.append('map:channels_' + ('dropped' if None in n['ren'].values() else
                                           'swapped' if len(n['ren']) == 2 else 'renamed'))
        if n['k'] == 'map' and n.get('mren'):
            keys.append('map:measurement_renamed')
        if n['k'] == 'for' and n['idx'] in (evars(n['a']) | evars(n['b']) | evars(n['st']) | cs_vars(n['cs'])):
            keys.append('for:index_in_own_range_or_constraint')
        if n.get('tsw'):
            keys.append('to_single_waveform')
    d = drop_list(case)
    keys.append('drop:' + ('none' if not d else 'all' if len(d) == 2 else 'partial'))
    keys.append('nodes:%d' % min(len(ns), 12))
    if any(n['k'] in ('amc', 'aat') and any(q['k'] == 'par' or (q['k'] == 'map' and q['inner']['k'] == 'par') for q in children(n)) for n in ns):
        keys.append('par_below_atomic_composite')
    if any(n.get('oid') is not None for n in ns):
        keys.append('aliased_object')
    if any(n.get('tup') for n in ns):
        keys.append('map:given_as_tuple')
    if case.get('vt') or case.get('vt2'):
        keys.append('values_as:%s/%s' % (case.get('vt', 'int'), case.get('vt2', case.get('vt', 'int'))))
    if 'out' in obs:
        keys.append('out:' + obs['out'].split(':')[0])
        keys.append('out2:' + obs['out2'].split(':')[0])
    elif 'steps' in obs:
        keys.append('history:' + '>'.join(st['out'].split(':')[0] for st in obs['steps']))
        keys.append('history_vt:' + '/'.join(sorted({st.get('vt', 'int') for st in case['hist']})))
    else:
        keys.append('out:crash')
    return keys


_GUARD = {}          # canonical hash of (case, obs) -> the case is exactly the known finding (Corr.check_known)
_PENDING = {}        # candidates seen by to_coq that have not been evaluated yet: hash -> Gallina term


def _candidate(obs):
    if 'steps' in obs:
        return any(set(obs['names']) - set(st['values']) and st['out'] in ('program', 'none') for st in obs['steps'])
    return 'names' in obs and bool(set(obs['names']) - set(obs['values'])) and obs['out'] in ('program', 'none')


def known_holds(case, obs):
    """Corr.check_known evaluated in Coq: the implementation does exactly what the faithful model (which exhibits the
    finding) does, and every clause of check_spec holds except clause (d) for assignments on which
    guard_C03_function_zero_tight (round 6: the exact guard) is false, a needed value is missing and a result was returned.  All candidates seen so far
    are evaluated in one batch"""
    key = vlib.canonical_hash([case, obs])
    if key not in _GUARD:
        _PENDING.setdefault(key, _to_coq(case, obs))
        keys = sorted(_PENDING)
        wd = os.path.join(vlib.CASES, 'C03.guard.%d' % os.getpid())
        try:
            res = vlib.run_coq_cases(wd, CORR_IMPORTS, ['check_known'], [_PENDING[k] for k in keys], shard=SHARD)
            for j, k in enumerate(keys):
                _GUARD[k] = j not in res['check_known']
            _PENDING.clear()
        finally:
            vlib.rmtree(wd)
    return _GUARD[key]


def classify(case, obs):
    """known finding: the implementation returned (program / None) although a declared name is not supplied, the input
    lies in the class the theorems exclude (the Coq guard guard_C03_function_zero_tight is false: the first failing
    obligation in instantiation order belongs to a function atom
    whose expression cannot be evaluated but whose symbolic residual is closed), the faithful model predicts exactly
    this observation (check_corr) and nothing else is wrong with the case (round 5: the guard alone would file any
    other violation on such an input under the finding, and the check skips check_corr for a classified case)"""
    if 'names' not in obs or not _candidate(obs):
        return None
    try:
        if known_holds(case, obs):
            return 'function-zero-factor-hides-missing-parameter'
    except Exception:
        return None         # could not be evaluated: not classified (reported as a violation)
    return None


def exact_order_report(seed=0, tier='quick'):
    """dev tool (not part of the verdict): on how many generated cases do model and implementation agree on the exact
    outcome kind, also for incomplete assignments (check_corr_exact)"""
    import random
    rng = random.Random(seed)
    cases = gen_cases(rng, tier, {})
    obs = [run_impl(c) for c in cases]
    wd = os.path.join(vlib.CASES, 'C03.exact.%d' % os.getpid())
    try:
        res = vlib.run_coq_cases(wd, CORR_IMPORTS, ['check_corr_exact'], [to_coq(c, o) for c, o in zip(cases, obs)],
                                 shard=SHARD)
    finally:
        vlib.rmtree(wd)
    incomplete = sum(1 for o in obs if 'values' in o and set(o['names']) - set(o['values']))
    return {'cases': len(cases), 'incomplete': incomplete, 'disagree': [cases[i] for i in res['check_corr_exact']]}


def tree_size(t):
    return sum(1 for _ in nodes(t)) * 100 + len(json.dumps(t)) / 100.0


def shrink(case, obs, ctx):
    """greedy structural shrinking of a case on which check_spec fails: per round all one-step reductions (node ->
    child, drop a constraint / window / mapping entry / sequence member / to_single_waveform flag) are run on the
    implementation and judged by the Coq specification in one coqc call"""
    wd = os.path.join(ctx['workdir'], 'shrink')

    def kids(t):
        k = t['k']
        if k in ('amc', 'seq'):
            return [('subs', j) for j in range(len(t['subs']))]
        if k in ('par', 'map', 'ari', 'rev'):
            return [('inner', None)]
        if k in ('rep', 'for'):
            return [('body', None)]
        if k == 'aat':
            return [('lhs', None), ('rhs', None)]
        return []

    def get(t, key):
        return t[key[0]] if key[1] is None else t[key[0]][key[1]]

    def put(t, key, v):
        t2 = dict(t)
        if key[1] is None:
            t2[key[0]] = v
        else:
            t2[key[0]] = t[key[0]][:key[1]] + [v] + t[key[0]][key[1] + 1:]
        return t2

    def variants(t):
        out = [get(t, key) for key in kids(t)]
        for f in ('cs', 'ms'):
            for j in range(len(t.get(f, []))):
                out.append(dict(t, **{f: t[f][:j] + t[f][j + 1:]}))
        if t.get('tsw'):
            out.append({k: v for k, v in t.items() if k != 'tsw'})
        if t['k'] in ('seq',) and len(t['subs']) > 1:
            for j in range(len(t['subs'])):
                out.append(dict(t, subs=t['subs'][:j] + t['subs'][j + 1:]))
        if t['k'] == 'map':
            for key in t['m']:
                out.append(dict(t, m={k: v for k, v in t['m'].items() if k != key}))
        for key in kids(t):
            for v in variants(get(t, key)):
                out.append(put(t, key, v))
        return out

    cur, cur_obs = case, obs
    for _ in range(10):
        cands = [dict(cur, tree=v) for v in variants(cur['tree'])]
        cands = sorted(cands, key=lambda c: tree_size(c['tree']))[:80]
        if cur.get('kind') == 'history' and len(cur['hist']) > 1:
            cands = [dict(cur, hist=cur['hist'][:j] + cur['hist'][j + 1:]) for j in range(len(cur['hist']))] + cands
        if not cands:
            break
        obss = [run_impl(c) for c in cands]
        keep = [(c, o) for c, o in zip(cands, obss) if 'crash' not in o and 'hang' not in o]
        if not keep:
            break
        terms = [to_coq(c, o) for c, o in keep]
        res = vlib.run_coq_cases(wd, CORR_IMPORTS, [CHECK_SPEC], terms, shard=SHARD)
        bad = [j for j in res[CHECK_SPEC] if classify(keep[j][0], keep[j][1]) is None]
        if not bad:
            break
        csize = lambda c: tree_size(c['tree']) + 10 * len(c.get('hist', []))
        best = min(bad, key=lambda j: csize(keep[j][0]))
        if csize(keep[best][0]) >= csize(cur):
            break
        cur, cur_obs = keep[best]
    return cur, cur_obs


def search_failing(ctx, broken):
    """the specification oracle (check_spec, evaluated in Coq) against the implementation on a larger stream"""
    import random
    rng = random.Random(ctx.get('seed', 0) * 7919 + 3)
    cases = gen_cases(rng, 'quick', ctx, every_constraint=True)
    obs = [run_impl(c) for c in cases]
    terms = [to_coq(c, o) for c, o in zip(cases, obs)]
    wd = os.path.join(ctx['workdir'], 'search')
    res = vlib.run_coq_cases(wd, CORR_IMPORTS, [CHECK_SPEC], terms, shard=SHARD)
    for i in res[CHECK_SPEC]:
        return cases[i], obs[i], 'specification oracle check_spec rejects the observation'
    return None


MANIFEST = {
    'level_text': 'Proof + correspondence.  Gallina model of parameter_names, the MappingPT constructor, the scope classes '
                  '(lazy MappedScope, RangeScope, keys()/as_dict() forcing) and _create_program / build_waveform / '
                  'get_measurement_windows of Table/Point/Function/Constant/AtomicMultiChannel/ParallelChannel (plain and '
                  'time dependent values, also below atomic composites)/Arithmetic (scalar and atomic)/TimeReversal/'
                  'Sequence/Repetition/ForLoop/Mapping templates with per-channel dropping and the channel renaming of '
                  'MappingPT; FunctionPT expressions and time dependent ParallelChannelPT values are substituted '
                  'symbolically (polynomial residual).  Proved for all trees, scopes and drop sets of this model '
                  '(induction on the template): the constructor preserves the specification (C03_construct_spec), so all '
                  'clauses are stated on the user-level tree; the model refines an independent lazy specification '
                  '(obligations of all REACHED nodes: the root, every sequence member, loop / repetition bodies per '
                  'iteration; an atom whose channels are all dropped or whose duration is 0 is reached and its '
                  'constraints count, as in the code -- the property text says "played"); (a) declared names suffice '
                  '(never a missing-parameter error); (b) assignments agreeing on the declared names give the same '
                  'outcome kind (program / nothing / which error), complete or not (C03_irrelevant); (c) complete '
                  'assignment: accepted iff every obligation holds, else ParameterConstraintViolation when the numbers '
                  'are well formed; (c only-if, d) and the refinement for any assignment under the executable guard '
                  'guard_C03_function_zero_tight, which is exact (round 6, C03_guard_exact: false iff the obligation that '
                  'decides the ideal verdict is a function expression whose missing name vanishes; '
                  'C03_refines_exact_guard, C03_missing_exact_guard, C03_constraints_sound_exact_guard, '
                  'C03_violation_justified_exact_guard; the round-2 '
                  'guard over all obligations implies it); '
                  'C03_missing_refuted exhibits the known finding in the model.  Round 5: the helpers shared by model and '
                  'specification (Python range, channel renaming / dropping, kept values) are characterised by theorems of '
                  'their own.  Tested, not proved: that the real code behaves like the model (correspondence check: '
                  'single calls AND histories of calls on one template object, Coq case CHist, every step judged on its '
                  'own by model and specification) on a deterministic directed stream (name coincidences D1-D4; '
                  'frame-pushing nodes between a rebinding mapping and the reader D5; hash-colliding values in histories '
                  'and loop ranges H1/H2; aliased objects D7; zero durations D8; ParallelChannelPT below atomic composites '
                  'D9; time dependent values D10; channels mapped to None D11; the class of the known finding D12; '
                  'nested mappings whose outer mapping exchanges / shifts / rotates the names it maps D13) plus '
                  'generated trees x assignment families x value types (thorough: exhaustive small scope, full directed '
                  'products); check_spec evaluates the clauses from the specification (Spec.v) on the user-level tree and '
                  'the observed parameter_names, clause (b) including equality of the instantiated programs (sampled).  '
                  'A rejected case counts as the known finding only if the model predicts the observation exactly and '
                  'nothing but "a result although a vanishing needed value is missing" is wrong with it '
                  '(Corr.check_known).',
    'level_note': 'Known finding (FunctionPT / time dependent ParallelChannelPT value: a missing parameter multiplied by a '
                  'supplied 0 vanishes symbolically) is reproduced by the model; clauses (c only-if)/(d) and the '
                  'refinement are proved under a guard that excludes exactly such inputs (round 6: only the obligations '
                  'up to the first failing one count; the over-approximation of the round-2 guard, '
                  'Proofs10.ex_guard_overapprox, is covered now: Proofs11.ex_tight_closes_overapprox; the classification '
                  'of a rejected case as the known finding, Corr.finding_form, uses the exact guard).  '
                  'Six defects fixed in /repo '
                  '(nested MappingPT dropped inner constraints; ArithmeticAtomicPT did not declare its measurement '
                  'parameters; a parameter called t broke ArithmeticPT scalars / time dependent ParallelChannelPT '
                  'values; two eager scope copies hiding t changed the result of incomplete assignments (ArithmeticPT, '
                  'round 4: ParallelChannelPT, found by a failing proof); a time dependent ParallelChannelPT value '
                  'whose time dependence vanishes raised AssertionError).  Equality of program contents in clause (b) '
                  'and along histories is tested, not proved (waveforms are not modelled).  With a declared name absent '
                  'the code may raise a missing-parameter error although no played node needs the name (eager '
                  'keys()/as_dict()); the specification allows that.  Trusted: Coq kernel, sympy '
                  'on the generated polynomial fragment (function expressions of depth <= 2), harness.  Not modelled: '
                  'volatile parameters, AtomicMultiChannelPT explicit duration, TimeReversalPT below an atomic '
                  'composite, identifiers, expressions beyond + - * and comparisons.',
    'technique': 'Coq proof (structural induction over the nested template type; refinement of a lazy obligation '
                 'semantics; relational proof over scope objects) + correspondence check with an independent '
                 'specification oracle on a directed deterministic stream, histories on shared objects and a random '
                 'stream',
    'design_ref': 'DESIGN.md §5 C03',
}
