"""C11 — the pulse storage stays loadable whatever point a store operation fails at."""
import copy
import itertools
import json
import os
import re

import vlib
from vlib import gN, gbool, glist
from props import c11_impl as impl

PID = 'C11'
COQ_DIRS = ['common', 'C11']
TARGETS = ['C11/Props.vo', 'C11/Corr.vo']
MODEL_TARGETS = ['C11/Corr.vo']
PROPS_FILE = 'C11/Props.v'
PROPS_MODULE = 'QV.C11.Props'
CORR_IMPORTS = ['QV.C11.Model', 'QV.C11.Corr']
CHECK_CORR = 'check_corr'
CHECK_SPEC = 'check_spec'
SHARD = 50
RULE = ('one case = backend (dict / directory / zip / caching wrapper) x failure-free history on one PulseStorage '
        '(stores, overwrites, clear or a new PulseStorage taking over, loads that cache new objects, deletes, re-stores '
        'of deleted identifiers with the same or another object) x final store / overwrite / delete.  The history runs once; from the restored state '
        '(directory + attributes of the PulseStorage / backend objects; a sample is repeated from scratch and must '
        'agree) the final operation runs once without failure and once for EVERY mutating primitive raising '
        '(open-for-write, file write [raise or half-written], os.remove/rename/replace, mkstemp, ZipFile.writestr, '
        'shutil copies chunk by chunk, backend.put/delete for the dict backend; on a quarter of the cases also every '
        'read primitive; on a share of the zip cases and in the `lowlevel` family every low-level write of the archive '
        'writer incl. those inside ZipFile.close(); quick tier: above 24 positions a selection that keeps every os / '
        'shutil / backend level call with its neighbours), and on a share of the fs / zip cases once per flush mode '
        'with the directory copied before every position (= what a process that stops there leaves; the process '
        'really is killed at two positions per mode [thorough: all] and must leave the same), observed and followed '
        'up by new objects.  Streams: small-scope enumeration of child lists over {new leaf, new subtree, cached '
        'object, same object twice, identifier that exists but is not cached, second object with a used identifier, '
        'un-serializable leaf}; deterministic families `order` (all assignments of the identifiers 3/10/20 to parent '
        'and children), `hist` (delete + re-store histories), `ow` (overwrite of an existing, referenced identifier '
        'with new sub-templates, retried / wrapped afterwards), `lowlevel`, `same` (the cached object itself again), '
        '`load` (loaded vs. original objects as sub-templates); round 4: `open` (failures of OPENING / CREATING a file: every '
        'such position failing with EMFILE from the operating system - descriptor limit 0 while the primitive runs, '
        'nothing injected - and identifiers of 247..251 characters / with a path separator whose temporary file name '
        'the file system refuses, 246 = the longest that works), `names` (identifiers spelled with dots, leading dot, '
        '.json / .tmp endings, blanks, glob / quote characters, non-ASCII, case twins, maximal length, and '
        'since round 6 suffix twins: x next to x.tmp / x.json / x.json.tmp / x.tmp.json / x~ / x.new / x.bak / x.part on '
        'both the stored and the new side, every shape on the directory backend: nothing may '
        'change), `share` + `dag` (a sub-template referenced from several parents at different depths in both orders; '
        'all DAGs over 2..4 named objects, sampled in the quick tier), `cache` (caching wrapper around directory and '
        'archive, observed through the wrapper object as well), `registry` (the PulseStorage is the default registry: '
        'constructing the object stores it), `nest` (what the repaired encoder rejects: the stored object inside its own '
        'replacement at depth 1..3, a second object under an identifier of the same transaction); '
        'random templates on pre-populated storages.  Non-trivial = at least two crash positions or a pre-write '
        'failure; distinct = distinct canonical JSON of the case.')
TRUSTED = [
    'Coq 8.16.1 kernel + vm_compute',
    'harness fault injector (patches builtins.open / os.fdopen / file.write,close / os.remove,rename,replace / '
    'tempfile.mkstemp / shutil.copy*,move,copyfileobj (no sendfile fast path, 256-byte chunks) / zipfile.ZipFile.'
    '__init__,open,writestr,write,close / io.open as used by zipfile (low-level positions) / backend.put,delete): a '
    'primitive the code performs through another API is not a fault position',
    'environment failures (round 4): RLIMIT_NOFILE is set to 0 for the duration of ONE opening primitive (restored '
    'right after it) - the harness checks that the primitive did raise EMFILE; identifiers of 247..251 characters / '
    'with a path separator are refused by the file system of the scratch directory (NAME_MAX 255) - checked per run',
    'caching wrapper: observed through the directory / archive AND through the wrapper object (its cache of texts is '
    'copied before and put back after the observation); a difference is a violation',
    'harness state restore between the runs of one case (directory copy + shallow copy of the attributes of the '
    'PulseStorage and backend objects), cross-checked on a sample of runs per case against a run from scratch',
    'kill runs: the directory content copied at a position (after flushing what the flush mode says) is what a '
    'process stopping there leaves behind - cross-checked at sampled positions (thorough: all) by really killing a '
    'forked child (os._exit) there; the observation afterwards uses new backend / PulseStorage objects',
    'harness document parser (payload = first measurement name, references in document order); observations are '
    'cached by the complete content of the backend (bytes of the archive file / all listed documents)',
    'CPython json / zipfile / os behave as documented; os.replace is atomic',
]
ASSUMPTIONS = [
    'single injected failure per operation: either the primitive raises and the code runs on (exception semantics) or '
    'the process stops before it (kill semantics; everything handed to file objects before is either lost or '
    'completely on disk)',
    'only the order of system calls is modelled: no fsync / power-loss reordering',
    'templates are trees of named objects over ConstantPT / FunctionPT / SequencePT / RepetitionPT; the storage is '
    'only modified through PulseStorage (cached objects are in the backend)',
]

# 'recursion' arises at the same decision point as a clash (loading the stored object for the identity check)
ERR = {'clash': 'EClash', 'unser': 'EUnser', 'missing': 'EMissing', 'recursion': 'EClash'}
BACKEND = {'dict': 'BDict', 'fs': 'BFs', 'zip': 'BZip', 'cfs': 'BFs', 'czip': 'BZip'}


# ---------------------------------------------------------------------------------------------------------------------
# running the implementation

def run_impl(case, tier=None):
    tier = tier or case.get('tier', 'quick')
    try:
        with vlib.time_limit(180):
            modes = tuple(case.get('kill_modes', ('noflush', 'flush'))) if case.get('kill', True) else ()
            ra = impl.run_case(case, modes, real_kills=None if tier == 'thorough' else 2,
                               validate=1 if tier == 'quick' else 2, cap=RAISE_CAP[tier])
            if 'error' in ra:
                return {'crash': ra['error']}
            r0, runs = ra['r0'], ra['runs']
            crashes = []
            for k, rk in sorted(runs.items()):
                if not rk['fired'] or rk['trace'][:k + 1] != r0['trace'][:k + 1]:
                    return {'crash': 'non-deterministic primitive sequence at k=%d' % k}
                crashes.append({'k': k, 'prim': r0['trace'][k], 'wb': rk['writes_before'], 'outcome': rk['outcome'],
                                'obs': rk['after'], 'post': rk.get('post_obs', rk['after']),
                                'post_outcome': rk.get('post_outcome')})
            # failures produced by the environment (descriptor limit, unacceptable file name): same list, marked
            for rn in ra.get('naturals', []):
                k = rn['k']
                if rn['trace'][:k + 1] != r0['trace'][:k + 1]:
                    return {'crash': 'non-deterministic primitive sequence (environment failure at k=%d)' % k}
                crashes.append({'k': k, 'prim': r0['trace'][k], 'wb': rn['writes_before'], 'outcome': rn['outcome'],
                                'obs': rn['after'], 'post': rn.get('post_obs', rn['after']),
                                'post_outcome': rn.get('post_outcome'), 'natural': rn['how']})
            crashes.sort(key=lambda c: (c['k'], 'natural' in c))
            return {'before': r0['before'], 'outcome': r0['outcome'], 'after': r0['after'], 'trace': r0['trace'],
                    'crashes': crashes, 'after_post': r0.get('post_obs', r0['after']),
                    'post_outcome': r0.get('post_outcome'), 'kills': ra['kills'], 'ktrace': ra['ktrace']}
    except vlib.Timeout:
        return {'hang': True}
    except Exception as e:
        return {'crash': '%s: %s' % (type(e).__name__, str(e)[:300])}
    finally:
        impl.cleanup()


# ---------------------------------------------------------------------------------------------------------------------
# Gallina printers

def g_tmpl(objs, tag):
    if tag == 'bad':
        return 'Bad'
    o = objs[str(tag)]
    return '(Node %s %s %s %s)' % (gN(o['id']), gN(int(tag)), gN(o['payload']),
                                   glist(lambda k: g_tmpl(objs, k), o['kids']))


def g_hop(objs, op):
    if op['op'] == 'load':
        return '(HLoad %s %s)' % (gN(op['id']), gN(op['base']))
    return '(HOp %s)' % g_op(objs, op)


def g_op(objs, op):
    if op['op'] == 'clear':
        return 'OClear'
    if op['op'] == 'delete':
        return '(ODelete %s)' % gN(op['id'])
    return '(%s %s)' % ('OStore' if op['op'] == 'store' else 'OOverwrite', g_tmpl(objs, op['t']))


def g_doc(d):
    if d is None:
        return 'Partial'
    return '(Full %s %s)' % (gN(d[0]), glist(gN, d[1]))


def g_obs(o):
    return '{| o_missing := %s; o_entries := %s |}' % (
        gbool(o['missing']), glist(lambda e: '(%s, %s, %s)' % (gN(e[0]), g_doc(e[1]), gbool(e[2])), o['entries']))


def _all_observations(obs):
    yield 'before the operation', obs['before']
    yield 'no-failure run', obs['after']
    yield 'no-failure run, then follow-up', obs.get('after_post', obs['after'])
    for c in obs['crashes']:
        yield 'failure at primitive %d (%s)' % (c['k'], c['prim']), c['obs']
        yield 'failure at primitive %d (%s), then follow-up' % (c['k'], c['prim']), c['post']


def _views_differ(obs):
    return [w for w, o in _all_observations(obs) if 'view2' in o]


def to_coq(case, obs):
    if 'crash' in obs or 'hang' in obs or obs['outcome'] == 'fault':
        return 'CCrash'
    oc = obs['outcome']
    if oc == 'missing' and case['final']['op'] != 'delete' and not all(e[2] for e in obs['before']['entries']):
        # a store / overwrite on a storage that is broken already (a history delete removed a referenced entry):
        # the KeyError comes from loading the stored object for the identity check = the decision point of a clash
        oc = 'clash'
    out = 'OutOk' if oc == 'ok' else '(OutErr %s)' % ERR[oc]
    if any(c.get('post_outcome') == 'fault' for c in obs['crashes']) or obs.get('post_outcome') == 'fault':
        return 'CCrash'
    if _views_differ(obs):
        return 'CCrash'
    g_crash = lambda c: '{| writes_before := %s; seen := %s; seen_post := %s |}' % (
        gN(c['wb']), g_obs(c['obs']), g_obs(c['post']))
    return '(CStore %s %s %s %s %s %s %s %s %s %s)' % (
        BACKEND[case['backend']], glist(lambda o: g_hop(case['objs'], o), case['history']),
        g_op(case['objs'], case['final']), g_obs(obs['before']), out, g_obs(obs['after']),
        glist(g_crash, obs['crashes']),
        '(Some %s)' % g_op(case['objs'], case['post']) if case.get('post') else 'None', g_obs(obs['after_post']),
        glist(lambda seq: glist(g_crash, seq), obs.get('kills', [])))


# ---------------------------------------------------------------------------------------------------------------------
# generators

class Scn:
    """builds the object table of one case; tags are object identities, ids are identifiers"""

    def __init__(self, backend, fault='raise'):
        self.objs = {}
        self.n = 0
        self.pay = 0
        self.backend = backend
        self.fault = fault
        self.history = []

    def obj(self, ident, kids=(), wrap=None, shape=0):
        self.n += 1
        self.pay += 1
        self.objs[str(self.n)] = {'id': ident, 'payload': self.pay, 'kids': list(kids), 'shape': shape,
                                  'wrap': list(wrap) if wrap else [False] * len(kids)}
        return self.n

    def case(self, final, note=''):
        return {'kind': 'store', 'backend': self.backend, 'fault': self.fault, 'objs': self.objs,
                'history': self.history, 'final': final, 'note': note, 'post': None}


def ids_in(objs, tag, acc=None):
    acc = [] if acc is None else acc
    if tag != 'bad':
        o = objs[str(tag)]
        acc.append((o['id'], int(tag)))
        for k in o['kids']:
            ids_in(objs, k, acc)
    return acc


# menu of children for the small-scope enumeration; the storage holds  n0 -> [n1, n2], n1, n2  (n3.. are unused)
KID_MENU = ['newleaf', 'newtree', 'cached1', 'cached2', 'cached0', 'usedid', 'bad', 'dup', 'dupobj']
ROOT_MODES = ['store_fresh', 'overwrite_fresh', 'overwrite_cached0', 'overwrite_cached1', 'store_used']
# (the object that is cached under n0 / n3 itself, stored or overwritten once more: see same_object_cases)


def cycle_case(backend, variant):
    """a stale cached object: store y->[a]; overwrite a := a'->[b]; overwrite b := b'->[y]  (y -> a' -> b' -> y)"""
    s = Scn(backend)
    a_old = s.obj(1)
    y = s.obj(2, [a_old], wrap=[variant % 2 == 1])
    s.history.append({'op': 'store', 't': y})
    b = s.obj(3)
    a_new = s.obj(1, [b] if variant < 2 else [b, s.obj(4)])
    s.history.append({'op': 'overwrite', 't': a_new})
    b_new = s.obj(3, [y] if variant < 2 else [s.obj(5), y])
    return s.case({'op': 'overwrite', 't': b_new}, 'cycle')


def enum_case(backend, preset, root_mode, kid_kinds, cleared, fault='raise'):
    s = Scn(backend, fault)
    cached = {}
    if preset >= 1:
        l1 = s.obj(1)
        l2 = s.obj(2, shape=1)
        r0 = s.obj(0, [l1, l2], wrap=[False, True])
        s.history.append({'op': 'store', 't': r0})
        cached = {0: r0, 1: l1, 2: l2}
    if preset >= 2:
        e = s.obj(3, [cached[1]], shape=1)
        s.history.append({'op': 'store', 't': e})
        cached[3] = e
    if cleared:
        s.history.append({'op': 'clear'})
    fresh = itertools.count(5)
    kids = []
    first_new = None
    for kk in kid_kinds:
        if kk == 'newleaf':
            k = s.obj(next(fresh))
            first_new = first_new or k
        elif kk == 'newtree':
            k = s.obj(next(fresh), [s.obj(next(fresh)), s.obj(next(fresh), shape=1)], wrap=[True, False])
            first_new = first_new or k
        elif kk.startswith('cached'):
            k = cached.get(int(kk[6:])) or s.obj(int(kk[6:]))
        elif kk == 'usedid':      # a different object carrying an identifier that is in the storage
            k = s.obj(2)
        elif kk == 'bad':
            k = 'bad'
        elif kk == 'dupobj':      # the same object once more
            k = kids[-1] if kids else s.obj(next(fresh))
        elif kk == 'dup':         # a second, different object with the identifier of an earlier new child
            prev = s.objs[str(first_new)]['id'] if first_new else next(fresh)
            k = s.obj(prev, [s.obj(next(fresh))])
        kids.append(k)
    wrap = [j % 2 == 1 for j in range(len(kids))]
    if root_mode in ('store_fresh', 'overwrite_fresh'):
        root = s.obj(4, kids, wrap)
    elif root_mode == 'overwrite_cached0':
        root = s.obj(0, kids, wrap)
    elif root_mode == 'overwrite_cached1':
        root = s.obj(1, kids, wrap)
    else:
        root = s.obj(2, kids, wrap)
    op = 'store' if root_mode.startswith('store') else 'overwrite'
    return s.case({'op': op, 't': root}, 'enum %s %s %s' % (root_mode, '+'.join(kid_kinds), 'cleared' if cleared else ''))


# ---------------------------------------------------------------------------------------------------------------------
# round 3: deterministic families for input classes the sampled enumeration / the random stream reached only by luck

ORDER_IDS = (3, 10, 20)     # 'n10' < 'n20' < 'n3' as strings, 3 < 10 < 20 as numbers


def order_case(backend, perm, shape, mode, fault='raise'):
    """identifier orderings: every assignment of three identifiers to root / middle / leaf (chain) or root / two
    children (fork), so that a parent sorts before, between and after its children - lexicographically and
    numerically; `mode` = store on an empty storage, or overwrite of a root that exists with other children"""
    s = Scn(backend, fault)
    a, b, c = (ORDER_IDS[j] for j in perm)
    if mode == 'overwrite':
        old = s.obj(a, [s.obj(30)])
        s.history.append({'op': 'store', 't': old})
    if shape == 'chain':
        root = s.obj(a, [s.obj(b, [s.obj(c)], wrap=[True])])
    else:
        root = s.obj(a, [s.obj(b), s.obj(c, shape=1)], wrap=[False, True])
    return s.case({'op': 'store' if mode == 'store' else 'overwrite', 't': root},
                  'order %s %s %s' % (shape, mode, ''.join(map(str, perm))))


def hist_case(backend, variant, fault='raise'):
    """the final operation is preceded by deletes and re-stores on the same PulseStorage object: identifiers whose
    cached object was dropped, re-stored with the same or with another object, objects that outlive their entry"""
    s = Scn(backend, fault)
    H = s.history
    l1, l2 = s.obj(1), s.obj(2, shape=1)
    r0 = s.obj(0, [l1, l2], wrap=[False, True])
    H.append({'op': 'store', 't': r0})
    if variant == 0:      # delete parent + child, re-store the child id with ANOTHER object, use the new object
        H += [{'op': 'delete', 'id': 0}, {'op': 'delete', 'id': 1}]
        n1 = s.obj(1)
        H.append({'op': 'store', 't': n1})
        final = {'op': 'store', 't': s.obj(4, [n1, s.obj(5)], wrap=[True, False])}
    elif variant == 1:    # ... use the OLD object of the re-stored identifier (must be rejected before any write)
        H += [{'op': 'delete', 'id': 0}, {'op': 'delete', 'id': 1}]
        H.append({'op': 'store', 't': s.obj(1)})
        final = {'op': 'store', 't': s.obj(4, [s.obj(5), l1])}
    elif variant == 2:    # an object that outlives its deleted entry is stored again as part of a new root
        H += [{'op': 'delete', 'id': 0}, {'op': 'delete', 'id': 1}]
        final = {'op': 'store', 't': s.obj(4, [l1, l2], wrap=[True, False])}
    elif variant == 3:    # delete, re-store the SAME object, then overwrite it
        H += [{'op': 'delete', 'id': 0}, {'op': 'delete', 'id': 1}, {'op': 'store', 't': l1}]
        final = {'op': 'overwrite', 't': s.obj(1, [s.obj(5)])}
    elif variant == 4:    # store / delete twice, then a root over the object
        H += [{'op': 'delete', 'id': 0}, {'op': 'delete', 'id': 2}, {'op': 'store', 't': l2}, {'op': 'delete', 'id': 2}]
        final = {'op': 'store', 't': s.obj(4, [l2, l1])}
    elif variant == 5:    # the root is replaced by another object over the same cached children; a child is overwritten
        H.append({'op': 'delete', 'id': 0})
        H.append({'op': 'store', 't': s.obj(0, [l2, l1], wrap=[True, True])})
        final = {'op': 'overwrite', 't': s.obj(2, [s.obj(5)], shape=1)}
    elif variant == 6:    # the cache is cleared between delete and re-store
        H += [{'op': 'clear', 'how': 'reopen'}, {'op': 'delete', 'id': 0}]
        n0 = s.obj(0, [s.obj(5)])
        H.append({'op': 'store', 't': n0})
        final = {'op': 'store', 't': s.obj(4, [n0, s.obj(6)])}
    elif variant == 7:    # delete of an uncached identifier, re-store, overwrite
        H += [{'op': 'clear'}, {'op': 'delete', 'id': 0}, {'op': 'delete', 'id': 1}, {'op': 'store', 't': l1}]
        final = {'op': 'overwrite', 't': s.obj(1, [s.obj(5, [s.obj(6)])])}
    elif variant == 8:    # rejected operations in the history (clash, missing), then delete + store of that identifier
        H += [{'op': 'store', 't': s.obj(1)}, {'op': 'delete', 'id': 9}, {'op': 'delete', 'id': 0},
              {'op': 'store', 't': s.obj(0, [l1])}]
        final = {'op': 'overwrite', 't': s.obj(0, [l1, s.obj(5)])}
    else:                 # final delete after a re-store
        H += [{'op': 'delete', 'id': 0}, {'op': 'store', 't': s.obj(0, [l1])}]
        final = {'op': 'delete', 'id': 0}
    return s.case(final, 'hist %d' % variant)


N_HIST = 10


def overwrite_existing_cases(backends, rng):
    """an identifier that exists (cached or not, referenced by other stored templates or not) is overwritten by a
    template that brings new sub-templates, so that the flush consists of several puts and the overwritten document
    is the last one"""
    out = []
    j = 0
    for b in backends:
        for rm, kinds in (('overwrite_cached1', []), ('overwrite_cached1', ['newleaf']), ('overwrite_cached1', ['newtree']),
                          ('overwrite_cached0', ['newleaf']), ('overwrite_cached0', ['cached1', 'newleaf'])):
            for cleared in (False, True):
                if cleared and 'cached1' in kinds:
                    continue
                c = enum_case(b, 2, rm, kinds, cleared, 'partial' if j % 3 == 2 else 'raise')
                c['note'] = 'ow ' + c['note'][5:]
                f = c['final']
                if j % 3 == 1:          # the failed overwrite is repeated
                    c['post'] = dict(f)
                elif j % 3 == 2:        # a new root over the object of the failed overwrite
                    tag = str(max(int(t) for t in c['objs']) + 1)
                    c['objs'][tag] = {'id': 40, 'payload': 900 + int(tag), 'kids': [f['t']], 'shape': 0, 'wrap': [False]}
                    c['post'] = {'op': 'store', 't': int(tag)}
                c['fixed_post'] = True
                out.append(c)
                j += 1
    return out


def load_cases(backends):
    """a query that caches: after the cache was dropped, `storage[i]` loads i and what it refers to into NEW objects; the
    final operation uses the loaded objects (accepted), the original objects (stale: rejected before any write), or
    identifiers the load did not touch (in the backend, not cached)"""
    out = []
    for b in backends:
        for variant in range(8):
            c = enum_case(b, 2, 'store_fresh', [], False)
            objs, H = c['objs'], c['history']
            tags = {o['id']: int(t) for t, o in objs.items()}
            del objs[str(c['final']['t'])]
            nxt = [max(int(t) for t in objs) + 1]

            def obj(ident, kids=(), payload=None, tag=None):
                t = tag if tag is not None else nxt[0]
                if tag is None:
                    nxt[0] += 1
                objs[str(t)] = {'id': ident, 'payload': payload if payload is not None else 500 + t, 'kids': list(kids),
                                'shape': 0, 'wrap': [False] * len(kids)}
                return t
            loaded = lambda base, ident: obj(ident, tag=base + ident, payload=objs[str(tags[ident])]['payload'])
            H.append({'op': 'clear'} if variant % 2 == 0 else {'op': 'clear', 'how': 'reopen'})
            if variant == 0:      # load the root: n0, n1, n2 are cached as new objects; use two of them
                H.append({'op': 'load', 'id': 0, 'base': 1000})
                final = {'op': 'store', 't': obj(4, [loaded(1000, 1), obj(5), loaded(1000, 2)])}
            elif variant == 1:    # ... use an ORIGINAL object: stale, rejected
                H.append({'op': 'load', 'id': 0, 'base': 1000})
                final = {'op': 'store', 't': obj(4, [obj(5), tags[1]])}
            elif variant == 2:    # load n3 -> [n1]: n0 and n2 stay uncached; n2 (original object) is rejected
                H.append({'op': 'load', 'id': 3, 'base': 1000})
                final = {'op': 'store', 't': obj(4, [loaded(1000, 1), tags[2]])}
            elif variant == 3:    # load a leaf only, overwrite the root over loaded + new
                H.append({'op': 'load', 'id': 1, 'base': 1000})
                final = {'op': 'overwrite', 't': obj(0, [loaded(1000, 1), obj(5)])}
            elif variant == 4:    # two loads: the second finds n1 cached (keeps the object of the first)
                H += [{'op': 'load', 'id': 1, 'base': 1000}, {'op': 'load', 'id': 3, 'base': 1100}]
                l1 = loaded(1000, 1)
                l3 = obj(3, [l1], tag=1103, payload=objs[str(tags[3])]['payload'])
                final = {'op': 'store', 't': obj(4, [l1, l3])}
            elif variant == 5:    # two loads, then the leaf both of them needed is overwritten
                H += [{'op': 'load', 'id': 1, 'base': 1000}, {'op': 'load', 'id': 3, 'base': 1100}]
                final = {'op': 'overwrite', 't': obj(1, [obj(5)])}
            elif variant == 6:    # load of a missing identifier, then load + delete + store over a loaded child
                H += [{'op': 'load', 'id': 9, 'base': 1000}, {'op': 'load', 'id': 0, 'base': 1100}, {'op': 'delete', 'id': 0}]
                final = {'op': 'store', 't': obj(0, [loaded(1100, 2), obj(5)])}
            else:                 # load, then overwrite a loaded leaf and wrap it afterwards
                H.append({'op': 'load', 'id': 0, 'base': 1000})
                final = {'op': 'overwrite', 't': obj(2, [obj(5)])}
            c['final'] = final
            c['note'] = 'load %d' % variant
            out.append(c)
    return out


def same_object_cases(backends):
    """re-registration with the SAME object: the cached object itself is stored again (no-op) / overwritten by itself
    (re-serialized over its cached children) - with the cache intact, cleared, or replaced by a new PulseStorage"""
    out = []
    for b in backends:
        for preset in (1, 2):
            for op in ('store', 'overwrite'):
                for how in (None, 'clear', 'reopen'):
                    c = enum_case(b, preset, 'store_fresh', [], False)
                    tags = {o['id']: int(t) for t, o in c['objs'].items()}
                    del c['objs'][str(c['final']['t'])]
                    if how:
                        c['history'].append({'op': 'clear', 'how': how} if how == 'reopen' else {'op': 'clear'})
                    c['final'] = {'op': op, 't': tags[3 if preset == 2 else 0]}
                    c['note'] = 'same %s preset%d %s' % (op, preset, how or '')
                    out.append(c)
    return out


def lowlevel_cases(tier):
    """zip archive written through proxied low-level file objects: every write of the archive writer (local headers,
    entry data, the central directory and end record written inside ZipFile.close()) fails / is a kill position"""
    out = []
    for fault in ('raise', 'partial'):
        specs = [(0, 'store_fresh', [], False), (1, 'store_fresh', ['newleaf'], False),
                 (1, 'overwrite_cached1', [], False), (2, 'overwrite_cached0', ['newleaf'], True)]
        if tier == 'thorough':
            specs += [(2, 'store_fresh', ['newtree'], False), (1, 'overwrite_cached1', ['newleaf'], True)]
        for preset, rm, kinds, cleared in specs:
            c = enum_case('zip', preset, rm, kinds, cleared, fault)
            c['note'] = 'lowlevel ' + c['note'][5:]
            c['lowlevel'] = c['all_positions'] = True
            out.append(c)
        c = enum_case('zip', 1, 'store_fresh', [], False, fault)
        c['final'] = {'op': 'delete', 'id': 0}
        c['note'] = 'lowlevel delete'
        c['lowlevel'] = c['all_positions'] = True
        out.append(c)
    return out


# ---------------------------------------------------------------------------------------------------------------------
# round 4: families for the classes behind the wave-3 seeds (both were caught, by sampled / random cases only)

def _retag(c, note, **kw):
    c['note'] = note
    c.update(kw)
    return c


LONG = lambda i, n: ('n%d_' % i).ljust(n, 'x')      # an identifier of exactly n characters for the number i

# spellings that are all valid identifiers and file names; none may change anything (the model knows numbers only)
SPELLINGS = [
    {0: 'n0.json', 1: '.n1', 2: 'n2.tmp', 3: 'n3.json.tmp', 4: 'n 4', 5: 'n5.', 6: 'N6', 7: 'n6', 8: 'n7.json'},
    {0: 'p\u00fcls-0', 1: 'n1*', 2: 'n2?[a]', 3: "n3'\"", 4: 'n4%s', 5: 'n5\\x', 6: 'n6:1', 7: 'n7~', 8: '-n8'},
    {0: LONG(0, 246), 1: LONG(1, 246), 2: LONG(2, 200), 3: LONG(3, 246), 4: LONG(4, 246), 5: LONG(5, 246),
     6: LONG(6, 245), 7: LONG(7, 246), 8: LONG(8, 100)},
    # round 6 (class of seed C11-10): TWINS - an identifier and the same identifier plus an ending a backend could use
    # for a temporary / backup file; stored (0..3) and new (4..8) identifiers on both sides of a pair, so that the
    # temporary file of one write would be the document of another identifier
    {0: 'r', 1: 'k.tmp', 2: 'q.json', 3: 'r.tmp', 4: 'e', 5: 'k', 6: 'q', 7: 'e.tmp', 8: 'k.json.tmp'},
    {0: 'r', 1: 'k~', 2: 'q.part', 3: 'r.new', 4: 'e', 5: 'k', 6: 'q', 7: 'e.bak', 8: 'k.tmp.json'},
]


def open_failure_cases(tier):
    """failures of OPENING / CREATING a file (as opposed to writing into it), from the injector and from the
    environment: (1) `emfile`: at every position that opens or creates a file the limit of open descriptors of the
    process is 0 while the primitive runs (the real open / mkstemp raises EMFILE; nothing is injected);
    (2) `names`: one new identifier of the final operation is spelled so that a file name derived from it is refused
    by the file system: 247..251 characters (`<id>.json.tmp` longer than 255 bytes, `<id>.json` still valid up to
    250), a path separator with a directory that does not exist; 246 characters = the longest spelling that works;
    every position of every run is a fault position (the first / middle / last document of the flush fails to open)"""
    out = []
    shapes = [(1, 'store_fresh', ['newtree'], False), (2, 'overwrite_cached0', ['newleaf', 'cached1'], False),
              (1, 'overwrite_cached1', ['newleaf'], True), (0, 'store_fresh', ['newleaf', 'newleaf'], False)]
    for b in ('fs', 'zip', 'cfs') + (('czip',) if tier == 'thorough' else ()):
        for j, (preset, rm, kinds, cleared) in enumerate(shapes):
            c = enum_case(b, preset, rm, kinds, cleared, 'partial' if j == 2 else 'raise')
            _retag(c, 'open emfile ' + c['note'][5:], natural={'emfile': True}, all_positions=True,
                   force_reads=(j % 2 == 1), lowlevel=(b == 'zip' and j in (0, 3)))
            if j == 1:
                c['post'] = dict(c['final'])
                c['fixed_post'] = True
            out.append(c)
        c = enum_case(b, 2, 'store_fresh', [], False)
        c['final'] = {'op': 'delete', 'id': 3}
        out.append(_retag(c, 'open emfile delete', natural={'emfile': True}, all_positions=True, force_reads=True))
    for b in ('fs', 'cfs', 'zip'):
        for j, (preset, rm, kinds, cleared) in enumerate(shapes[:2] + [(1, 'overwrite_fresh', ['newtree', 'newleaf'], True)]):
            c = enum_case(b, preset, rm, kinds, cleared)
            final_ids = [i for i, _ in ids_in(c['objs'], c['final']['t'])]
            new_ids = sorted({i for i in final_ids if i >= 4})
            specs = []
            for i in new_ids:
                for n in ((246, 247, 250, 251) if (i + j) % 2 == 0 or tier == 'thorough' else (247, 250)):
                    specs.append({'id': i, 'name': LONG(i, n), 'fails': n > 246})
            specs.append({'id': new_ids[0], 'name': 'sub/n%d' % new_ids[0], 'fails': True})
            specs.append({'id': new_ids[-1], 'name': 'n%d/x' % new_ids[-1], 'fails': True})
            out.append(_retag(c, 'open names ' + c['note'][5:], natural={'names': specs}, all_positions=True,
                              fixed_post=True))
    return out


def spelling_cases(backends, tier):
    """identifiers spelled with characters that matter for a file system (dots, a leading dot, `.json` / `.tmp` /
    `.json.tmp` endings, blanks, glob and quote characters, non-ASCII, upper / lower case twins, the longest
    spelling the directory backend can store): nothing may depend on the spelling"""
    out = []
    specs = [(2, 'store_fresh', ['newleaf', 'newtree'], False), (2, 'overwrite_cached0', ['cached1', 'newleaf'], False),
             (2, 'overwrite_cached1', ['newtree'], True), (2, 'store_used', ['newleaf'], False)]
    j = 0
    for jn, names in enumerate(SPELLINGS):
        for preset, rm, kinds, cleared in specs:
            # the twin spellings (round 6) matter for the backends that derive file names from identifiers: every
            # shape runs on the directory backend, plus one other backend in rotation
            quick_b = [backends[j % len(backends)]] if jn < 3 else ['fs', ('zip', 'cfs', 'czip', 'cfs')[j % 4]]
            for b in (backends if tier == 'thorough' else quick_b):
                c = enum_case(b, preset, rm, kinds, cleared, 'partial' if j % 3 == 1 else 'raise')
                _retag(c, 'names ' + c['note'][5:], names={str(k): v for k, v in names.items()})
                if j % 4 == 0:
                    c['post'] = dict(c['final'])
                    c['fixed_post'] = True
                out.append(c)
            j += 1
        for b in backends:
            c = enum_case(b, 2, 'store_fresh', [], False)
            c['final'] = {'op': 'delete', 'id': 3}
            out.append(_retag(c, 'names delete', names={str(k): v for k, v in names.items()}))
    return out


# templates with SHARED sub-templates: node j = (identifier slot, [indices of earlier nodes]); the last node is the root
SHARE_SHAPES = {
    'mid-then-leaf': [[], [0], [1, 0]],                 # R[M[L], L]   (the leaf is reached first through M)
    'leaf-then-mid': [[], [0], [0, 1]],                 # R[L, M[L]]
    'two-mids': [[], [0], [0], [1, 2]],                 # R[M1[L], M2[L]]
    'deep-then-leaf': [[], [0], [1], [2, 0]],           # R[M[I[L]], L]
    'leaf-then-deep': [[], [0], [1], [0, 2]],           # R[L, M[I[L]]]
    'deep-then-inner': [[], [0], [1], [2, 1]],          # R[M[I[L]], I]
    'inner-then-deep': [[], [0], [1], [1, 2]],          # R[I, M[I[L]]]
    'three-depths': [[], [0], [1, 0], [2, 0]],          # R[M[I[L], L], L]
    'three-depths-rev': [[], [0], [0, 1], [0, 2]],      # R[L, M[L, I[L]]]
    'mid-and-leaf-shared': [[], [0], [1, 0, 1]],        # R[M[L], L, M]
    'two-leaves-crossed': [[], [], [0, 1], [2, 1, 0]],  # R[M[L, K], K, L]
    'diamond-chain': [[], [0], [0], [1, 2], [3, 1, 0]], # R[D[M1[L], M2[L]], M1, L]
}
SHARE_IDS = ([5, 6, 7, 8, 9], [29, 18, 17, 6, 5], [7, 10, 8, 30, 9])     # numeric / lexicographic orders differ


def dag_case(backend, shape, ids, mode, wrapbits=0, fault='raise', note='share'):
    s = Scn(backend, fault)
    if mode != 'empty':
        l1 = s.obj(1)
        s.history.append({'op': 'store', 't': s.obj(0, [l1, s.obj(2, shape=1)], wrap=[False, True])})
    root_id = ids[len(shape) - 1]
    if mode == 'overwrite':     # the root identifier exists already (with another child) and is referenced
        s.history.append({'op': 'store', 't': s.obj(root_id, [l1])})
        s.history.append({'op': 'store', 't': s.obj(3, [s.n], shape=1)})
    if mode == 'cleared':
        s.history.append({'op': 'clear'})
    tags = []
    bit = 0
    for j, kids in enumerate(shape):
        wrap = []
        for _ in kids:
            wrap.append(bool(wrapbits >> bit & 1))
            bit += 1
        tags.append(s.obj(ids[j], [tags[k] for k in kids], wrap, shape=j % 2))
    return s.case({'op': 'overwrite' if mode == 'overwrite' else 'store', 't': tags[-1]}, note)


def share_cases(backends, tier):
    out = []
    j = 0
    for name, shape in SHARE_SHAPES.items():
        for mode in ('empty', 'preset', 'overwrite'):
            for b in (backends if tier == 'thorough' else [backends[(j + j // 3) % len(backends)]]):
                c = dag_case(b, shape, SHARE_IDS[j % 3], mode, wrapbits=(0, 0b10101, 0b01010, 0b11111)[j % 4],
                             fault='partial' if j % 5 == 4 else 'raise', note='share %s %s' % (name, mode))
                c['all_positions'] = b != 'zip' or tier == 'thorough'
                if j % 4 == 1:      # the failed operation is repeated
                    c['post'] = dict(c['final'])
                    c['fixed_post'] = True
                out.append(c)
            j += 1
    return out


def small_dags(n):
    """all templates over n named objects in which node j refers to an ordered selection (no repetition) of the
    nodes before it and the last node (the root) reaches every node"""
    def selections(m):
        for r in range(m + 1):
            yield from itertools.permutations(range(m), r)
    def rec(j, acc):
        if j == n:
            reach, todo = set(), [n - 1]
            while todo:
                x = todo.pop()
                if x not in reach:
                    reach.add(x)
                    todo.extend(acc[x])
            if len(reach) == n:
                yield [list(k) for k in acc]
            return
        for sel in selections(j):
            yield from rec(j + 1, acc + [sel])
    return list(rec(0, []))


def dag_enum_cases(backends, rng, tier):
    out = []
    for n in (2, 3, 4):
        for shape in small_dags(n):
            shared = len({k for kids in shape for k in kids}) < sum(len(kids) for kids in shape)
            keep = 1.0 if tier == 'thorough' else (0.12 if shared else 0.03)
            for b in backends:
                if rng.random() < keep:
                    out.append(dag_case(b, shape, rng.choice(SHARE_IDS), rng.choice(['empty', 'preset', 'overwrite', 'cleared']),
                                        wrapbits=rng.getrandbits(8), fault=rng.choice(['raise', 'raise', 'partial']),
                                        note='dag %d %s' % (n, '/'.join(''.join(map(str, k)) or '-' for k in shape))))
    return out


def caching_cases(tier):
    """the caching wrapper around the directory and around the archive: every put / delete of the wrapped backend
    failing; observed through the directory / archive AND through the wrapper object (its own cache of texts)"""
    out = []
    for b in ('cfs', 'czip'):
        for j, (preset, rm, kinds, cleared) in enumerate([
                (2, 'overwrite_cached1', ['newleaf'], False), (2, 'overwrite_cached0', ['newtree'], True),
                (2, 'store_fresh', ['cached1', 'newleaf'], False), (1, 'overwrite_cached1', [], False)]):
            c = enum_case(b, preset, rm, kinds, cleared, 'partial' if j == 1 else 'raise')
            _retag(c, 'cache ' + c['note'][5:], all_positions=True)
            c['post'] = dict(c['final']) if j % 2 == 0 else None
            if j % 2 == 1:
                tag = str(max(int(t) for t in c['objs']) + 1)
                c['objs'][tag] = {'id': 40, 'payload': 900 + int(tag), 'kids': [c['final']['t']], 'shape': 0, 'wrap': [True]}
                c['post'] = {'op': 'store', 't': int(tag)}
            c['fixed_post'] = True
            out.append(c)
        for variant in (0, 3, 5, 9):
            c = hist_case(b, variant)
            out.append(_retag(c, 'cache hist %d' % variant))
        c = enum_case(b, 2, 'store_fresh', [], False)
        c['history'] += [{'op': 'load', 'id': 0, 'base': 1000}, {'op': 'clear'}]
        c['final'] = {'op': 'delete', 'id': 3}
        out.append(_retag(c, 'cache delete'))
        # the wrapper's own cache is dropped (clear_cache) between the history and the final operation
        for rm, kinds in (('overwrite_cached0', ['newleaf']), ('store_fresh', ['cached2'])):
            c = enum_case(b, 2, rm, kinds, True)
            c['history'][-1] = {'op': 'clear', 'how': 'wrapper'}
            out.append(_retag(c, 'cache dropped ' + c['note'][5:], all_positions=True))
    return out


def nest_cases(backends, tier):
    """what the round-4 repair rejects, deterministically: (R2) the STORED object of the identifier that is overwritten
    inside its own replacement at depth 1 / 2 / 3, alone or next to new sub-templates, wrapped or not, cache intact or
    dropped; (R1) a second object with an identifier the same transaction already uses - the root's (new) identifier
    below the root, one new identifier at two depths in both orders.  All must be rejected before anything is
    written; the failed operation is repeated / followed by an acceptable one"""
    out = []
    j = 0
    for depth in (1, 2, 3):
        for extra in (False, True):
            for cleared in (False, True):
                for b in (backends if tier == 'thorough' else [backends[j % len(backends)]]):
                    s = Scn(b)
                    l1 = s.obj(1)
                    old = s.obj(0, [l1, s.obj(2, shape=1)], wrap=[False, True])
                    s.history.append({'op': 'store', 't': old})
                    s.history.append({'op': 'store', 't': s.obj(3, [old])})
                    if cleared:
                        s.history.append({'op': 'clear'})
                    inner = old
                    for d in range(depth - 1):
                        inner = s.obj(5 + d, [inner] + ([s.obj(20 + d)] if extra else []),
                                      wrap=[j % 2 == 1] + ([False] if extra else []))
                    kids = ([s.obj(9)] if extra else []) + [inner]
                    root = s.obj(0, kids, [False] * (len(kids) - 1) + [j % 3 == 1])
                    c = s.case({'op': 'overwrite', 't': root},
                               'nest stored-root depth%d%s%s' % (depth, ' extra' if extra else '', ' cleared' if cleared else ''))
                    if j % 2 == 0:
                        c['post'] = dict(c['final'])
                    else:       # an acceptable overwrite of the same identifier afterwards
                        c['post'] = {'op': 'overwrite', 't': s.obj(0, [s.obj(30)])}
                    c['fixed_post'] = True
                    out.append(c)
                j += 1
    for variant in range(6):
        for b in (backends if tier == 'thorough' else [backends[variant % len(backends)]]):
            s = Scn(b)
            s.history.append({'op': 'store', 't': s.obj(0, [s.obj(1)])})
            if variant == 0:      # the root's new identifier once more, two levels down
                root = s.obj(4, [s.obj(5, [s.obj(4)], wrap=[True])])
            elif variant == 1:    # ... as a direct child, after a new leaf
                root = s.obj(4, [s.obj(5), s.obj(4, [s.obj(6)])])
            elif variant == 2:    # one new identifier at depth 1, then at depth 2
                root = s.obj(4, [s.obj(5), s.obj(6, [s.obj(5, [s.obj(7)])])])
            elif variant == 3:    # ... at depth 2, then at depth 1
                root = s.obj(4, [s.obj(6, [s.obj(5, [s.obj(7)])]), s.obj(5)])
            elif variant == 4:    # an overwrite of a stored root with its identifier on a NEW object below
                root = s.obj(0, [s.obj(5, [s.obj(0, [s.obj(6)])])])
            else:                 # two different objects, the same (new) identifier, EQUAL content (same document)
                a, b2 = s.obj(5), s.obj(5)
                s.objs[str(b2)]['payload'] = s.objs[str(a)]['payload']
                root = s.obj(4, [a, b2], wrap=[False, True])
            c = s.case({'op': 'overwrite' if variant == 4 else 'store', 't': root}, 'nest second-object %d' % variant)
            c['post'] = {'op': 'store', 't': s.obj(40, [s.obj(41)])}
            c['fixed_post'] = True
            out.append(c)
    return out


def registry_cases(backends):
    """the PulseStorage is the default pulse registry: a named object is stored by CONSTRUCTING it (new and cached
    children, a used identifier, an un-serializable child, the identity check loading from the backend while the
    registry is active)"""
    out = []
    j = 0
    for rm, kinds, cleared in (('store_fresh', ['newleaf'], False), ('store_fresh', ['cached1', 'newtree'], False),
                               ('store_used', ['newleaf'], False), ('store_fresh', ['newleaf', 'bad'], False),
                               ('store_fresh', ['cached1'], True), ('store_fresh', ['usedid', 'newleaf'], False),
                               ('store_fresh', ['newtree', 'dupobj'], True)):
        for b in backends:
            c = enum_case(b, 2, rm, kinds, cleared, 'partial' if j % 4 == 3 else 'raise')
            c['final']['via_registry'] = True
            out.append(_retag(c, 'registry ' + c['note'][5:]))
            j += 1
    return out


def rand_tree(s, rng, fresh, reusable, depth, allow_bad=0.0, clash_ids=()):
    r = rng.random()
    if reusable and r < 0.25:
        return rng.choice(reusable)
    if r < 0.25 + allow_bad:
        return 'bad'
    if clash_ids and r < 0.3 + allow_bad:
        return s.obj(rng.choice(list(clash_ids)))
    nk = 0 if depth <= 0 else rng.choice([0, 0, 1, 2, 2, 3])
    kids = [rand_tree(s, rng, fresh, reusable, depth - 1, allow_bad, clash_ids) for _ in range(nk)]
    if kids and rng.random() < 0.3:
        kids.append(rng.choice(kids))
    t = s.obj(next(fresh), kids, [rng.random() < 0.4 for _ in kids], rng.randint(0, 1))
    if t != 'bad':
        reusable.append(t)
    return t


def rand_case(rng, backend):
    s = Scn(backend, rng.choice(['raise', 'raise', 'partial']))
    fresh = itertools.count(0)
    reusable, stored = [], []
    for _ in range(rng.choice([0, 1, 1, 2, 3])):
        t = rand_tree(s, rng, fresh, reusable, rng.randint(0, 2))
        if t == 'bad':
            continue
        s.history.append({'op': 'store', 't': t})
        stored.append(t)
    used = sorted({i for t in stored for i, _ in ids_in(s.objs, t)})
    r = rng.random()
    if stored and r < 0.15:
        victim = rng.choice(used)
        s.history.append({'op': 'delete', 'id': victim})
    elif stored and r < 0.4:
        # delete a stored root nothing refers to, then (mostly) store that identifier again: the same object, or
        # another object with the same identifier over objects that are still cached
        refd = {i for t in stored for i, _ in ids_in(s.objs, t)[1:]}
        tops = [t for t in stored if s.objs[str(t)]['id'] not in refd]
        if tops:
            t = rng.choice(tops)
            s.history.append({'op': 'delete', 'id': s.objs[str(t)]['id']})
            q = rng.random()
            if q < 0.4:
                s.history.append({'op': 'store', 't': t})
            elif q < 0.8:
                o = s.objs[str(t)]
                s.history.append({'op': 'store', 't': s.obj(o['id'], o['kids'][:rng.randint(0, len(o['kids']))],
                                                          shape=rng.randint(0, 1))})
                reusable.append(s.n)
    cleared = rng.random() < 0.25
    if cleared:
        s.history.append({'op': 'clear', 'how': 'reopen'} if rng.random() < 0.4 else {'op': 'clear'})
        reusable = []
    mode = rng.choice(['overwrite', 'overwrite', 'store', 'store', 'delete', 'malformed'])
    if mode == 'delete' and used:
        return s.case({'op': 'delete', 'id': rng.choice(used + [next(fresh)])}, 'rand delete')
    bad = 0.15 if mode == 'malformed' else 0.0
    clash = used if (mode == 'malformed' or (cleared and rng.random() < 0.3)) else ()
    kids = [rand_tree(s, rng, fresh, reusable, rng.randint(0, 2), bad, clash) for _ in range(rng.choice([0, 1, 2, 2, 3]))]
    if mode in ('overwrite', 'malformed') and used and rng.random() < 0.7:
        ident = rng.choice(used)
    else:
        ident = next(fresh)
    root = s.obj(ident, kids, [rng.random() < 0.4 for _ in kids], rng.randint(0, 1))
    return s.case({'op': 'store' if mode == 'store' else 'overwrite', 't': root}, 'rand ' + mode)


def add_post(case, rng):
    """a follow-up operation on the same PulseStorage after the (failed) final operation: store a new root that
    contains the object of the final operation, or repeat the final operation"""
    f = case['final']
    if 't' not in f:
        return case
    if rng.random() < 0.7:
        tag = str(max(int(t) for t in case['objs']) + 1)
        case['objs'][tag] = {'id': 40, 'payload': 900 + int(tag), 'kids': [f['t']], 'shape': rng.randint(0, 1),
                             'wrap': [rng.random() < 0.5]}
        case['post'] = {'op': 'store', 't': int(tag)}
    else:
        case['post'] = dict(f)
    return case


KILL_SHARE = {'quick': 0.2, 'thorough': 0.2}
RAISE_CAP = {'quick': 24, 'thorough': None}     # see c11_impl.select_positions
LOWLEVEL_SHARE = {'quick': 0.06, 'thorough': 0.1}


def gen_cases(rng, tier, ctx):
    cases = _gen_cases(rng, tier, ctx)
    for c in cases:
        c['tier'] = tier
        if not c.pop('fixed_post', False) and rng.random() < 0.4:
            add_post(c, rng)
        fam = c['note'].split()[0]
        # kill runs (a copy of the directory at every position, the process really killed at some) on a share of the cases
        c['kill'] = c['backend'] != 'dict' and (rng.random() < KILL_SHARE[tier] or c['note'] in ('cycle', 'enum delete')
                                                or fam == 'lowlevel' or (fam in ('hist', 'ow', 'load') and rng.random() < 0.5)
                                                or (fam in ('share', 'names', 'cache') and rng.random() < 0.3))
        # read primitives as fault positions (exception semantics) on a share of the cases
        force_reads = c.pop('force_reads', False)
        c['reads'] = c['backend'] != 'dict' and (rng.random() < (0.25 if tier == 'quick' else 0.15) or force_reads)
        # the archive writer's own file object is proxied (every low-level write is a position) on a share of the zip cases
        c['lowlevel'] = c.get('lowlevel', False) or (c['backend'] in ('zip', 'czip') and rng.random() < LOWLEVEL_SHARE[tier])
        # what reaches the disk when the process stops: nothing that was only handed to python file objects
        # ('noflush'), all of it ('flush'), only the data of the file opened last / first ('flush-last' / 'flush-first')
        c['kill_modes'] = rng.choice([['flush'], ['flush'], ['noflush'], ['noflush'], ['flush-last'], ['flush-first']]
                                     + ([['noflush', 'flush'], ['flush-first', 'flush-last']] if tier == 'thorough' else []))
    return cases


def _gen_cases(rng, tier, ctx):
    cases = []
    backends = ['dict', 'fs', 'zip']
    # small-scope enumeration
    maxk = 2 if tier == 'quick' else 3
    combos = []
    nenum = 0
    for n in range(0, maxk + 1):
        combos.extend(itertools.product(KID_MENU, repeat=n))
    for kk in combos:
        for rm in ROOT_MODES:
            for cleared in (False, True):
                for preset in (0, 1, 2):
                    if preset == 0 and (cleared or rm != 'store_fresh'):
                        continue
                    # thorough (trimmed in round 5 to fit ~25 min): child lists of length <= 1 on every backend, every
                    # list of length 2 on one backend in rotation (+ 10 % of the other two), 2 % of the lists of length 3
                    keep = 1.0 if tier == 'thorough' and len(kk) <= 2 else (0.16 if tier == 'quick' else 0.02)
                    if len(kk) <= 1 and tier == 'quick':
                        keep = 0.6
                    nenum += 1
                    # operations that are rejected before the first write are cheap but dominate the product space
                    prewrite = (rm == 'store_used' or 'usedid' in kk or 'bad' in kk
                                or (cleared and any(x.startswith('cached') for x in kk))
                                or (rm == 'overwrite_cached1' and 'cached1' not in kk and False))
                    if prewrite and not (tier == 'thorough' and len(kk) <= 2):
                        keep *= 0.25
                    for jb, b in enumerate(backends):
                        # (a put into the archive copies the archive: the zip cases cost three times the others)
                        rot = 0.1 if tier == 'thorough' and len(kk) == 2 and jb != nenum % 3 else 1.0
                        if rng.random() < rot * keep * (0.7 if b == 'zip' and tier == 'quick' and len(kk) == 2 else 1.0):
                            cases.append(enum_case(b, preset, rm, list(kk), cleared,
                                                   'partial' if rng.random() < 0.3 else 'raise'))
    # deletes on the preset storage
    for b in backends + ['cfs']:
        for preset in (1, 2):
            for victim in (0, 1, 2, 3, 9):
                c = enum_case(b, preset, 'store_fresh', [], False)
                c['final'] = {'op': 'delete', 'id': victim}
                c['note'] = 'enum delete'
                cases.append(c)
    for b in backends:
        for variant in range(4 if tier == 'thorough' else 2):
            cases.append(cycle_case(b, variant))
    # caching wrapper around the directory backend
    for kk in (['newleaf'], ['newtree', 'cached1'], ['cached2', 'newleaf']):
        for rm in ('store_fresh', 'overwrite_cached0'):
            cases.append(enum_case('cfs', 1, rm, kk, False))
    # round 3 families (deterministic)
    perms = list(itertools.permutations(range(3)))
    j = 0
    for shape in ('chain', 'fork'):
        for mode in ('store', 'overwrite'):
            for perm in perms:
                for b in (backends if tier == 'thorough' else [backends[j % 3]]):
                    cases.append(order_case(b, perm, shape, mode, 'partial' if j % 4 == 3 else 'raise'))
                j += 1
    for b in backends + ['cfs']:
        for variant in range(N_HIST):
            cases.append(hist_case(b, variant, 'partial' if (variant + len(b)) % 3 == 0 else 'raise'))
    cases.extend(overwrite_existing_cases(backends + ['cfs'], rng))
    cases.extend(lowlevel_cases(tier))
    cases.extend(same_object_cases(backends + ['cfs']))
    cases.extend(load_cases(backends + ['cfs']))
    # round 4 families
    cases.extend(open_failure_cases(tier))
    cases.extend(spelling_cases(['fs', 'zip', 'cfs', 'dict'], tier))
    cases.extend(share_cases(backends, tier))
    cases.extend(dag_enum_cases(backends, rng, tier))
    cases.extend(caching_cases(tier))
    cases.extend(registry_cases(backends + ['cfs']))
    cases.extend(nest_cases(backends, tier))
    # random templates on random storages
    for _ in range({'quick': 150, 'thorough': 800}[tier]):
        cases.append(rand_case(rng, rng.choice(backends)))
    return cases


# ---------------------------------------------------------------------------------------------------------------------
# bookkeeping, Python mirror of the specification (used for the `why` text, classification and the search)

def nontrivial(case, obs):
    if 'crashes' not in obs:
        return False
    return len(obs['crashes']) >= 2 or obs['outcome'] in ('clash', 'unser')


def _kill_positions(obs):
    return len(obs['kills'][0]) if obs.get('kills') else 0


def histogram_keys(case, obs):
    keys = ['backend:' + case['backend'], 'final:' + case['final']['op'], 'fault:' + case.get('fault', 'raise'),
            'followup:' + (case['post']['op'] if case.get('post') else 'none'),
            'read_positions:' + ('yes' if case.get('reads') else 'no'),
            'lowlevel_positions:' + ('yes' if case.get('lowlevel') else 'no')]
    hops = [h['op'] for h in case['history']]
    if 'delete' in hops and any(o in ('store', 'overwrite') for o in hops[hops.index('delete'):]):
        keys.append('history:delete-then-store')
    if 'load' in hops:
        keys.append('history:load-caches-new-objects')
    if any(h.get('how') == 'reopen' for h in case['history']):
        keys.append('history:new-PulseStorage-object-takes-over')
    if case.get('kill') and case['backend'] != 'dict':
        keys.append('kill_flush_mode:' + '+'.join(case.get('kill_modes', [])))
    if 'crashes' in obs:
        n = len(obs['crashes'])
        keys.append('outcome:' + obs['outcome'])
        keys.append('crash_positions:' + ('0' if n == 0 else '1' if n == 1 else '2-4' if n <= 4 else '5-9' if n <= 9 else '10+'))
        if len([c for c in obs['crashes'] if not c.get('natural')]) < len(obs['trace']):
            keys.append('raise_positions:selected-subset')
        for c in obs['crashes']:
            if c.get('natural'):
                keys.append('failure_from_the_environment:%s:%s' % (c['natural'], c['prim']))
        if case.get('names'):
            keys.append('identifier_spelling:special')
        keys.append('stored_before:%d' % min(len(obs['before']['entries']), 6))
        # round 5 (audit): cases on which check_spec says nothing (outside the quantifier of the property)
        if obs['before']['missing'] or not all(e[2] for e in obs['before']['entries']):
            keys.append('spec:vacuous:storage-broken-before-the-operation')
        elif case['final']['op'] == 'delete' and any(e[1] and case['final']['id'] in e[1][1] for e in obs['before']['entries']):
            keys.append('spec:vacuous:delete-of-a-referenced-entry')
        else:
            keys.append('spec:judged')
        for p in set(obs['trace']):
            keys.append('prim:' + p)
        nk = _kill_positions(obs)
        keys.append('kill_positions:' + ('none' if not obs.get('kills') else '0' if nk == 0 else '1-4' if nk <= 4
                                         else '5-9' if nk <= 9 else '10+'))
        for p in set(obs.get('ktrace', [])):
            keys.append('killpos:' + p)
        if any(c['leftovers'] for seq in obs.get('kills', []) for c in seq):
            keys.append('kill:temp-file-left-behind')
        nreal = sum(1 for seq in obs.get('kills', []) for c in seq if c.get('real_kill'))
        if nreal:
            keys.append('kill:process-really-killed-at-%s-positions' % ('1-2' if nreal <= 2 else '3+'))
    else:
        keys.append('obs:crash')
    if case['note'].split()[0] in ('enum', 'order', 'hist', 'ow', 'lowlevel', 'same', 'load', 'open', 'names', 'share',
                                   'dag', 'cache', 'registry', 'nest'):
        keys.append('stream:' + case['note'].split()[0])
    elif case['note'].startswith('corpus'):
        keys.append('stream:corpus')
    else:
        keys.append('stream:' + case['note'])
    return keys


def _doc_of(objs, tag):
    o = objs[str(tag)]
    return [o['payload'], [objs[str(k)]['id'] for k in o['kids'] if k != 'bad']]


def _consistent(case):
    f = case['final']
    if 't' not in f:
        return True
    seen = {}
    for ident, tag in ids_in(case['objs'], f['t']):
        d = _doc_of(case['objs'], tag)
        if seen.setdefault(ident, d) != d:
            return False
    return True


def _has_cycle(obs):
    """some observed state of the final operation has a reference cycle although the storage had none before"""
    def cyc(o):
        g = {e[0]: (e[1][1] if e[1] else []) for e in o['entries']}
        state = {}

        def visit(n):
            if state.get(n) == 1:
                return True
            if state.get(n) == 2 or n not in g:
                return False
            state[n] = 1
            r = any(visit(m) for m in g[n])
            state[n] = 2
            return r
        return any(visit(n) for n in g)
    return not cyc(obs['before']) and any(cyc(o) for o in [obs['after']] + [c['obs'] for c in obs['crashes']])


def spec_failures(case, obs):
    """list of (where, clause, detail) — mirror of Corr.check_spec"""
    if 'crashes' not in obs:
        return [('run', 'crash', str(obs))]
    before = {e[0]: e[1] for e in obs['before']['entries']}
    if 'view2' in obs['before']:
        return [('before the operation', 'v', 'the caching wrapper and the directory differ after the history')]
    if obs['before']['missing'] or not all(e[2] for e in obs['before']['entries']):
        return []
    f = case['final']
    if f['op'] == 'delete' and any(d and f['id'] in d[1] for d in before.values()):
        return []
    new = {}
    if 't' in f:
        for ident, tag in ids_in(case['objs'], f['t']):
            new.setdefault(ident, []).append(_doc_of(case['objs'], tag))
    out = []

    def ok(where, o, wb):
        if 'view2' in o:
            # the caching wrapper object shows something else than the directory / archive it wraps: the clauses
            # must hold for what IT shows as well (and the model has one content only: no correspondence)
            out.append((where, 'v', 'the caching wrapper shows %s, the directory / archive holds %s' % (
                o['view2']['entries'], o['entries'])))
            ok(where + ' [through the caching wrapper]', o['view2'], wb)
        cur = {e[0]: e[1] for e in o['entries']}
        if o['missing']:
            out.append((where, 'a', 'the archive file is missing or not a readable archive'))
        for e in o['entries']:
            if not e[2]:
                out.append((where, 'a', 'n%d is listed but does not load (document %s)' % (e[0], e[1])))
        for i, d in before.items():
            if i in cur and cur[i] == d and d is not None:
                continue
            if i in cur and cur[i] is not None and cur[i] in new.get(i, []):
                continue
            if i not in cur and f['op'] == 'delete' and f['id'] == i:
                continue
            out.append((where, 'b', 'n%d held %s before, now %s%s' % (
                i, d, cur.get(i, 'nothing'), ' (archive file missing)' if o['missing'] else '')))
        if wb == 0 and (o['missing'] or {k: v for k, v in cur.items()} != before):
            out.append((where, 'c', 'failure before the first write changed the storage'))
    ok('no-failure run', obs['after'], None)
    for c in obs['crashes']:
        where = 'failure at primitive %d (%s%s)' % (c['k'], c['prim'], ', %s from the operating system, nothing '
                                                    'injected' % c['natural'] if c.get('natural') else '')
        ok(where, c['obs'], c['wb'])
        if case.get('post'):
            for e in c['post']['entries'] + c['post'].get('view2', {}).get('entries', []):
                if not e[2]:
                    out.append((where + ', then %s' % case['post']['op'], 'a',
                                'n%d is listed but does not load after the follow-up operation (document %s)' % (e[0], e[1])))
            if 'view2' in c['post']:
                out.append((where + ', then %s' % case['post']['op'], 'v', 'the caching wrapper and the directory differ'))
    for seq in obs.get('kills', []):
        for c in seq:
            where = 'process killed before position %d (%s, %s)' % (c['k'], c['prim'], c['mode'])
            ok(where, c['obs'], c['wb'])
            if case.get('post'):
                if c['post']['missing']:
                    out.append((where + ', then %s by a new process' % case['post']['op'], 'a',
                                'the archive file is missing or not a readable archive'))
                for e in c['post']['entries']:
                    if not e[2]:
                        out.append((where + ', then %s by a new process' % case['post']['op'], 'a',
                                    'n%d is listed but does not load (document %s)' % (e[0], e[1])))
    if case.get('post') and all(e[2] for e in obs['after']['entries']):
        for e in obs['after_post']['entries'] + obs['after_post'].get('view2', {}).get('entries', []):
            if not e[2]:
                out.append(('no-failure run, then follow-up', 'a', 'n%d is listed but does not load' % e[0]))
    if 'view2' in obs.get('after_post', {}):
        out.append(('no-failure run, then follow-up', 'v', 'the caching wrapper and the directory differ'))
    if obs['outcome'] != 'ok':
        if {e[0]: e[1] for e in obs['after']['entries']} != before:
            out.append(('no-failure run', 'c', 'operation raised %s but changed the storage' % obs['outcome']))
    return out


# classification (exact): `finding_of` in Corr.v decides, for a case the specification rejects, whether the
# implementation behaved exactly as the model of the repaired code predicts AND some operation of the case is outside
# guard2_exact in the state it starts in (round 4: the exact guard - clause (a) fails at some interruption point of the
# model iff the operation is outside it, clauses (b), (c) need no guard: C11_repaired_crash_safe_exact).
# It is evaluated in Coq, in one batch for all rejected cases of a run (collected by py_spec, which runs first).
FINDINGS = {2: 'overwrite-creates-cycle'}      # (1 = dup-id-in-transaction: repaired in round 4, repo a5bca40)
_PENDING = {}
_FINDING = {}


def _key(case, obs):
    return vlib.canonical_hash([case, obs])


def _eval_findings(extra):
    todo = dict(_PENDING)
    todo.update(extra)
    _PENDING.clear()
    todo = {k: t for k, t in todo.items() if k not in _FINDING}
    if not todo:
        return
    keys = sorted(todo)
    workdir = os.path.join(vlib.BUILD, 'c11_classify.%d' % os.getpid())
    try:
        for start in range(0, len(keys), 120):
            chunk = keys[start:start + 120]
            try:
                txt = vlib.coq_eval(workdir, CORR_IMPORTS, 'map finding_of [%s]' % ';\n'.join(todo[k] for k in chunk))
                codes = [int(x) for x in re.findall(r'(\d+)(?:%N)?', txt)]
            except Exception:
                codes = []
            if len(codes) != len(chunk):
                codes = [0] * len(chunk)        # fail closed: not attributed to any known finding
            for k, cd in zip(chunk, codes):
                _FINDING[k] = cd
    finally:
        vlib.rmtree(workdir)


def py_spec(case, obs):
    fl = spec_failures(case, obs)
    if fl:
        if 'crashes' in obs:
            _PENDING[_key(case, obs)] = to_coq(case, obs)
        return '; '.join('%s: (%s) %s' % x for x in fl[:3])
    return None


def classify(case, obs):
    fl = spec_failures(case, obs)
    if not fl or 'crashes' not in obs:
        return None
    k = _key(case, obs)
    if k not in _FINDING:
        _eval_findings({k: to_coq(case, obs)})
    return FINDINGS.get(_FINDING.get(k, 0))


def shrink(case, obs, ctx):
    """drop history operations / children while the specification still fails with the same classification"""
    target = classify(case, obs)
    cur, cur_obs = case, obs
    progress = True
    while progress:
        progress = False
        cands = []
        for j in range(len(cur['history'])):
            if cur['history'][j]['op'] == 'load':
                continue        # objects of later operations are the ones a load created
            c = copy.deepcopy(cur)
            del c['history'][j]
            cands.append(c)
        if 't' in cur['final']:
            for tag, o in cur['objs'].items():
                for j in range(len(o['kids'])):
                    c = copy.deepcopy(cur)
                    del c['objs'][tag]['kids'][j]
                    del c['objs'][tag]['wrap'][j]
                    cands.append(c)
        for c in cands:
            o = run_impl(c)
            if spec_failures(c, o) and classify(c, o) == target and 'crashes' in o:
                cur, cur_obs, progress = c, o, True
                break
    return cur, cur_obs


def search_failing(ctx, broken):
    """the specification alone against the implementation on the enumerated + random stream"""
    import random
    known, _ = vlib.load_known_findings()
    known = known.get(PID, {})
    rng = random.Random(12345)
    cases = gen_cases(rng, 'quick', ctx)
    near = ctx.get('near')
    if near:
        cases.sort(key=lambda c: (c['backend'] != near['backend'], c['final']['op'] != near['final']['op']))
    failing = []
    for c in cases[:700]:
        o = run_impl(c)
        fl = spec_failures(c, o)
        if fl:
            failing.append((c, o, fl))
            if 'crashes' in o:
                _PENDING[_key(c, o)] = to_coq(c, o)
    for c, o, fl in failing:
        if classify(c, o) not in known:
            return c, o, '%s: (%s) %s' % fl[0]
    return None


MANIFEST = {
    'level_text': 'Proof (Coq, unbounded in storage content, template size, crash position and history length) over a '
                  'step model of the three storage backends (dict / directory / zip) and of PulseStorage store / overwrite '
                  '/ delete with its transaction buffer as the code is now (encoder repaired in round 4, repo a5bca40: '
                  'model Repair.v): after every prefix of the primitive steps - whether the failing primitive raises and '
                  'the clean-up clauses run, or the process is killed and nothing else runs - every identifier holds its '
                  'old content or the document of a node of the stored template (C11_repaired_old_or_new_content) and '
                  'nothing changes before the first publishing step, WITHOUT ANY GUARD; "the archive exists and every '
                  'listed identifier loads recursively" holds at every interruption point IF AND ONLY IF the operation '
                  'passes the executable guard guard2_exact (C11_repaired_crash_safe_exact), which the cycle guard alone '
                  'implies for every template (C11_repaired_crash_safe); the hypotheses are an invariant of histories of '
                  'completed / failed / killed operations (C11_repaired_history_safe).  An un-serializable object anywhere in a '
                  'template whose named nodes are all new is rejected with the disk unchanged (C11_unserializable_rejected).  '
                  'Round 6, identifier clashes and un-serializable objects as statements about templates: every REACHABLE '
                  'reason for a rejection (on a path of new children from the root: an un-serializable object, a child '
                  'whose identifier is in the storage while the cache does not hold this very object under it, a child '
                  'carrying the identifier of the transaction root) makes overwrite / store answer an error with the disk '
                  'unchanged, for every template, storage content and cache (C11_defect_rejected); two different objects '
                  'under one identifier in a template whose named nodes below the root are new likewise '
                  '(C11_clash_rejected); a template without reachable defect, duplicate identifier and object inside '
                  'itself is accepted (C11_clean_accepted); for templates whose named nodes below the root are new this '
                  'is an equivalence (C11_rejected_iff).  These are statements about the MODEL of the encoder: that the '
                  'implementation rejects the same templates, and before the first backend call, rests on the '
                  'comparison with the model on every case (C11_error_before_write is definitional).  TESTED ONLY: '
                  'the CachingBackend wrapper; clause '
                  '"no partial trace before the first write" on the implementation side is judged at the first mutating '
                  'primitive only (later non-publishing positions through the state-sequence comparison with the model).  '
                  'The model is tied to /repo on every run by fault injection at every mutating (on a share of the cases '
                  'also reading, and low-level archive-writer) primitive of the real backends, by failures produced by '
                  'the operating system itself (EMFILE at every opening primitive, ENAMETOOLONG / ENOENT for identifiers '
                  'the file system refuses), by kill runs (directory copied before every position, the process really '
                  'killed at sampled positions, several flush modes, observation and follow-up operation by new objects) '
                  'and a follow-up operation after every failure.',
    'level_note': 'Proof for the three clauses at backend-failure / crash positions; one known finding: '
                  'overwrite-creates-cycle (a stale cached object lets a completed overwrite close a reference cycle; '
                  'C11_repaired_cycle_refuted), excluded by guard2_cycle / guard2_exact; the exact guard is necessary and '
                  'sufficient for clause (a), so nothing else is excluded; `classify` attributes a rejected case to the '
                  'finding only when the implementation behaved as the model, an operation is outside guard2_exact, every '
                  'clause but loadability holds and the unloadable state is present and closed (a cycle).  31 of the 53 '
                  'theorems are about the model of the code BEFORE the round-4 repair (kept as the record of why the '
                  'repairs were needed).  dup-id-in-transaction was REPAIRED in round 4.  The model answers EClash for an '
                  'object met inside itself (impossible for immutable template trees).  Templates in the tests: '
                  'ConstantPT / FunctionPT / SequencePT / RepetitionPT only.  Only the order of system calls is modelled '
                  '(no fsync / power-loss reordering); failures / kills happen at hooked positions only; temporary files a '
                  'killed process leaves behind are never listed and never cleaned (not a clause of the property).  '
                  'Trusted: Coq kernel, the harness fault injector / state restore / directory-copy kill runs (each '
                  'cross-checked on samples) and document parser, CPython os / zipfile, atomicity of os.replace.',
    'technique': 'Coq proof (induction over the primitive step list, the transaction buffer and the template; rank / '
                 'pigeonhole argument for recursive loadability; registry invariant of the repaired encoder; boundary '
                 'lemma "every prefix of the buffer is visible at some interruption point" for exactness; invariant '
                 'over histories) + fault-injection, environment-failure and kill-run correspondence check',
    'design_ref': 'DESIGN.md §5 C11',
}
