"""C14 helpers (round 3): operands of every Python type for the dispatch model, numeric-hash cases, binary64 round trip,
deterministic families for the input classes the random generator hits only by luck."""
import decimal
import fractions
import math

import vlib
from vlib import gbool

F = fractions.Fraction
_BIG = 1 << 16


def _lit(n):
    """integer literal; big ones in hexadecimal (Coq reads a 320-digit decimal literal in ~0.5 s, the hexadecimal form in
    ~20 ms: the decimal reader is quadratic) -- this was 2/3 of the quick tier's run time"""
    return '%d' % n if -_BIG < n < _BIG else ('-0x%x' % -n if n < 0 else '0x%x' % n)


def gZ(n):
    return '(%s)%%Z' % _lit(int(n))


def gQ(x):
    f = vlib.to_fraction(x)
    return '(%s # %s)' % (_lit(f.numerator), _lit(f.denominator))

DISP_OPS = ['add', 'sub', 'mul', 'div', 'floordiv', 'mod']
EXACT_KINDS = ['time', 'mpq', 'Fraction', 'sympy.Rational', 'MyFrac', 'int', 'bool', 'np.int64', 'np.int8', 'np.uint8',
               'mpz', 'sympy.Integer', 'np.bool_']
REAL_KINDS = ['float', 'np.float64', 'np.float32', 'np.float16', 'np.longdouble', 'mpfr', 'sympy.Float']
OTHER_KINDS = ['Decimal', 'str', 'opaque', 'reflects', 'array']

DECIMAL_TEXTS = ['0.1', '2.5', '-0.75', '3', '1e23', '10000000000000000000000.5', '0.1000000000000000000001', '1e-7',
                 '123456789.123456789123456789', '-7', '0.5', '1E+2']
STR_TEXTS = ['0.5', '1/3', '3', 'abc', '1e23', '-2.25', '7/2', '', ' 4 ', '0x10', '1e-3', 'nan', 'inf', '1_0']
OPAQUE = ['None', 'complex', 'list', 'object']


class MyFrac(F):
    """a subclass of Fraction: not listed in _converter (exact type lookup), reaches the duck-typing branch"""


def special_floats():
    """deterministic families: integral floats beyond 2^53 (their repr is not their exact value), powers of ten around
    the tie 1e23, huge / tiny exponents, subnormals, binade boundaries"""
    out = [1e22, 1e23, 1e24, 1e25, 2.1e23, 3 * 2.0 ** 80, 1e300, -1e23, 2.0 ** 53, 2.0 ** 53 + 2, 2.0 ** 54 + 4, 9007199254740993.0,
           1.7976931348623157e308, 2.0 ** 1023, 5e-324, 1e-323, 2.2250738585072014e-308, 2.225073858507201e-308,
           2.0 ** -1022, 2.0 ** -1074, 4.9406564584124654e-324, 1e-300, 8.98846567431158e307, 0.1, 0.5, 1 / 3, 2 / 3,
           0.30000000000000004, 1e16, 1e15 + 0.5, 4503599627370496.5, 4503599627370497.5, 123456789012345680.0]
    for k in (17, 22, 23, 24, 29, 35, 60, 100, 200, 300):
        out += [float(10 ** k), -float(10 ** k), float(3 * 10 ** k), float(10 ** k + 10 ** (k - 3))]
    for k in (53, 54, 60, 80, 200, 1000):
        out += [2.0 ** k, 2.0 ** k + 2.0 ** (k - 52), math.nextafter(2.0 ** k, 0.0)]
    return out


def rnd_float64(rng):
    r = rng.random()
    if r < 0.3:
        return rng.choice(special_floats())
    if r < 0.5:
        return float(rng.randint(2 ** 53, 2 ** 90)) * rng.choice([1, -1])       # integral, > 2^53
    if r < 0.7:
        return rng.uniform(-1, 1) * 10.0 ** rng.randint(-300, 300)             # huge exponents
    if r < 0.85:
        return round(rng.uniform(-100, 100), rng.randint(0, 6))
    return math.ldexp(rng.random(), rng.randint(-1074, -1000))                 # subnormal range


def rnd_pyval(rng, kind=None):
    k = kind or rng.choice(EXACT_KINDS + REAL_KINDS * 2 + OTHER_KINDS)
    if k in ('time', 'mpq', 'Fraction', 'sympy.Rational', 'MyFrac'):
        q = rng.choice([F(rng.randint(-60, 60), rng.randint(1, 24)), F(rng.randint(-10 ** 12, 10 ** 12), rng.randint(1, 10 ** 9)),
                        F(rng.randint(-5, 5)), F(1, 2), F(-3, 2), F(0)])
        return {'k': k, 'v': str(q)}
    if k in ('int', 'mpz', 'sympy.Integer'):
        return {'k': k, 'v': str(rng.choice([rng.randint(-20, 20), rng.randint(-10 ** 30, 10 ** 30), 2 ** 53 + 1, 0, 10 ** 23]))}
    if k == 'np.int64':
        return {'k': k, 'v': str(rng.choice([rng.randint(-20, 20), 2 ** 53 + 1, -2 ** 63, 2 ** 63 - 1, 0]))}
    if k == 'np.int8':
        return {'k': k, 'v': str(rng.randint(-128, 127))}
    if k == 'np.uint8':
        return {'k': k, 'v': str(rng.randint(0, 255))}
    if k in ('bool', 'np.bool_'):
        return {'k': k, 'v': rng.random() < 0.5}
    if k in REAL_KINDS:
        x = rnd_float64(rng)
        if rng.random() < 0.06:
            x = rng.choice([float('inf'), float('-inf'), float('nan')])
        if k in ('np.float32', 'np.float16') and math.isfinite(x) and rng.random() < 0.8:
            x = rng.choice([0.1, 2.5, -0.3, 1e-3, 1 / 3, 100.25, 6.1e-5, 65504.0, float(rng.randint(-2000, 2000)) / 8,
                            rng.uniform(-100, 100)])
        return {'k': k, 'v': float(x).hex()}
    if k == 'Decimal':
        return {'k': k, 'v': rng.choice(DECIMAL_TEXTS + [str(rng.randint(-999, 999)) + '.' + str(rng.randint(0, 10 ** 20))])}
    if k == 'str':
        return {'k': k, 'v': rng.choice(STR_TEXTS + [str(F(rng.randint(-50, 50), rng.randint(1, 9))), repr(rng.uniform(-5, 5))])}
    if k == 'opaque':
        return {'k': k, 'v': rng.choice(OPAQUE)}
    if k == 'array':
        return {'k': k, 'v': rng.choice([None, 'int', 'empty', '2d', '0d', 'obj'])}
    if k == 'reflects':
        return {'k': k, 'v': None}
    raise ValueError(k)


def pow_operand(kind, e, rng, as_base):
    """descriptor of an operand of the given Python type: the integer exponent e (as_base False) or a base (non-integral
    where the type allows it); None if the type cannot hold such a value"""
    if as_base:
        if kind in ('time', 'mpq', 'Fraction', 'sympy.Rational', 'MyFrac'):
            q = rng.choice([F(1, 3), F(-5, 2), F(7, 10), F(0), F(3, 4)])
            if q == 0 and e < 0:
                q = F(1, 3)
            return {'k': kind, 'v': str(q)}
        if kind in ('int', 'mpz', 'sympy.Integer', 'np.int64', 'np.int8'):
            return {'k': kind, 'v': str(rng.choice([-3, 2, 5, 7]))}
        if kind == 'np.uint8':
            return {'k': kind, 'v': str(rng.choice([2, 3, 200]))}
        if kind in ('bool', 'np.bool_'):
            return {'k': kind, 'v': True if e < 0 else rng.random() < 0.5}
        if kind in REAL_KINDS:
            x = rng.choice([0.1, 0.3, 2.5, -0.7, 1.5, 0.001] if kind not in ('np.float16',) else [0.5, 2.5, -0.75, 0.1])
            return {'k': kind, 'v': float(x).hex()}
        return None
    if kind in ('time', 'mpq', 'Fraction', 'sympy.Rational', 'MyFrac', 'int', 'mpz', 'sympy.Integer', 'np.int64', 'np.int8'):
        return {'k': kind, 'v': str(e)}
    if kind == 'np.uint8':
        return {'k': kind, 'v': str(abs(e))}
    if kind in ('bool', 'np.bool_'):
        return {'k': kind, 'v': e % 2 == 1}
    if kind in REAL_KINDS:
        return {'k': kind, 'v': float(e).hex()}
    return None


def pyobj(d):
    """the real Python object of the descriptor"""
    import numpy as np
    import sympy
    import gmpy2
    from qupulse.utils.types import TimeType
    k, v = d['k'], d['v']
    if k == 'time':
        q = F(v)
        return TimeType.from_fraction(q.numerator, q.denominator)
    if k == 'mpq':
        q = F(v)
        return gmpy2.mpq(q.numerator, q.denominator)
    if k == 'Fraction':
        return F(v)
    if k == 'MyFrac':
        return MyFrac(v)
    if k == 'sympy.Rational':
        q = F(v)
        return sympy.Rational(q.numerator, q.denominator)
    if k == 'int':
        return int(v)
    if k == 'mpz':
        return gmpy2.mpz(int(v))
    if k == 'sympy.Integer':
        return sympy.Integer(int(v))
    if k in ('np.int64', 'np.int8', 'np.uint8'):
        return getattr(np, k[3:])(int(v))
    if k == 'bool':
        return bool(v)
    if k == 'np.bool_':
        return np.bool_(v)
    if k == 'float':
        return float.fromhex(v)
    if k in ('np.float64', 'np.float32', 'np.float16', 'np.longdouble'):
        with np.errstate(all='ignore'):
            return getattr(np, k[3:])(float.fromhex(v))
    if k == 'mpfr':
        return gmpy2.mpfr(float.fromhex(v))
    if k == 'sympy.Float':
        return sympy.Float(float.fromhex(v))
    if k == 'Decimal':
        return decimal.Decimal(v)
    if k == 'str':
        return v
    if k == 'opaque':
        return {'None': None, 'complex': 1j, 'list': [1], 'object': object()}[v]
    if k == 'reflects':
        return sympy.Symbol('x')
    if k == 'custom':
        return custom_obj(v)
    if k == 'array':
        return {None: lambda: np.array([0.5, 2.0]), 'int': lambda: np.array([1, -2, 3]), 'empty': lambda: np.array([]),
                '2d': lambda: np.array([[0.1, 1.5], [2.0, -0.25]]), '0d': lambda: np.array(0.75),
                'obj': lambda: np.array([TimeType.from_fraction(1, 2), F(2, 3), 3], dtype=object)}[v]()
    raise ValueError(k)


def _g_pyfloat(x):
    if x is None or not math.isfinite(x):
        return 'None'
    return '(Some (%s, %s))' % (gQ(F(x)), gQ(F(repr(float(x)))))


def _try(fn, catch=(TypeError, ValueError, RuntimeError)):
    try:
        return True, fn()
    except catch:
        return False, None


def _g_ctor(o):
    """oracle for gmpy2.mpq(o) (gmpy2's behaviour, not qupulse's)"""
    import gmpy2
    try:
        r = gmpy2.mpq(o)
        return '(CtOk %s)' % gQ(F(int(r.numerator), int(r.denominator)))
    except TypeError:
        return 'CtTypeError'
    except Exception:
        return 'CtOther'


def g_pyval(d):
    """Gallina term of type Dispatch.pyval; the constructor follows the *actual type* of the object"""
    import sympy
    k, v = d['k'], d['v']
    o = pyobj(d)
    if k == 'time':
        return '(VTime %s)' % gQ(F(v))
    if k == 'mpq':
        return '(VMpq %s)' % gQ(F(v))
    if k == 'Fraction':
        return '(VFraction %s)' % gQ(F(v))
    if k == 'MyFrac':
        return '(VRatDuck %s)' % gQ(F(v))
    if k == 'sympy.Rational':
        if type(o) is sympy.Rational:
            return '(VSymRational %s)' % gQ(F(v))
        if isinstance(o, sympy.Integer):
            return '(VSymInteger %s)' % gZ(int(o))
        return '(VRatDuck %s)' % gQ(F(v))          # Half and friends
    if k == 'int':
        return '(VInt %s)' % gZ(int(v))
    if k == 'mpz':
        return '(VMpz %s)' % gZ(int(v))
    if k == 'sympy.Integer':
        return '(VSymInteger %s)' % gZ(int(v))
    if k in ('np.int64', 'np.int8', 'np.uint8'):
        return '(VNpInt %s)' % gZ(int(v))
    if k == 'bool':
        return '(VBool %s)' % gbool(bool(v))
    if k == 'np.bool_':
        return '(VNpBool %s)' % gbool(bool(v))
    if k == 'float':
        return '(VFloat %s)' % _g_pyfloat(float.fromhex(v))
    if k in REAL_KINDS:
        return '(VRealLike %s %s)' % (_g_ctor(o), _g_pyfloat(float(o)))
    if k == 'Decimal':
        fin = o.is_finite()
        return '(VDecimal %s %s %s)' % (gQ(F(o)), gZ(int(o)), _g_pyfloat(float(o)))
    if k == 'str':
        ok_i, i = _try(lambda: int(o))
        ok_f, f = _try(lambda: float(o))
        return '(VStr %s %s %s)' % (_g_ctor(o), '(Some %s)' % gZ(i) if ok_i else 'None',
                                    '(Some %s)' % _g_pyfloat(f) if ok_f else 'None')
    if k == 'opaque':
        return 'VOpaque'
    if k == 'reflects':
        return 'VReflects'
    if k == 'custom':
        fl = lambda h: _g_pyfloat(float.fromhex(h))
        duck = '(Some (%s, %s))' % (gZ(v['duck'][0]), gZ(v['duck'][1])) if v['duck'] else 'None'
        integral = '(Some %s)' % gZ(v['int']) if v['integral'] else 'None'
        real = '(Some %s)' % fl(v['float']) if v['real'] else 'None'
        as_int = '(Some %s)' % gZ(v['int']) if v['int'] is not None else 'None'
        as_float = '(Some %s)' % fl(v['float']) if v['float'] is not None else 'None'
        return '(VCustom (mkProbes CtTypeError %s %s %s false %s %s))' % (duck, integral, real, as_int, as_float)
    if k == 'array':
        return 'VArray'
    raise ValueError(k)


def observe_array_binop(op, t, arr, swap):
    """array operand: the result must be the array of the scalar results (numpy's reflected operator, element by element);
    the scalar operations themselves are checked by the other families"""
    import numpy as np
    elems = arr.ravel().tolist() if arr.ndim else [arr.item()]
    want, want_zero_div = [], False
    for x in elems:                      # the scalar results (a division by zero among them makes the array operation raise)
        try:
            want.append(op(x, t) if swap else op(t, x))
        except ZeroDivisionError:
            want_zero_div = True
        except Exception as e:
            return {'crash': 'scalar operation: %s: %s' % (type(e).__name__, str(e)[:100])}
    try:
        with vlib.time_limit(5):
            r = op(arr, t) if swap else op(t, arr)
    except vlib.Timeout:
        return {'hang': True}
    except ZeroDivisionError:
        return {'b': 'BReflected'} if want_zero_div else {'b': 'BZeroDiv'}
    except Exception as e:
        return {'crash': '%s: %s' % (type(e).__name__, str(e)[:100])}
    if want_zero_div:
        return {'crash': 'an element operation divides by zero but the array operation returned %r' % (r,)}
    got = list(np.asarray(r, dtype=object).ravel().tolist()) if isinstance(r, np.ndarray) else [r]
    if np.shape(r) != arr.shape:
        return {'crash': 'result shape %r for operand shape %r' % (np.shape(r), arr.shape)}
    try:
        if [vlib.to_fraction(x) for x in got] != [vlib.to_fraction(x) for x in want]:
            return {'crash': 'elementwise result %r differs from the scalar results %r' % (got, want)}
    except Exception as e:
        return {'crash': 'result element: %s' % e}
    return {'b': 'BReflected'}


def observe_binop(fn, reflecting=False):
    """-> JSON observation of a wrapped binary operation; reflecting: the other operand is a sympy expression whose own
    operator produced the result (0 * x is simplified to 0 by sympy: still the reflected operation)"""
    import sympy
    try:
        with vlib.time_limit(5):
            r = fn()
    except vlib.Timeout:
        return {'hang': True}
    except ZeroDivisionError:
        return {'b': 'BZeroDiv'}
    except TypeError:
        return {'b': 'BTypeError'}
    except AttributeError:
        return {'b': 'BAttrError'}
    except (ValueError, OverflowError):
        return {'b': 'BRaise'}
    except Exception as e:
        return {'crash': '%s: %s' % (type(e).__name__, str(e)[:100])}
    tn = type(r).__name__
    if isinstance(r, sympy.Basic):
        if reflecting:
            return {'b': 'BReflected'}
        if isinstance(r, sympy.Rational):
            return {'b': 'BVal', 'v': str(F(int(r.p), int(r.q)))}
        if r.free_symbols:
            return {'b': 'BReflected'}
        return {'crash': 'sympy result %s' % tn}
    if isinstance(r, float) or tn in ('mpfr', 'float64', 'float32', 'ndarray', 'longdouble'):
        return {'crash': 'inexact result type %s' % tn}
    try:
        return {'b': 'BVal', 'v': vlib.frac_json(r)}
    except Exception as e:
        return {'crash': 'result %s: %s' % (tn, e)}


def g_bres(o):
    if o['b'] == 'BVal':
        return '(BVal %s)' % gQ(F(o['v']))
    return o['b']


def float_me(x):
    """canonical (m, e) with x = m * 2^e as a binary64 number"""
    if x == 0:
        return 0, -1074
    m, e = math.frexp(x)
    m, e = int(m * 2 ** 53), e - 53
    if e < -1074:
        sh = -1074 - e
        assert m % (1 << sh) == 0
        m, e = m >> sh, -1074
    return m, e


def hash_obs(q):
    import gmpy2
    import sys
    from qupulse.utils.types import TimeType
    assert sys.hash_info.modulus == 2 ** 61 - 1 and sys.hash_info.inf == 314159
    o = {'time': hash(TimeType.from_fraction(q.numerator, q.denominator)), 'mpq': hash(gmpy2.mpq(q.numerator, q.denominator)),
         'frac': hash(q)}
    if q.denominator == 1:
        o['int'] = hash(int(q))
    d = q.denominator
    if d & (d - 1) == 0:           # dyadic: exactly a double?
        try:
            x = q.numerator / q.denominator
        except OverflowError:
            x = None
        if x is not None and F(x) == q:
            m, e = float_me(x)
            o['float'] = [m, e, hash(x)]
    return o


def hash_values(rng, n):
    P = 2 ** 61 - 1
    out = [F(0), F(1), F(-1), F(P), F(-P), F(P + 1), F(P - 1), F(1, P), F(-1, P), F(3, 2 * P), F(2 ** 61), F(-2), F(1, 2), F(-1, 2),
           F(P, 2), F(1, 3), F(-7, 10), F(2 ** 200), F(1, 2 ** 80), F(-5, 2 ** 1074), F(10 ** 23), F(2 ** 61 - 2), F(-(2 ** 61 - 2)),
           F(314159), F(P * 5, 7), F(7, P * 5)]
    for _ in range(n):
        r = rng.random()
        if r < 0.3:
            out.append(F(rng.randint(-60, 60), rng.randint(1, 24)))
        elif r < 0.5:
            out.append(F(rng.randint(-2 ** 70, 2 ** 70)))
        elif r < 0.7:
            out.append(F(rng.randint(-2 ** 53, 2 ** 53), 2 ** rng.randint(0, 200)))
        elif r < 0.8:
            out.append(F(rnd_float64(rng)))
        elif r < 0.9:
            out.append(F(rng.randint(-10 ** 20, 10 ** 20), rng.randint(1, 10 ** 20)))
        else:
            out.append(F(rng.randint(-5, 5) * P + rng.randint(-2, 2), rng.choice([1, 2, P, 3 * P, 7])))
    return out


# ---------------------------------------------------------------------------------------------------------------------
# round 4: comparison consistency on (rational, the float it rounds to) and tolerance grids with simple end points

def _fl(x):
    return {'ty': 'float', 'v': float(x).hex()}


def cons_pairs(rng, n):
    """(t, operand) pairs for the consistency family.  Deterministic part: non-dyadic rationals against the double they
    round to (and its two neighbours), the decimal value of a float against the float, integers beyond 2^53 against the
    double they round to, values too large for a double, the same against int / Fraction / time operands."""
    out = []
    rats = [F(1, 10), F(1, 3), F(2, 3), F(-1, 10), F(1, 7), F(22, 7), F(-5, 7), F(3, 10), F(7, 10), F(1, 100), F(123456789, 1000),
            F(1, 10 ** 7), F(10 ** 23), F(10 ** 22) + F(1, 3), F(2 ** 53 + 1), F(-(2 ** 53) - 1), F(2 ** 64 + 1, 3),
            F(1, 3 * 2 ** 1070), F(5, 10 ** 324), F(1, 10 ** 310), F(4, 10), F(1, 1000), F(314159, 100000)]
    rats += [F(i, 7) for i in range(-3, 10)] + [F(i, 10) for i in (1, 2, 3, 6, 7, 9, 11)]
    for q in rats:
        f = q.numerator / q.denominator            # the double q rounds to (correctly rounded int / int)
        for g in (f, math.nextafter(f, math.inf), math.nextafter(f, -math.inf)):
            out.append((q, _fl(g)))
        out.append((F(f), _fl(f)))                 # exactly the double: the equal case
        out.append((q, {'ty': 'frac', 'v': str(F(f))}))       # the same two values, exact operand types
        out.append((F(f), {'ty': 'time', 'v': str(q)}))
    for x in (0.1, 0.2, 0.3, 0.7, 1e23, 1e22, 4.35, 2.675, 1e-7, 5e-324, 1.7976931348623157e308, 123456.789, 1 / 3, 0.1 + 0.2, -0.1):
        out.append((F(repr(x)), _fl(x)))           # from_float(x) against x
        out.append((F(x), _fl(x)))
    for k in (0, 1, -1, 2 ** 53, 2 ** 53 + 1, 2 ** 53 + 2, 10 ** 23, -10 ** 23, 2 ** 64 - 1, 2 ** 1023):
        out.append((F(k), _fl(float(k))))          # integers against the double they round to
        out.append((F(k), {'ty': 'int', 'v': str(k)}))
        out.append((F(k) + F(1, 3), {'ty': 'int', 'v': str(k)}))
    for q in (F(10 ** 400), -F(10 ** 400), F(10 ** 400, 3), F(2 ** 1024), F(2 ** 1024) - F(1, 2)):      # float(t) overflows
        for x in (1.7976931348623157e308, -1.7976931348623157e308, 1.0, 0.1):
            out.append((q, _fl(x)))
    out.append((F(0), _fl(-0.0)))
    out.append((F(0), _fl(5e-324)))
    for _ in range(n):
        r = rng.random()
        if r < 0.5:                                # random non-dyadic rational against the double it rounds to
            q = F(rng.randint(-10 ** rng.randint(1, 18), 10 ** rng.randint(1, 18)), rng.choice([3, 7, 10, 100, 1000, 10 ** 9, 9, 11, 13]))
            f = q.numerator / q.denominator
            out.append((q, _fl(rng.choice([f, f, math.nextafter(f, math.inf), math.nextafter(f, -math.inf)]))))
        elif r < 0.75:                             # decimal value of a random float against the float
            x = rnd_float64(rng)
            out.append((F(repr(x)), _fl(x)))
        else:
            q = F(rng.randint(-60, 60), rng.randint(1, 24))
            out.append((q, rng.choice([{'ty': 'int', 'v': str(math.floor(q))}, {'ty': 'frac', 'v': str(q)},
                                       {'ty': 'time', 'v': str(q)}, _fl(q.numerator / q.denominator)])))
    return out


def _brute(lo_n, lo_d, hi_n, hi_d, qmax=10 ** 6):
    """fraction of smallest denominator strictly inside (lo, hi), integer arithmetic"""
    q = 1
    while q <= qmax:
        p = lo_n * q // lo_d + 1
        if p * hi_d < hi_n * q:
            return p, q
        q += 1
    return None


def simplest_in(x, e):
    lo, hi = x - e, x + e
    return _brute(lo.numerator, lo.denominator, hi.numerator, hi.denominator)


_GRID_CACHE = {}


def tol_grid(step, imax, jmax):
    """(x, tol) float pairs on the decimal grid x = i*step, tol = j*step whose answer depends on whether the interval is
    taken around the exact binary values (documented) or around the decimal values of the two floats: exactly the inputs
    where a small-denominator fraction sits on (or within 1e-17 of) an end point of the true interval."""
    key = (step, imax, jmax)
    if key not in _GRID_CACHE:
        out = []
        for i in range(0, imax + 1):
            x = float(F(i) * step)
            xb, xd = F(x), F(i) * step
            for j in range(1, jmax + 1):
                t = float(F(j) * step)
                tb, td = F(t), F(j) * step
                a = simplest_in(xb, tb)
                if a != simplest_in(xd, tb) or a != simplest_in(xb, td) or a != simplest_in(xd, td):
                    out.append((x, t))
        _GRID_CACHE[key] = out
    return _GRID_CACHE[key]


def dyadic_grid(k):
    """x = a/2^k, tol = b/2^k: both floats exact, both end points are small-denominator fractions themselves (the open
    interval excludes them)"""
    return [(a / 2 ** k, b / 2 ** k) for a in range(0, 2 ** (k + 1) + 1) for b in range(1, 2 ** k + 1)]


# ---------------------------------------------------------------------------------------------------------------------
# round 4: objects that give prescribed answers to the questions TimeType._try_from_any asks

_CUSTOM_CLASSES = {}


def custom_obj(spec):
    """spec: duck = None | [numerator, denominator, callable?]; integral / real: registered with numbers.Integral /
    numbers.Real; int: None (int(x) raises TypeError) | value; float: None (float(x) raises TypeError) | hex of the value"""
    import numbers
    key = (tuple(spec['duck']) if spec['duck'] else None, spec['integral'], spec['real'], spec['int'], spec['float'])
    if key not in _CUSTOM_CLASSES:
        ns = {'__slots__': ()}
        if spec['duck']:
            n, d, call = spec['duck']
            if call:
                ns['numerator'] = lambda self, n=n: n
                ns['denominator'] = lambda self, d=d: d
            else:
                ns['numerator'] = property(lambda self, n=n: n)
                ns['denominator'] = property(lambda self, d=d: d)
        if spec['int'] is not None:
            ns['__int__'] = lambda self, z=spec['int']: z
        if spec['float'] is not None:
            ns['__float__'] = lambda self, f=float.fromhex(spec['float']): f
        cls = type('Custom_%d' % len(_CUSTOM_CLASSES), (), ns)
        if spec['integral']:
            numbers.Integral.register(cls)
        if spec['real']:
            numbers.Real.register(cls)
        _CUSTOM_CLASSES[key] = cls
    return _CUSTOM_CLASSES[key]()


def custom_specs():
    """small-scope exhaustive: every combination of answers (consistent ones: a registered Integral answers int(), a
    registered Real answers float())"""
    out = []
    for duck in (None, [3, 4, False], [-7, 2, True], [5, -3, False]):
        for as_int in (None, 2, 7):
            for as_float in (None, 2.0, 2.5, 7.25, float('inf')):
                for integral in (False, True):
                    for real in (False, True):
                        if (integral and as_int is None) or (real and as_float is None):
                            continue
                        out.append({'duck': duck, 'integral': integral, 'real': real, 'int': as_int,
                                    'float': None if as_float is None else as_float.hex()})
    return out
