"""C01 — generator of template trees (JSON), helper evaluators.  All randomness from the rng argument.

JSON forms
  expr : ['c', 'p/q'] | ['v', name] | ['+', a, b] | ['-', a, b] | ['*', a, b]
         | ['q', 'p/q', form] | ['/', a, ['c', n]] | ['dv', a, name, 'p/q']        (decimal stream only, see c01_gen3)
  atom : {'k':'const','d':expr,'amps':[[ch,expr],..]} | {'k':'table','chs':[[ch,[[t,v,interp],..]],..]}
       | {'k':'point','entries':[[t,[v,..],interp],..],'chs':[ch,..]} | {'k':'multi','subs':[atom,..]}
       | {'k':'aarith','l':atom,'op':'+'|'-','r':atom} | {'k':'func','d':expr,'ch':ch,'a':expr,'b':expr}   (a + b*t)
  pt   : atom | {'k':'seq','subs':[..]} | {'k':'rep','n':expr,'body':pt} | {'k':'for','idx':name,'range':[e,e,e],'body':pt}
       | {'k':'map','pm':[[name,expr],..],'chm':[[ch,ch|None],..],'body':pt} | {'k':'rev','body':pt}
       | {'k':'par','body':pt,'ow':[[ch,expr],..]} | {'k':'arith','lhs':bool,'op':'+-*/','scalar':expr|{'map':[[ch,expr],..]},'body':pt}
"""
from fractions import Fraction as F

ATOMS = ('const', 'table', 'point', 'multi', 'aarith', 'func')
CHAN_POOL = ['A', 'B', 'C', 0, 1, 2]
INTERPS = ['hold', 'jump', 'linear']


def C(x):
    return ['c', str(F(x))]


def V(n):
    return ['v', n]


def ev(e, env):
    """exact value of an expression under env (name -> Fraction | None); None if it depends on an unknown"""
    k = e[0]
    if k in ('c', 'q'):          # ['q', 'p/q', form]: literal written as float / decimal string / fraction / TimeType (c01_gen3)
        return F(e[1])
    if k == 'v':
        return env.get(e[1])
    if k == 'dv':                # e / name; name is a top-level parameter with the exact value e[3] (c01_gen3, near-integer counts)
        a = ev(e[1], env)
        return None if a is None else a / F(e[3])
    a, b = ev(e[1], env), ev(e[2], env)
    if a is None or b is None:
        return None
    if k == '/':                 # division by an integer literal (c01_gen3)
        return a / b
    return a + b if k == '+' else a - b if k == '-' else a * b


def expr_vars(e, acc=None):
    acc = set() if acc is None else acc
    if e[0] == 'v':
        acc.add(e[1])
    elif e[0] == 'dv':
        expr_vars(e[1], acc)
        acc.add(e[2])
    elif e[0] not in ('c', 'q'):
        expr_vars(e[1], acc)
        expr_vars(e[2], acc)
    return acc


def free_params(n):
    """qupulse's parameter_names of the node"""
    k = n['k']
    s = set()
    if k == 'const':
        expr_vars(n['d'], s)
        for _, e in n['amps']:
            expr_vars(e, s)
    elif k == 'table':
        for _, es in n['chs']:
            for t, v, _ in es:
                expr_vars(t, s)
                expr_vars(v, s)
    elif k == 'point':
        for t, vs, _ in n['entries']:
            expr_vars(t, s)
            for v in vs:
                expr_vars(v, s)
    elif k in ('multi', 'seq'):
        for x in n['subs']:
            s |= free_params(x)
    elif k == 'aarith':
        s = free_params(n['l']) | free_params(n['r'])
    elif k == 'func':
        for e in (n['d'], n['a'], n['b']):
            expr_vars(e, s)
    elif k == 'rep':
        s = free_params(n['body']) | expr_vars(n['n'])
    elif k == 'for':
        s = free_params(n['body']) - {n['idx']}
        for e in n['range']:
            expr_vars(e, s)
    elif k == 'map':
        inner = free_params(n['body'])
        pm = dict((a, b) for a, b in n['pm'])
        for x in inner:
            if x in pm:
                expr_vars(pm[x], s)
            else:
                s.add(x)
    elif k == 'rev':
        s = free_params(n['body'])
    elif k == 'par':
        s = free_params(n['body'])
        for _, e in n['ow']:
            expr_vars(e, s)
    elif k == 'arith':
        s = free_params(n['body'])
        sc = n['scalar']
        if isinstance(sc, dict):
            for _, e in sc['map']:
                expr_vars(e, s)
        else:
            expr_vars(sc, s)
    return s


def node_kinds(n, acc=None):
    acc = [] if acc is None else acc
    acc.append(n['k'])
    for key in ('subs',):
        for x in n.get(key, []):
            node_kinds(x, acc)
    for key in ('body', 'l', 'r'):
        if key in n:
            node_kinds(n[key], acc)
    return acc


def depth(n):
    ds = [depth(x) for x in n.get('subs', [])] + [depth(n[k]) for k in ('body', 'l', 'r') if k in n]
    return 1 + (max(ds) if ds else 0)


def size(n):
    return len(node_kinds(n))


# ---------------------------------------------------------------------------------------------------------------------
class Ctx:
    def __init__(self, rng, env, ints, counter):
        self.rng = rng
        self.env = env          # name -> Fraction (fixed, known) | None (varies with a loop index)
        self.ints = ints        # names known to be integer valued (fixed or varying)
        self.counter = counter  # shared dict for fresh names

    def child(self, env=None, ints=None):
        return Ctx(self.rng, dict(self.env if env is None else env), set(self.ints if ints is None else ints),
                   self.counter)

    def fresh(self, prefix):
        self.counter[prefix] = self.counter.get(prefix, 0) + 1
        return '%s%d' % (prefix, self.counter[prefix])

    def fixed(self):
        return sorted(n for n, v in self.env.items() if v is not None)

    def varying(self):
        return sorted(n for n, v in self.env.items() if v is None)


def dyadic(rng, lo=-4, hi=4, den=4):
    return F(rng.randint(lo * den, hi * den), den)


def expr_for(ctx, target):
    """an expression over fixed names that evaluates exactly to `target`"""
    rng = ctx.rng
    names = ctx.fixed()
    r = rng.random()
    if not names or r < 0.4:
        return C(target)
    x = rng.choice(names)
    vx = ctx.env[x]
    if r < 0.7:
        return ['+', V(x), C(target - vx)] if rng.random() < 0.7 else ['-', C(target + vx), V(x)]
    if r < 0.85:
        c = rng.choice([F(1, 2), F(2), F(-1), F(1, 4)])
        return ['+', ['*', V(x), C(c)], C(target - vx * c)]
    y = rng.choice(names)
    if y == x:
        return ['+', V(x), C(target - vx)]
    return ['+', ['-', V(x), V(y)], C(target - vx + ctx.env[y])]


def value_expr(ctx, force=None):
    """(expr, value | None): a voltage expression; may use varying names; `force`: a name that must occur"""
    rng = ctx.rng
    if force is not None:
        c = rng.choice([F(1, 2), F(1), F(-1, 2), F(1, 4)])
        e = ['+', ['*', V(force), C(c)], C(dyadic(rng, -2, 2))]
        return e, ev(e, ctx.env)
    r = rng.random()
    names = sorted(ctx.env)
    if r < 0.35 or not names:
        e = C(dyadic(rng))
    elif r < 0.55:
        e = V(rng.choice(names))
    elif r < 0.8:
        e = ['+', ['*', V(rng.choice(names)), C(rng.choice([F(1, 2), F(2), F(-1), F(1, 4)]))], C(dyadic(rng, -2, 2))]
    else:
        a, b = rng.choice(names), rng.choice(names)
        e = [rng.choice(['+', '-', '*']) if a != b else rng.choice(['+', '*']), V(a), V(b)]
    return e, ev(e, ctx.env)


def gen_table_channel(ctx, dur, force=None, fixed_only=False, reach=False):
    """entries [[t, v, interp], ..] with last time <= dur (times on the 1/2 grid, fixed), exact linear slopes"""
    rng = ctx.rng
    n = rng.randint(1, 4)
    steps = int(dur * 2)
    pts = sorted(rng.randint(0, steps) for _ in range(n))
    if rng.random() < 0.6:
        pts[0] = 0
    if rng.random() < 0.6 or n == 1 or reach:
        pts[-1] = steps
        pts.sort()
    # entries at the final time: one, two (zero-length final hold / jump segment; proved equal to the denotation on the
    # closed interval) or - rarely - three (known finding `table-final-triple`: _validate_input drops the middle one)
    r = rng.random()
    max_final = 3 if r < 0.03 else 2 if r < 0.45 else 1
    while pts.count(pts[-1]) > max_final:
        del pts[-2]
    if pts.count(pts[-1]) >= 3:
        ctx.counter['final_triple'] = 1
    n = len(pts)
    entries = []
    prev_t, prev_v = None, None
    for j, k in enumerate(pts):
        t = F(k, 2)
        interp = rng.choice(INTERPS) if j > 0 else rng.choice(INTERPS)
        if j > 0 and t == prev_t and interp == 'linear':
            interp = rng.choice(['hold', 'jump'])
        if interp == 'linear' and j > 0:
            if prev_v is None:
                interp = 'hold'
        if interp == 'linear' and j > 0:
            v = prev_v + (t - prev_t) * F(rng.randint(-4, 4), 4) if rng.random() < 0.8 else prev_v
            ve = expr_for(ctx, v)
        elif force is not None and j == 0:
            ve, v = value_expr(ctx, force)
        elif fixed_only or rng.random() < 0.5:
            v = dyadic(rng) if rng.random() < 0.7 or prev_v is None else prev_v
            ve = expr_for(ctx, v)
        else:
            ve, v = value_expr(ctx)
        entries.append([expr_for(ctx, t), ve, interp])
        prev_t, prev_v = t, v
    if force is not None and len(entries) > 1 and entries[1][2] == 'linear':
        entries[1][2] = 'hold'
    return entries


def gen_atom(ctx, chans, dur, depth_left, force=None, allow=ATOMS):
    """an atom over exactly `chans` with (fixed) duration `dur` (> 0)"""
    rng = ctx.rng
    kinds = [k for k in allow if k in ('const', 'table', 'point')]
    if len(chans) == 1:
        kinds += [k for k in allow if k in ('func',)]
    if len(chans) >= 2 and depth_left > 0:
        kinds += [k for k in allow if k in ('multi',)]
    if depth_left > 0:
        kinds += [k for k in allow if k in ('aarith',)]
    k = rng.choice(kinds)
    if force is not None and k == 'point':
        k = 'table'
    if k == 'const':
        amps = []
        for j, ch in enumerate(chans):
            e, _ = value_expr(ctx, force if j == 0 else None)
            amps.append([ch, e])
        return {'k': 'const', 'd': expr_for(ctx, dur), 'amps': amps}
    if k == 'func':       # FunctionPT with the affine expression a + b*t (b = 0 sometimes: constant after substitution)
        a, _ = value_expr(ctx, force)
        slope = F(rng.choice([-4, -3, -2, -1, 0, 1, 2, 3, 4, 6]), 4)
        return {'k': 'func', 'd': expr_for(ctx, dur), 'ch': chans[0], 'a': a, 'b': expr_for(ctx, slope)}
    if k == 'table':
        chs = []
        full = rng.randrange(len(chans))
        for j, ch in enumerate(chans):
            es = gen_table_channel(ctx, dur, force if j == 0 else None, reach=(j == full))
            chs.append([ch, es])
        return {'k': 'table', 'chs': chs}
    if k == 'point':
        n = rng.randint(1, 4)
        steps = int(dur * 2)
        pts = sorted(set([steps] + [rng.randint(0, steps) for _ in range(n - 1)]))
        broadcast = rng.random() < 0.3
        entries = []
        prev = None
        for j, kk in enumerate(pts):
            t = F(kk, 2)
            interp = rng.choice(INTERPS)
            vs = []
            for _ in range(1 if broadcast else len(chans)):
                if interp == 'linear' and prev is not None:
                    vs.append(prev[1][len(vs)] + (t - prev[0]) * F(rng.randint(-4, 4), 4))
                else:
                    vs.append(dyadic(rng))
            entries.append([expr_for(ctx, t), [expr_for(ctx, v) for v in vs], interp])
            prev = (t, vs)
        return {'k': 'point', 'entries': entries, 'chs': list(chans)}
    if k == 'multi':
        cs = list(chans)
        rng.shuffle(cs)
        cut = rng.randint(1, len(cs) - 1)
        parts = [cs[:cut], cs[cut:]]
        if len(parts[1]) >= 2 and rng.random() < 0.3:
            parts = [parts[0], parts[1][:1], parts[1][1:]]
        subs = [gen_atom(ctx, p, dur, depth_left - 1, force if j == 0 else None, allow) for j, p in enumerate(parts)]
        return {'k': 'multi', 'subs': subs}
    # aarith: channel sets whose union is chans
    lch = [c for c in chans if rng.random() < 0.7] or [chans[0]]
    rch = [c for c in chans if c not in lch or rng.random() < 0.6] or [chans[-1]]
    for c in chans:
        if c not in lch and c not in rch:
            rch.append(c)
    return {'k': 'aarith', 'l': gen_atom(ctx, lch, dur, depth_left - 1, force, allow), 'op': rng.choice(['+', '-']),
            'r': gen_atom(ctx, rch, dur, depth_left - 1, None, allow)}


def int_expr(ctx, target):
    rng = ctx.rng
    names = [n for n in ctx.fixed() if n in ctx.ints]
    if names and rng.random() < 0.6:
        x = rng.choice(names)
        return ['+', V(x), C(target - ctx.env[x])] if ctx.env[x] != target or rng.random() < 0.5 else V(x)
    return C(target)


def gen_pt(ctx, chans, depth_left, force=None, kinds=None):
    """a template over exactly the channel list `chans`"""
    rng = ctx.rng
    comp = ['seq', 'rep', 'for', 'map', 'rev', 'par', 'arith'] if kinds is None else [k for k in kinds if k not in ATOMS]
    atoms = ATOMS if kinds is None else tuple(k for k in kinds if k in ATOMS)
    if depth_left <= 1 or not comp or rng.random() < 0.22:
        dur = F(rng.randint(1, 6), 2)
        if rng.random() < 0.06 and force is None:
            return {'k': 'const', 'd': expr_for(ctx, F(rng.choice([0, -1]))),
                    'amps': [[ch, C(1)] for ch in chans]}      # zero / negative duration: plays nothing
        return gen_atom(ctx, list(chans), dur, min(depth_left - 1, 2), force, atoms or ('const',))
    k = rng.choice(comp)
    d = depth_left - 1
    if k == 'seq':
        n = rng.choice([1, 2, 2, 3])
        return {'k': 'seq', 'subs': [gen_pt(ctx, chans, d, force if j == 0 else None, kinds) for j in range(n)]}
    if k == 'rep':
        cnt = rng.choice([0, 1, 1, 2, 2, 3])
        var = [n for n in ctx.varying() if n in ctx.ints]
        if var and rng.random() < 0.25:
            ne = V(rng.choice(var))      # a count that follows the loop index (may be <= 0)
        else:
            ne = int_expr(ctx, F(cnt))
        return {'k': 'rep', 'n': ne, 'body': gen_pt(ctx, chans, d, force, kinds)}
    if k == 'for':
        idx = ctx.fresh('i')
        if rng.random() < 0.15 and ctx.fixed():
            idx = rng.choice(ctx.fixed())       # the loop index shadows an enclosing parameter
        start = rng.randint(-2, 3)
        shape = rng.random()
        if shape < 0.15:
            stop, step = start + rng.choice([0, -1, -3]), rng.choice([1, 2])          # empty
        elif shape < 0.3:
            stop, step = start + 1, rng.choice([1, 3])                                 # single
        elif shape < 0.55:
            step = -rng.choice([1, 2])
            stop = start + step * rng.randint(1, 3) + rng.choice([0, 1])              # negative step
        else:
            step = rng.choice([1, 1, 2, 3])
            stop = start + step * rng.randint(1, 3) - rng.choice([0, 0, 1]) * (step > 1)
        inner = ctx.child()
        inner.env[idx] = None
        inner.ints.add(idx)
        body = gen_pt(inner, chans, d, idx, kinds)
        rexp = [int_expr(ctx, F(start)), int_expr(ctx, F(stop)), int_expr(ctx, F(step))]
        if force is not None:      # the enclosing loop's index must be used: let the range follow it
            rexp[0] = ['+', V(force), C(start)]
            rexp[1] = ['+', V(force), C(stop)]
        return {'k': 'for', 'idx': idx, 'range': rexp, 'body': body}
    if k == 'map':
        inner = ctx.child()
        pm = []
        for _ in range(rng.randint(0, 3)):
            if rng.random() < 0.25 and ctx.env:
                name = rng.choice(sorted(ctx.env))        # shadow / permute an outer name
            else:
                name = ctx.fresh('m')
            if any(name == a for a, _ in pm):
                continue
            if rng.random() < 0.5:
                tgt = rng.choice([F(1, 2), F(1), F(2), F(3), F(-1), F(3, 2)])
                e, val = expr_for(ctx, tgt), tgt
            else:
                e, val = value_expr(ctx)
            pm.append([name, e])
            inner.env[name] = val
            if val is not None and val.denominator == 1:
                inner.ints.add(name)
            else:
                inner.ints.discard(name)
        iforce = force
        if force is not None and rng.random() < 0.25:
            # the mapping REBINDS the loop-index name to an expression of itself (round 3: name coincidence)
            c, o = rng.choice([F(2), F(-1), F(1)]), rng.choice([F(0), F(1), F(-2)])
            pm = [[a, b] for a, b in pm if a != force]
            pm.append([force, ['+', ['*', V(force), C(c)], C(o)]] if rng.random() < 0.7 else [force, ['*', V(force), V(force)]])
            inner.env[force] = None
            inner.ints.add(force)
            ctx.counter['idx_rebound'] = 1
        elif force is not None:
            # the loop index must stay visible: route it through a mapped name (or keep it, if not shadowed)
            if force in [a for a, _ in pm] or rng.random() < 0.5:
                name = ctx.fresh('m')
                c = rng.choice([F(1), F(2), F(-1)])
                pm = [[a, b] for a, b in pm if a != force]
                inner.env[force] = ctx.env.get(force)
                pm.append([name, ['*', V(force), C(c)]])
                inner.env[name] = None
                inner.ints.add(name)
                iforce = name
        # channels: rename some, add a dropped extra channel sometimes
        pool = [c for c in CHAN_POOL + ['D', 3] if c not in chans]
        rng.shuffle(pool)
        chm, inner_chans = [], []
        perm = len(chans) >= 2 and rng.random() < 0.2
        if perm:                                  # permute the channel names
            inner_chans = list(chans)
            while inner_chans == list(chans):
                rng.shuffle(inner_chans)
            chm = [[ic, oc] for ic, oc in zip(inner_chans, chans)]
        for ch in ([] if perm else chans):
            if rng.random() < 0.4 and pool:
                ic = pool.pop()
                chm.append([ic, ch])
                inner_chans.append(ic)
            else:
                inner_chans.append(ch)
                if rng.random() < 0.2:
                    chm.append([ch, ch])
        if rng.random() < 0.3 and pool:
            ic = pool.pop()
            chm.append([ic, None])
            inner_chans.insert(rng.randint(0, len(inner_chans)), ic)
        body = gen_pt(inner, inner_chans, d, iforce, kinds)
        used = free_params(body)
        pm = [[a, b] for a, b in pm if a in used]
        return {'k': 'map', 'pm': pm, 'chm': chm, 'body': body}
    if k == 'rev':
        return {'k': 'rev', 'body': gen_pt(ctx, chans, d, force, kinds)}
    if k == 'par':
        if len(chans) >= 2 and rng.random() < 0.6:
            new = [c for c in chans if rng.random() < 0.4]
            if len(new) == len(chans):
                new = new[1:]
        else:
            new = []
        body_chans = [c for c in chans if c not in new]
        over = [c for c in body_chans if rng.random() < 0.3]
        keys = new + over
        if not keys:
            keys = [rng.choice(body_chans)]
        rng.shuffle(keys)
        ow = [[c, value_expr(ctx)[0]] for c in keys]
        return {'k': 'par', 'body': gen_pt(ctx, body_chans, d, force, kinds), 'ow': ow}
    # arith
    lhs = rng.random() < 0.6
    op = rng.choice(['+', '-', '*', '/'] if lhs else ['+', '-', '*'])

    def scal():
        if op == '/':
            tgt = rng.choice([F(2), F(1, 2), F(4), F(-2), F(1)])
            return expr_for(ctx, tgt)
        if op == '*':
            if rng.random() < 0.5:
                return expr_for(ctx, rng.choice([F(2), F(1, 2), F(-1), F(0), F(3, 2)]))
        return value_expr(ctx)[0]
    if rng.random() < 0.5:
        scalar = scal()
    else:
        sub = [c for c in chans if rng.random() < 0.6] or [chans[0]]
        scalar = {'map': [[c, scal()] for c in sub]}
    return {'k': 'arith', 'lhs': lhs, 'op': op, 'scalar': scalar, 'body': gen_pt(ctx, chans, d, force, kinds)}


def pt_channels(n):
    """defined channels of the node (list, no duplicates)"""
    k = n['k']
    if k == 'const':
        return [c for c, _ in n['amps']]
    if k == 'table':
        return [c for c, _ in n['chs']]
    if k == 'point':
        return list(n['chs'])
    if k in ('multi',):
        out = []
        for x in n['subs']:
            out += [c for c in pt_channels(x) if c not in out]
        return out
    if k == 'aarith':
        out = pt_channels(n['l'])
        return out + [c for c in pt_channels(n['r']) if c not in out]
    if k == 'func':
        return [n['ch']]
    if k == 'seq':
        return pt_channels(n['subs'][0])
    if k == 'map':
        m = dict((a, b) for a, b in n['chm'])
        return [m.get(c, c) for c in pt_channels(n['body']) if m.get(c, c) is not None]
    if k == 'par':
        out = pt_channels(n['body'])
        return out + [c for c, _ in n['ow'] if c not in out]
    return pt_channels(n['body'])


def gen_case(rng, max_depth=5, kinds=None, chan_choices=None):
    # top-level parameters
    env = {}
    ints = set()
    pool_vals = [F(1, 2), F(1), F(2), F(3, 4), F(-1, 2), F(3), F(0), F(-1), F(3, 2), F(1, 4), F(4)]
    for j in range(rng.randint(2, 5)):
        v = rng.choice(pool_vals)
        env['p%d' % j] = v
        if v.denominator == 1:
            ints.add('p%d' % j)
    ctx = Ctx(rng, env, ints, {})
    nch = rng.choice([1, 1, 2, 2, 3])
    pool = list(chan_choices or CHAN_POOL)
    rng.shuffle(pool)
    chans = pool[:nch]
    if rng.random() < 0.35 and 0 not in chans:
        chans[rng.randrange(nch)] = 0       # integer channel id 0 on purpose
    pt = gen_pt(ctx, chans, rng.randint(1, max_depth), None, kinds)
    used = free_params(pt)
    params = {k: str(v) for k, v in env.items() if k in used or rng.random() < 0.3}
    # top-level channel mapping: injective on the complete mapping
    defined = pt_channels(pt)
    cm = []
    targets = set(defined)
    spare = [c for c in ['X', 'Y', 7, 'Z', 0] if c not in defined]
    for ch in defined:
        r = rng.random()
        if r < 0.15:
            cm.append([ch, None])
            targets.discard(ch)
        elif r < 0.35 and spare:
            t = spare.pop(rng.randrange(len(spare)))
            cm.append([ch, t])
            targets.discard(ch)
            targets.add(t)
        elif r < 0.45:
            cm.append([ch, ch])
    case = {'pt': pt, 'params': params, 'cm': cm}
    if ctx.counter.get('final_triple'):
        case['final_triple'] = True
    if ctx.counter.get('idx_rebound'):
        case['idx_rebound'] = True
    return case


# ---- constant-folding stream ----------------------------------------------------------------------------------------
def gen_fold_case(rng):
    """constant siblings at EQUAL voltage around nested sub-programs that are NOT constant: time reversal / single
    repetition / reversal of a repetition of a sequence (these stay nested Loops, which to_waveform turns into nested
    SequenceWaveforms / RepetitionWaveforms that the constant folding of SequenceWaveform.from_sequence must look into).
    The equal-voltage siblings come as ConstantPT, as a table that is detected constant, or as a repeated constant."""
    pool_vals = [F(1, 2), F(1), F(2), F(-1, 2), F(3, 2), F(1, 4)]
    env = {'p0': rng.choice(pool_vals), 'p1': rng.choice(pool_vals)}
    ctx = Ctx(rng, env, set(n for n, v in env.items() if v.denominator == 1), {})
    pool = list(CHAN_POOL)
    rng.shuffle(pool)
    chans = pool[:rng.choice([1, 1, 1, 2])]
    level = {ch: dyadic(rng, -2, 2) for ch in chans}

    def const_at(lv, d=None):
        d = F(rng.randint(1, 4), 2) if d is None else d
        return {'k': 'const', 'd': expr_for(ctx, d), 'amps': [[ch, expr_for(ctx, lv[ch])] for ch in chans]}

    def hold():
        r = rng.random()
        d = F(rng.randint(1, 4), 2)
        if r < 0.6:
            return const_at(level, d)
        if r < 0.8:     # a table that TableWaveform.from_table detects as constant
            return {'k': 'table', 'chs': [[ch, [[C(0), expr_for(ctx, level[ch]), 'hold'],
                                                [expr_for(ctx, d), expr_for(ctx, level[ch]), rng.choice(INTERPS)]]]
                                          for ch in chans]}
        return {'k': 'rep', 'n': int_expr(ctx, F(rng.choice([1, 2]))), 'body': const_at(level, d)}

    def ramp():
        d = F(rng.randint(1, 4), 2)
        chs = []
        for ch in chans:
            a = dyadic(rng, -2, 2)
            k = rng.choice([-4, -3, -2, -1, 1, 2, 3, 4])
            b = a + d * F(k, 4)
            if rng.random() < 0.3:      # starts (or ends) at the siblings' level
                a, b = level[ch], level[ch] + d * F(k, 4)
            chs.append([ch, [[C(0), expr_for(ctx, a), 'hold'], [expr_for(ctx, d), expr_for(ctx, b), 'linear']]])
        return {'k': 'table', 'chs': chs}

    def piece():
        r = rng.random()
        if r < 0.55:
            return ramp()
        if r < 0.8:
            other = {ch: level[ch] + F(rng.choice([-2, -1, 1, 2, 3]), 2) for ch in chans}
            return const_at(other)
        return const_at(level)

    def nested():
        n = rng.choice([2, 2, 3])
        pieces = [piece() for _ in range(n)]
        if all(x['k'] == 'const' for x in pieces):
            pieces[rng.randrange(n)] = ramp()
        body = {'k': 'seq', 'subs': pieces}
        r = rng.random()
        if r < 0.35:
            return {'k': 'rev', 'body': body}, 'rev'
        if r < 0.65:
            return {'k': 'rep', 'n': int_expr(ctx, F(1)), 'body': body}, 'rep1'
        if r < 0.75:
            return {'k': 'rev', 'body': {'k': 'rep', 'n': C(2), 'body': body}}, 'rev-rep2'
        if r < 0.85:
            return {'k': 'rep', 'n': C(1), 'body': {'k': 'rev', 'body': body}}, 'rep1-rev'
        if r < 0.93:
            return {'k': 'rev', 'body': {'k': 'seq', 'subs': [hold(), {'k': 'rev', 'body': body}]}}, 'rev-rev'
        return {'k': 'rep', 'n': C(2), 'body': body}, 'rep2'

    shape = rng.choice(['HNH', 'HNH', 'HNH', 'HN', 'HHNH', 'HNHN', 'NH', 'HNh', 'HNNH'])
    subs, wraps = [], []
    for s in shape:
        if s == 'H':
            subs.append(hold())
        elif s == 'h':
            other = {ch: level[ch] + F(1, 2) for ch in chans}
            subs.append(const_at(other))
        else:
            n, wname = nested()
            subs.append(n)
            wraps.append(wname)
    pt = {'k': 'seq', 'subs': subs}
    r = rng.random()
    outer = 'plain'
    if r < 0.1:
        pt, outer = {'k': 'rep', 'n': C(2), 'body': pt}, 'rep2'
    elif r < 0.2:
        pt, outer = {'k': 'rev', 'body': pt}, 'rev'
    elif r < 0.3:
        pt, outer = {'k': 'arith', 'lhs': True, 'op': '*', 'scalar': C(2), 'body': pt}, 'scaled'
    elif r < 0.38:
        pt, outer = {'k': 'rep', 'n': C(1), 'body': pt}, 'rep1'
    used = free_params(pt)
    params = {k: str(v) for k, v in env.items() if k in used}
    return {'pt': pt, 'params': params, 'cm': [], 'fold': '%s/%s/%s' % (shape, '+'.join(sorted(set(wraps))), outer)}


# ---- operator table of ArithmeticPT -----------------------------------------------------------------------------------
def gen_arith_cases(rng, bodies=2):
    """every combination of operand order x operator x scalar form (plain scalar / mapping naming ALL channels / mapping
    naming a STRICT SUBSET of the channels) over random two- or three-channel bodies, with and without a top-level
    renaming / dropping; channels the scalar does not name keep the neutral element (for `scalar - pt`: they play -pt)"""
    out = []
    for _ in range(bodies):
        env = {'p0': rng.choice([F(1, 2), F(3, 2), F(-1), F(2)]), 'p1': rng.choice([F(1, 4), F(1), F(-1, 2)])}
        ctx = Ctx(rng, env, set(n for n, v in env.items() if v.denominator == 1), {})
        pool = list(CHAN_POOL)
        rng.shuffle(pool)
        chans = pool[:rng.choice([2, 2, 3])]
        dur = F(rng.randint(1, 4), 2)
        atom = gen_atom(ctx, list(chans), dur, 1, None, ('const', 'table', 'point'))
        body = atom if rng.random() < 0.5 else {'k': 'seq', 'subs': [atom, gen_atom(ctx, list(chans), dur, 1, None,
                                                                                  ('const', 'table'))]}
        for lhs in (True, False):
            for op in (['+', '-', '*', '/'] if lhs else ['+', '-', '*']):
                for form in ('plain', 'all', 'subset'):
                    def scal():
                        if op == '/':
                            return expr_for(ctx, rng.choice([F(2), F(1, 2), F(-2), F(4)]))
                        return expr_for(ctx, rng.choice([F(3, 2), F(-1, 2), F(2), F(1, 4), F(-1)]))
                    if form == 'plain':
                        scalar = scal()
                    elif form == 'all':
                        scalar = {'map': [[c, scal()] for c in chans]}
                    else:
                        k = rng.randint(1, len(chans) - 1)
                        sub = list(chans)
                        rng.shuffle(sub)
                        scalar = {'map': [[c, scal()] for c in sub[:k]]}
                    import copy
                    pt = {'k': 'arith', 'lhs': lhs, 'op': op, 'scalar': scalar, 'body': copy.deepcopy(body)}
                    cm = []
                    r = rng.random()
                    if r < 0.25:
                        cm = [[chans[0], 'X']]
                    elif r < 0.4:
                        cm = [[chans[-1], None]]
                    used = free_params(pt)
                    out.append({'pt': pt, 'params': {k2: str(v) for k2, v in env.items() if k2 in used}, 'cm': cm,
                                'arith_table': '%s/%s/%s' % ('pt-op-s' if lhs else 's-op-pt', op, form)})
    return out


# ---- small-alphabet table stream -------------------------------------------------------------------------------------
def gen_table_case(rng, exhaustive_index=None):
    """one table (optionally time-reversed / followed by a constant) over a SMALL alphabet: values in {0, 1, 1/2}, time
    increments in {0, 1/2, 1}, 3-6 entries, so that repeated values / repeated times / returns to the first value (the
    inputs of TableWaveform._validate_input's de-duplication and constant detection) are frequent"""
    n = rng.randint(3, 6)
    vals_pool = [F(0), F(1), F(1, 2)]
    t = F(0) if rng.random() < 0.8 else F(1, 2)
    entries = []
    prev_t = None
    for j in range(n):
        if j > 0:
            t = t + rng.choice([F(0), F(1, 2), F(1, 2), F(1)])
        v = rng.choice(vals_pool) if rng.random() < 0.8 or not entries else F(entries[-1][1][1])
        interp = rng.choice(INTERPS)
        if interp == 'linear' and prev_t is not None and t == prev_t:
            interp = rng.choice(['hold', 'jump'])
        entries.append([C(t), C(v), interp])
        prev_t = t
    if t == 0:
        entries[-1][0] = C(1)
        t = F(1)
        if entries[-1][2] == 'linear' and len(entries) >= 2 and F(entries[-2][0][1]) == 1:
            entries[-1][2] = 'hold'
    times = [F(e[0][1]) for e in entries]
    triple = times.count(times[-1]) >= 3
    ch = rng.choice(['A', 0])
    pt = {'k': 'table', 'chs': [[ch, entries]]}
    shape = rng.random()
    if shape < 0.3:
        pt = {'k': 'rev', 'body': pt}
    elif shape < 0.45:
        pt = {'k': 'seq', 'subs': [pt, {'k': 'const', 'd': C(1), 'amps': [[ch, C(entries[-1][1][1])]]}]}
    elif shape < 0.55:
        pt = {'k': 'rep', 'n': C(2), 'body': pt}
    case = {'pt': pt, 'params': {}, 'cm': [], 'tables': True}
    if triple:
        case['final_triple'] = True
    return case


def enum_table_cases():
    """EXHAUSTIVE small scope: every four-entry table over the binary alphabets  time increment in {0, 1},  value in
    {0, 1},  strategy in {hold, jump, linear} (no linear entry at its predecessor's time), first entry at t = 0, non-zero
    duration; each once plain and once time-reversed (1872 tables, 3744 cases)."""
    import itertools
    out = []
    for incs in itertools.product([0, 1], repeat=3):
        if sum(incs) == 0:
            continue
        times = [0]
        for d in incs:
            times.append(times[-1] + d)
        for vals in itertools.product([0, 1], repeat=4):
            for interps in itertools.product(INTERPS, repeat=3):
                if any(i == 'linear' and times[j + 1] == times[j] for j, i in enumerate(interps)):
                    continue
                entries = [[C(times[0]), C(vals[0]), 'hold']] + [[C(times[j + 1]), C(vals[j + 1]), interps[j]] for j in range(3)]
                triple = times.count(times[-1]) >= 3
                for rev in (False, True):
                    pt = {'k': 'table', 'chs': [['A', entries]]}
                    if rev:
                        pt = {'k': 'rev', 'body': pt}
                    case = {'pt': pt, 'params': {}, 'cm': [], 'tables': True}
                    if triple:
                        case['final_triple'] = True
                    out.append(case)
    return out


# ---- malformed stream -----------------------------------------------------------------------------------------------
def prune_maps(n):
    """drop parameter-mapping entries the body no longer needs (MappingPT rejects them at construction)"""
    for x in n.get('subs', []):
        prune_maps(x)
    for k in ('body', 'l', 'r'):
        if k in n:
            prune_maps(n[k])
    if n['k'] == 'map':
        used = free_params(n['body'])
        n['pm'] = [[a, b] for a, b in n['pm'] if a in used]


def malform(rng, case):
    c = _malform(rng, case)
    prune_maps(c['pt'])
    return c


def _malform(rng, case):
    """break one thing: drop a needed parameter, make a count / range value non-integer, a table non-monotone, durations
    of parallel atoms unequal, range step zero"""
    import copy
    c = copy.deepcopy(case)
    used = sorted(free_params(c['pt']) & set(c['params']))
    r = rng.random()
    if r < 0.35 and used:
        del c['params'][rng.choice(used)]
        c['malformed'] = 'missing'
        return c
    nodes = []

    def walk(n):
        nodes.append(n)
        for x in n.get('subs', []):
            walk(x)
        for k in ('body', 'l', 'r'):
            if k in n:
                walk(n[k])
    walk(c['pt'])
    rng.shuffle(nodes)
    for n in nodes:
        k = n['k']
        if k == 'rep' and r < 0.6:
            n['n'] = ['+', n['n'], C(F(1, 2))]
            c['malformed'] = 'nonint-count'
            return c
        if k == 'for':
            j = rng.randrange(3)
            if rng.random() < 0.4:
                n['range'][2] = C(0)
                c['malformed'] = 'step0'
            else:
                n['range'][j] = ['+', n['range'][j], C(F(1, 2))]
                c['malformed'] = 'nonint-range'
            return c
        if k == 'table':
            ch = rng.choice(n['chs'])
            names = sorted(c['params'])
            if len(ch[1]) >= 2 and names:
                j = rng.randrange(1, len(ch[1]))
                x = rng.choice(names)
                if x not in expr_vars(ch[1][j - 1][0]):
                    # a time that evaluates to -1/2 (not visible symbolically at construction)
                    ch[1][j][0] = ['+', V(x), C(F(-1, 2) - F(c['params'][x]))]
                    for e in ch[1][j:]:
                        if e[2] == 'linear':
                            e[2] = 'hold'
                    c['malformed'] = 'table-order'
                    return c
        if k == 'multi' and n['subs'][0]['k'] == 'const':
            n['subs'][0]['d'] = ['+', n['subs'][0]['d'], C(F(1, 2))]
            c['malformed'] = 'duration-mismatch'
            return c
    if used:
        del c['params'][rng.choice(used)]
        c['malformed'] = 'missing'
    return c
