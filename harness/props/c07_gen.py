"""C07 — case generators, a tiny rational evaluator of the case language, and the known-finding classifier."""
import fractions
import itertools
import math

F = fractions.Fraction


def C(x):
    return ['c', str(F(x))]


def V(n):
    return ['v', n]


def add(a, b):
    return ['+', a, b]


def mul(a, b):
    return ['*', a, b]


# ---------------------------------------------------------------------------------------------------------------------
# evaluator (classification + generator side conditions only; never used as an oracle)

def ev(e, env):
    k = e[0]
    if k == 'c':
        return F(e[1])
    if k == 'v':
        return env[e[1]]
    if k == 'neg':
        return -ev(e[1], env)
    a, b = ev(e[1], env), ev(e[2], env)
    return a + b if k == '+' else a - b if k == '-' else a * b if k == '*' else a / b


def uses(e, name):
    if e[0] == 'v':
        return e[1] == name
    if e[0] == 'c':
        return False
    return any(uses(x, name) for x in e[1:])


def t_uses(t, name):
    return ('"v", "%s"' % name) in __import__('json').dumps(t)


def e_vars(e, acc):
    if e[0] == 'v':
        acc.add(e[1])
    elif e[0] != 'c':
        for x in e[1:]:
            e_vars(x, acc)
    return acc


def free_vars(t):
    """parameter_names of the template (without t)"""
    k = t['k']
    acc = set()
    if k == 'table':
        for es in t['ch'].values():
            for e in es:
                e_vars(e[0], acc); e_vars(e[1], acc)
    elif k == 'point':
        for e in t['ents']:
            e_vars(e[0], acc)
            for x in ([e[1]['s']] if 's' in e[1] else e[1]['vec']):
                e_vars(x, acc)
    elif k == 'const':
        e_vars(t['d'], acc)
        for v in t['vals'].values():
            e_vars(v, acc)
    elif k == 'func':
        e_vars(t['d'], acc)
        for c in t['coef']:
            e_vars(c, acc)
    elif k in ('seq', 'multi'):
        if 'dur' in t:
            e_vars(t['dur'], acc)
        for s in t['ps']:
            acc |= free_vars(s)
    elif k == 'rep':
        e_vars(t['n'], acc); acc |= free_vars(t['b'])
    elif k == 'for':
        acc |= free_vars(t['b']) - {t['i']}
        for f in ('start', 'stop', 'step'):
            e_vars(t[f], acc)
    elif k == 'map':
        acc |= free_vars(t['b']) - set(t['pm'])
        for e in t['pm'].values():
            e_vars(e, acc)
    elif k == 'par':
        acc |= free_vars(t['b'])
        for cf in t['ov'].values():
            for c in cf:
                e_vars(c, acc)
    elif k in ('arithl', 'arithr'):
        acc |= free_vars(t['b'])
        sc = t['s']
        if 'allt' in sc or 'mapt' in sc:
            for cf in ([sc['allt']] if 'allt' in sc else sc['mapt'].values()):
                for e in cf:
                    e_vars(e, acc)
        else:
            for e in ([sc['all']] if 'all' in sc else sc['map'].values()):
                e_vars(e, acc)
    elif k == 'aatom':
        acc |= free_vars(t['l']) | free_vars(t['r'])
    acc.discard('t')
    return acc


def rng_of(t, env):
    return range(int(ev(t['start'], env)), int(ev(t['stop'], env)), int(ev(t['step'], env)))


def map_env(t, env):
    env2 = dict(env)
    for x, e in t['pm'].items():
        try:
            env2[x] = ev(e, env)
        except KeyError:
            env2.pop(x, None)
    return env2


def table_dur(t, env):
    if t['k'] == 'table':
        return max(ev(es[-1][0], env) for es in t['ch'].values())
    return ev(t['ents'][-1][0], env)


def pdur(t, env):
    k = t['k']
    if k in ('table', 'point'):
        return table_dur(t, env)
    if k in ('const', 'func'):
        return max(ev(t['d'], env), F(0))
    if k == 'seq':
        return sum(pdur(s, env) for s in t['ps'])
    if k == 'rep':
        n = ev(t['n'], env)
        return F(0) if n == 0 else n * pdur(t['b'], env)
    if k == 'for':
        return sum(pdur(t['b'], dict(env, **{t['i']: F(i)})) for i in rng_of(t, env))
    if k == 'map':
        return pdur(t['b'], map_env(t, env))
    if k == 'multi':
        return pdur(t['ps'][0], env)
    if k == 'aatom':
        return pdur(t['l'], env)
    return pdur(t['b'], env)


def chan_entries(t, env):
    """per channel numeric (t, v, interp) lists of a table / point atom"""
    if t['k'] == 'table':
        return {c: [(ev(e[0], env), ev(e[1], env), e[2]) for e in es] for c, es in t['ch'].items()}
    out = {}
    for k, c in enumerate(t['cs']):
        out[c] = [(ev(e[0], env), ev(e[1]['s'] if 's' in e[1] else e[1]['vec'][k], env), e[2]) for e in t['ents']]
    return out


def atom_head_differs(t, env):
    """value at t=0+ differs from the first entry's value (first positive-length segment is a jump)"""
    for es in chan_entries(t, env).values():
        prev = (F(0), es[0][1])
        for (tt, v, ip) in es:
            if tt > prev[0]:
                if ip == 'jump' and v != es[0][1]:
                    return True
                if prev[1] != es[0][1] and ip != 'jump':
                    return True
                break
            prev = (tt, v)
        else:
            # no positive-length step among the entries: the channel is held at its last value up to the table's end
            if prev[1] != es[0][1]:
                return True
    return False


def any_atom(t, env, pred):
    """does pred hold for some instantiated atom (loops unrolled)?"""
    k = t['k']
    try:
        if k in ('table', 'point'):
            return pred(t, env)
        if k in ('const', 'func'):
            return False
        if k in ('seq', 'multi'):
            return any(any_atom(s, env, pred) for s in t['ps'])
        if k == 'for':
            return any(any_atom(t['b'], dict(env, **{t['i']: F(i)}), pred) for i in rng_of(t, env))
        if k == 'map':
            return any_atom(t['b'], map_env(t, env), pred)
        if k == 'aatom':
            return any_atom(t['l'], env, pred) or any_atom(t['r'], env, pred)
        return any_atom(t['b'], env, pred)
    except (KeyError, ZeroDivisionError, ValueError):
        return False


def any_node(t, env, pred):
    """does pred(node, env) hold for some node reached with some loop environment (including empty loops' bodies not)"""
    try:
        if pred(t, env):
            return True
        k = t['k']
        if k in ('seq', 'multi'):
            return any(any_node(s, env, pred) for s in t['ps'])
        if k == 'for':
            r = rng_of(t, env)
            envs = [dict(env, **{t['i']: F(i)}) for i in r] or [dict(env, **{t['i']: ev(t['start'], env)})]
            return any(any_node(t['b'], e2, pred) for e2 in envs)
        if k == 'map':
            return any_node(t['b'], map_env(t, env), pred)
        if k == 'aatom':
            return any_node(t['l'], env, pred) or any_node(t['r'], env, pred)
        if 'b' in t:
            return any_node(t['b'], env, pred)
    except (KeyError, ZeroDivisionError, ValueError):
        pass
    return False


def head_ok(es, D):
    """Wf.head_ok / table_head_ok: the voltage at time 0+ of one evaluated table channel is its first entry's value
    (zero-length steps skipped; the first step of positive length starts at v0, or jumps to v0)."""
    v0 = es[0][1]
    prev = (F(0), v0)
    for (tt, v, ip) in list(es) + [(D, es[-1][1], 'hold')]:
        if tt - prev[0] <= 0:
            prev = (tt, v)
            continue
        return v == v0 if ip == 'jump' else prev[1] == v0
    return prev[1] == v0


def nonempty(t, env):
    """Spec: `denote t env` has at least one piece (all pieces have positive duration)"""
    return pdur(t, env) > 0


def g_ini(t, env):
    """mirror of Wf.guard_C07_initial_head (the proven guard of finding initial-head-empty-or-jump); Corr.check_corr
    compares this value with the Coq guard on every strict case"""
    k = t['k']
    if k in ('table', 'point'):
        D = table_dur(t, env)
        return D <= 0 or all(head_ok(es, D) for es in chan_entries(t, env).values())
    if k in ('const', 'func'):
        return True
    if k == 'seq':
        return nonempty(t['ps'][0], env) and g_ini(t['ps'][0], env)
    if k == 'for':
        r = rng_of(t, env)
        if len(r) == 0:
            return True
        e2 = dict(env, **{t['i']: F(r[0])})
        return nonempty(t['b'], e2) and g_ini(t['b'], e2)
    if k == 'map':
        return g_ini(t['b'], map_env(t, env))
    if k == 'multi':
        return all(g_ini(s, env) for s in t['ps'])
    if k == 'aatom':
        return g_ini(t['l'], env) and g_ini(t['r'], env)
    return g_ini(t['b'], env)


def g_tail(t, env):
    """mirror of Wf.guard_C07_final_tail (the proven guard of finding final-tail-empty)"""
    k = t['k']
    if k in ('table', 'point', 'const', 'func'):
        return True
    if k == 'seq':
        return nonempty(t['ps'][-1], env) and g_tail(t['ps'][-1], env)
    if k == 'for':
        r = rng_of(t, env)
        if len(r) == 0:
            return True
        e2 = dict(env, **{t['i']: F(r[-1])})
        return nonempty(t['b'], e2) and g_tail(t['b'], e2)
    if k == 'map':
        return g_tail(t['b'], map_env(t, env))
    if k == 'multi':
        return all(g_tail(s, env) for s in t['ps'])
    if k == 'aatom':
        return g_tail(t['l'], env) and g_tail(t['r'], env)
    return g_tail(t['b'], env)


def guard_flags(case):
    """(g_ini, g_tail) at the case's parameters; (True, True) when the template cannot be evaluated (malformed stream)"""
    env = {n: F(v) for n, v in case['params'].items()}
    try:
        return bool(g_ini(case['pt'], env)), bool(g_tail(case['pt'], env))
    except (KeyError, ZeroDivisionError, ValueError, IndexError):
        return True, True


def loop_empty(t, env):
    return t['k'] == 'for' and len(rng_of(t, env)) == 0


def par_time_dependent(t, env):
    return t['k'] == 'par' and any(len(cf) > 1 for cf in t['ov'].values())


def arith_over_par(t, env):
    """a ParallelChannelPT somewhere below an ArithmeticPT (the program applies the outer arithmetic to the overwritten
    channel's inner value and overwrites afterwards: transformation order, root cause shared with C01)"""
    if t['k'] not in ('arithl', 'arithr', 'par'):
        return False
    return any_node(t['b'], env, lambda n, e: n['k'] == 'par')


def negative_duration(t, env):
    """a ConstantPT with a negative duration / a RepetitionPT with a negative count: accepted as an empty pulse"""
    if t['k'] == 'const':
        return ev(t['d'], env) < 0
    if t['k'] == 'rep':
        return ev(t['n'], env) < 0
    return False


def embeddable(t):
    """every time dependent scalar in the tree uses + or - (then the template is embedded in the Coq model as
    pulse-with-pulse arithmetic, Corr.arith_tl / arith_tr), or * over a ConstantPT / polynomial FunctionPT (embedded as
    the product polynomial, Corr.arith_tm)"""
    if t['k'] in ('arithl', 'arithr') and ('allt' in t['s'] or 'mapt' in t['s']) and t['op'] not in ('+', '-'):
        if not (t['op'] == '*' and t['b']['k'] in ('const', 'func')):
            return False
    for key in ('b', 'l', 'r'):
        if key in t and not embeddable(t[key]):
            return False
    return all(embeddable(s) for s in t.get('ps', []))


def tdarith_cases(rng, n):
    """ArithmeticPT with a time dependent scalar operand (polynomial of degree <= 1 in t, + - *) over an atomic template
    (constant / polynomial function / table of linear segments), bare, inside a sequence and inside a for-loop whose
    index enters the scalar.  Not modelled in Coq: these cases are judged by the Python oracle only."""
    cases = []
    for k in range(n):
        cx = Ctx(rng)
        chans = CHANS[:rng.choice([1, 2])]
        idx = rng.random() < 0.4
        if idx:
            cx.idx_v.append('i1')
        kind = rng.choice(['const', 'func', 'table'])
        dur = rng.choice([C(1), C(2), V('T')])
        if kind == 'const':
            inner = {'k': 'const', 'd': dur, 'vals': {c: cx.volt() for c in chans}}
        elif kind == 'func':
            chans = chans[:1]
            inner = {'k': 'func', 'c': chans[0], 'd': dur, 'coef': [cx.volt() for _ in range(rng.randint(1, 2))]}
        else:
            inner = {'k': 'table', 'ch': {c: [[C(0), cx.volt(), 'hold'], [['/', dur, C(2)], cx.volt(), rng.choice(['linear', 'jump', 'hold'])],
                                              [dur, cx.volt(), 'linear']] for c in chans}}
        op = rng.choice(['+', '-', '*'])
        poly = lambda: [cx.volt(), rng.choice([C(1), C(F(1, 2)), C(-1), V('a')] + ([V('i1')] if idx else []))]
        if rng.random() < 0.6:
            sc = {'allt': poly()}
        else:
            sub = [c for c in chans if rng.random() < 0.6] or [chans[0]]
            sc = {'mapt': {c: (poly() if rng.random() < 0.7 else [cx.volt()]) for c in sub}}
        left = rng.random() < 0.7 or op == '/'
        t = {'k': 'arithl' if left else 'arithr', 'b': inner, 'op': op, 's': sc}
        x = rng.random()
        if idx and 'i1' not in free_vars(t):        # ForLoopPT requires the index to occur in the body
            cf = sc['allt'] if 'allt' in sc else sc['mapt'][sorted(sc['mapt'])[0]]
            cf[0] = add(cf[0], V('i1'))
        if idx:
            a, o, s = rng.choice(RANGES)
            t = {'k': 'for', 'i': 'i1', 'start': C(a), 'stop': C(o), 'step': C(s), 'b': t}
        elif x < 0.3:
            t = {'k': 'seq', 'ps': [t, {'k': 'const', 'd': C(1), 'vals': {c: cx.volt() for c in chans}}][::rng.choice([1, -1])]}
        params = used_params(t, params_for(rng))
        cases.append({'kind': 'tdarith', 'pt': t, 'params': params, 'pad': '1', 'src': 'time-dependent-scalar'})
    return cases


def raw_duration(t, env):
    """the duration the SYMBOLIC expression of the unchanged code evaluates to (finding negative-duration-empty: a negative
    ConstantPT duration / repetition count enters the sum as it is, the program skips that part); `pdur` is the played one"""
    k = t['k']
    if k in ('table', 'point'):
        return table_dur(t, env)
    if k in ('const', 'func'):
        return ev(t['d'], env)
    if k == 'seq':
        return sum(raw_duration(s, env) for s in t['ps'])
    if k == 'rep':
        return ev(t['n'], env) * raw_duration(t['b'], env)
    if k == 'for':
        return sum(raw_duration(t['b'], dict(env, **{t['i']: F(i)})) for i in rng_of(t, env))
    if k == 'map':
        return raw_duration(t['b'], map_env(t, env))
    if k == 'multi':
        return ev(t['dur'], env) if 'dur' in t else raw_duration(t['ps'][0], env)
    if k == 'aatom':
        return raw_duration(t['l'], env)
    return raw_duration(t['b'], env)


def tainted_channels(t, env, leaf, under=False):
    """OUTPUT channels of `t` that carry the voltage of a part selected by `leaf(node, env, under)` (a set of the node's
    own channel names), followed through channel renamings / drops of the MappingPTs above it; loops unrolled at `env`;
    `under` = an ArithmeticPT / ParallelChannelPT is above the node."""
    k = t['k']
    s = set(leaf(t, env, under))
    if k in ('seq', 'multi'):
        for sub in t['ps']:
            s |= tainted_channels(sub, env, leaf, under)
    elif k == 'for':
        for i in rng_of(t, env):
            s |= tainted_channels(t['b'], dict(env, **{t['i']: F(i)}), leaf, under)
    elif k == 'map':
        cm = {a: b for a, b in t['cm']}
        for c in tainted_channels(t['b'], map_env(t, env), leaf, under):
            c2 = cm.get(c, c)
            if c2 is not None:
                s.add(c2)
    elif k == 'aatom':
        s |= tainted_channels(t['l'], env, leaf, under) | tainted_channels(t['r'], env, leaf, under)
    elif k in ('par', 'arithl', 'arithr'):
        s |= tainted_channels(t['b'], env, leaf, True)
    elif 'b' in t:
        s |= tainted_channels(t['b'], env, leaf, under)
    return s


def failing_clauses(case, obs):
    """the clauses of the property that fail on this observation as far as Python can see them: 'dur', ('int', c),
    ('ini', c), ('pad', c) [padded region does not play final_values / pad_to not instantiable], ('fin', c) [only where the
    very last sample is the specified end voltage: the time dependent scalar stream].  The comparison of final_values with
    the DENOTED end voltage is made in Coq only (check_spec)."""
    out = set()
    chans = obs['chans']
    if obs['real'] == 'none':
        if obs['sdur'] != '0':
            out.add('dur')
        for c in chans:
            if obs['ch'][c]['sint'] != '0':
                out.add(('int', c))
        return out
    if obs['sdur'] != obs['real']:
        out.add('dur')
    for c in chans:
        o = obs['ch'][c]
        if not case.get('noint') and o['sint'] != o['rint']:
            out.add(('int', c))
        if o['sini'] != o['r0']:
            out.add(('ini', c))
        if obs.get('padded') in ('err', 'none', None) or not o.get('pad') or any(x != o['sfin'] for x in o['pad']):
            out.add(('pad', c))
        if case.get('kind') == 'tdarith' and o['sfin'] != o.get('rend'):
            out.add(('fin', c))
    return out


def classify(case, obs):
    """id of the known finding that explains why the property fails on this case (None = unexplained).
    ROUND 5: decided CLAUSE BY CLAUSE.  Every failing clause Python can see (duration, integral / initial value per
    channel, padded region) must be explained by a finding whose input class the case is in AND that can produce exactly
    this kind of deviation on this channel; one unexplained clause => None (the case is reported as a violation):
      * negative-duration-empty: the duration (only if the reported value is the raw sum `raw_duration`, i.e. what the
        unchanged code reports) and integrals; never initial / final values or the padded region;
      * arith-over-parallel-order: integral / initial value of a channel OVERWRITTEN by a ParallelChannelPT that sits below an
        ArithmeticPT / another ParallelChannelPT (followed through channel renamings); nothing else;
      * initial-head-empty-or-jump: initial values, only when the proven guard Wf.guard_C07_initial_head (mirrored by g_ini,
        cross-checked against the Coq definition in check_corr) is false at these parameters;
      * final-tail-empty: final values (sample at the very end in the time dependent scalar stream; otherwise the comparison
        with the denoted end voltage made in Coq), only when Wf.guard_C07_final_tail (g_tail) is false; a padded region that
        cannot be built only when, in addition, final_values does not evaluate (the never instantiated last part mentions a
        missing parameter: thorough-tier case of round 5).
    When no Python-visible clause fails, the failure is check_spec's alone (final value vs denoted end voltage, padded
    duration, or a template Spec.denote gives no meaning): explained only by final-tail-empty outside its guard or by
    negative-duration-empty on a template containing such a part."""
    if 'crash' in obs or 'hang' in obs or obs.get('real') == 'err':
        return None
    if obs.get('hist_mismatch') or obs.get('padx_mismatch'):
        return None
    env = {n: F(v) for n, v in case['params'].items()}
    pt = case['pt']
    try:
        bad = failing_clauses(case, obs)
        neg = any_node(pt, env, negative_duration)
        ok_ini, ok_tail = g_ini(pt, env), g_tail(pt, env)
        ov = tainted_channels(pt, env, lambda n, e, under: set(n['ov']) if n['k'] == 'par' and under else ())
        used = []
        for cl in sorted(bad, key=str):
            if cl == 'dur':
                if not (neg and obs['sdur'] == str(raw_duration(pt, env))):
                    return None
                used.append('negative-duration-empty')
                continue
            kind, c = cl
            if kind == 'int':
                fid = 'negative-duration-empty' if neg else 'arith-over-parallel-order' if c in ov else None
            elif kind == 'ini':
                fid = 'arith-over-parallel-order' if c in ov else None if ok_ini else 'initial-head-empty-or-jump'
            elif kind == 'fin':
                fid = None if ok_tail else 'final-tail-empty'
            else:
                # the padded region never plays anything but final_values on the unchanged code; it cannot be built at all
                # when final_values - taken from a last part that is never instantiated (final-tail-empty) - do not evaluate
                fid = 'final-tail-empty' if not ok_tail and obs['ch'][c]['sfin'] is None else None
            if fid is None:
                return None
            used.append(fid)
        if used:
            for fid in ('negative-duration-empty', 'arith-over-parallel-order', 'initial-head-empty-or-jump',
                        'final-tail-empty'):
                if fid in used:
                    return fid
        # nothing visible in Python: check_spec alone rejects
        if neg:
            return 'negative-duration-empty'
        if not ok_tail:
            return 'final-tail-empty'
    except (KeyError, ZeroDivisionError, ValueError, IndexError):
        return None
    return None


# ---------------------------------------------------------------------------------------------------------------------
# generators

VOLT_VALUES = [F(1), F(-1, 2), F(3, 4), F(2), F(-2), F(1, 2), F(3), F(0)]
TIME_VALUES = [F(1, 2), F(1), F(2), F(4)]
CHANS = ['A', 'B', 'C']
RANGES = [(0, 5, 2), (5, 0, -2), (3, 3, 1), (0, 1, 1), (2, 0, 1), (0, 6, 2), (0, 3, 1), (1, 4, 1), (4, 0, -1), (0, 7, 3),
          (6, 1, -3), (0, 4, 4), (0, 5, 5), (2, 9, 4), (0, -3, -1), (1, 2, 5), (0, 0, -1), (7, 2, -2), (0, 2, 1), (1, 5, 2)]


def range_shape(a, o, s):
    n = len(range(a, o, s))
    sh = ['neg' if s < 0 else 'pos']
    sh.append('empty' if n == 0 else 'single' if n == 1 else 'multi')
    if n and (o - a) % s != 0:
        sh.append('nodiv')
    return sh


class Ctx:
    def __init__(self, rng):
        self.rng = rng
        self.vpar = ['a', 'b', 'c']        # voltage parameters
        self.tpar = ['T', 'U']             # time parameters (values are powers of two)
        self.ipar = ['n', 'm']             # integer parameters
        self.idx_v = []                    # loop indices usable in voltages
        self.idx_t = []                    # loop indices usable in durations (non-negative)
        self.shapes = []
        self.nidx = 0

    def volt(self):
        r = self.rng
        x = r.random()
        if x < 0.3:
            return C(r.choice(VOLT_VALUES))
        if x < 0.5:
            return V(r.choice(self.vpar))
        if x < 0.75 and self.idx_v:
            i = V(r.choice(self.idx_v))
            y = r.random()
            return i if y < 0.4 else mul(i, V(r.choice(self.vpar))) if y < 0.7 else add(i, C(r.choice(VOLT_VALUES)))
        if x < 0.85:
            return mul(V(r.choice(self.vpar)), C(r.choice([F(2), F(1, 2), F(-1)])))
        return add(V(r.choice(self.vpar)), V(r.choice(self.vpar)))

    def pow2len(self):
        r = self.rng
        x = r.random()
        if x < 0.5:
            return C(r.choice([F(1, 2), F(1), F(2)]))
        if x < 0.8:
            return V(r.choice(self.tpar))
        return mul(V(r.choice(self.tpar)), C(2))

    def anylen(self, allow_zero=True):
        r = self.rng
        x = r.random()
        if x < 0.35:
            return C(r.choice([F(1, 4), F(1, 2), F(3, 4), F(1), F(3, 2), F(2)] + ([F(0)] if allow_zero else [])))
        if x < 0.5:
            return V(r.choice(self.tpar))
        if x < 0.8 and self.idx_t and allow_zero:
            i = V(r.choice(self.idx_t))
            y = r.random()
            return mul(i, C(r.choice([F(1, 4), F(1, 2), F(1)]))) if y < 0.5 else mul(i, V(r.choice(self.tpar))) \
                if y < 0.7 else add(mul(i, C(F(1, 4))), C(F(1, 2)))
        if x < 0.9:
            return add(V(r.choice(self.tpar)), C(r.choice([F(1, 4), F(1, 2)])))
        return C(r.choice([F(1), F(3, 4)]))


def gen_table_channel(cx, end=None):
    """entries with cumulative symbolic times; linear segments have power-of-two lengths"""
    r = cx.rng
    n = r.randint(1, 4)
    t = C(0) if r.random() < 0.7 else cx.anylen(allow_zero=False)
    ents = [[t, cx.volt(), r.choice(['hold', 'hold', 'linear', 'jump'])]]
    for _ in range(n):
        ip = r.choice(['hold', 'hold', 'linear', 'linear', 'jump'])
        ln = cx.pow2len() if ip == 'linear' else cx.anylen()
        t = add(t, ln) if t != ['c', '0'] else ln
        ents.append([t, cx.volt() if r.random() < 0.8 else ents[-1][1], ip])
    return ents


def gen_atom(cx, chans, dur=None):
    """atom over exactly `chans`; if dur (an expr with power-of-two value) is given the atom has exactly that duration"""
    r = cx.rng
    x = r.random()
    if dur is not None:
        kinds = ['const', 'func', 'ftable']
    else:
        kinds = ['table', 'table', 'point', 'const', 'const', 'func'] if len(chans) > 1 else \
            ['table', 'table', 'point', 'const', 'func', 'func']
    k = r.choice(kinds)
    if k == 'func' and len(chans) > 1:
        k = 'const'
    if k == 'table':
        return {'k': 'table', 'ch': {c: gen_table_channel(cx) for c in chans}}
    if k == 'ftable':
        half = ['/', dur, C(2)]
        ch = {}
        for c in chans:
            ip2 = r.choice(['hold', 'linear', 'jump'])
            ch[c] = [[C(0), cx.volt(), 'hold'], [half, cx.volt(), r.choice(['hold', 'linear', 'jump'])], [dur, cx.volt(), ip2]]
        return {'k': 'table', 'ch': ch}
    if k == 'point':
        n = r.randint(1, 3)
        t = C(0) if r.random() < 0.7 else cx.anylen(allow_zero=False)
        ents = []
        for j in range(n + 1):
            ip = r.choice(['hold', 'linear', 'jump']) if j else 'hold'
            if j:
                ln = cx.pow2len() if ip == 'linear' else cx.anylen()
                t = add(t, ln) if t != ['c', '0'] else ln
            v = {'s': cx.volt()} if r.random() < 0.4 else {'vec': [cx.volt() for _ in chans]}
            ents.append([t, v, ip])
        return {'k': 'point', 'cs': list(chans), 'ents': ents}
    if k == 'const':
        d = dur if dur is not None else cx.anylen()
        return {'k': 'const', 'd': d, 'vals': {c: cx.volt() for c in chans}}
    d = dur if dur is not None else cx.anylen(allow_zero=False)
    if d[0] != 'c' and dur is None and any(uses(d, i) for i in cx.idx_t):
        d = add(d, C(F(1, 4)))          # FunctionPT needs a positive duration
    deg = r.randint(0, 2)
    return {'k': 'func', 'c': chans[0], 'd': d, 'coef': [cx.volt() for _ in range(deg + 1)]}


def gen_scalar(cx, chans):
    r = cx.rng
    if r.random() < 0.5:
        return {'all': cx.volt()}
    sub = [c for c in chans if r.random() < 0.6] or [chans[0]]
    return {'map': {c: cx.volt() for c in sub}}


def gen_pt(cx, chans, depth, atomic=False, dur=None):
    r = cx.rng
    if depth <= 0 or (atomic and r.random() < 0.5) or r.random() < 0.12:
        return gen_atom(cx, chans, dur)
    if atomic:
        k = r.choice(['multi', 'aatom', 'atom'])
    else:
        k = r.choice(['seq', 'seq', 'rep', 'for', 'for', 'for', 'map', 'multi', 'par', 'arithl', 'arithr', 'aatom'])
    if k == 'atom':
        return gen_atom(cx, chans, dur)
    if k == 'seq':
        return {'k': 'seq', 'ps': [gen_pt(cx, chans, depth - 1) for _ in range(r.randint(1, 3))]}
    if k == 'rep':
        n = C(r.choice([0, 1, 2, 3])) if r.random() < 0.6 else V(r.choice(cx.ipar))
        return {'k': 'rep', 'n': n, 'b': gen_pt(cx, chans, depth - 1)}
    if k == 'for':
        a, o, s = r.choice(RANGES) if r.random() < 0.7 else (r.randint(-2, 4), r.randint(-2, 7), r.choice([1, 2, 3, -1, -2, -3]))
        cx.shapes.extend(range_shape(a, o, s))
        cx.nidx += 1
        i = 'i%d' % cx.nidx
        nonneg = all(x >= 0 for x in range(a, o, s)) and a >= 0
        cx.idx_v.append(i)
        if nonneg:
            cx.idx_t.append(i)
        b = gen_pt(cx, chans, depth - 1)
        cx.idx_v.remove(i)
        if nonneg:
            cx.idx_t.remove(i)
        if i not in free_vars(b):
            b = {'k': 'arithl', 'b': b, 'op': '+', 's': {'all': V(i)}}
        st, sp, se = C(a), C(o), C(s)
        if r.random() < 0.3:                      # parametrised range: n = 3, m = 2 (see gen params) keep shape if equal
            if o == 3:
                sp = V('n')
            elif o == 2:
                sp = V('m')
            elif a == 3:
                st = V('n')
        return {'k': 'for', 'i': i, 'start': st, 'stop': sp, 'step': se, 'b': b}
    if k == 'map':
        b = gen_pt(cx, chans, depth - 1)
        if b['k'] == 'map' and any(x[1] is None for x in b['cm']):
            return b        # MappingPT(MappingPT(.., {c: None})) raises KeyError in the constructor (not C07's)
        pm = {}
        fv = free_vars(b)
        for p in cx.vpar:
            if r.random() < 0.5 and p in fv:
                pm[p] = r.choice([V(q) for q in cx.vpar if q != p] + [add(V(p), C(1)), mul(V(p), C(2))] +
                                 [V(i) for i in cx.idx_v])
        for p in cx.tpar:
            if r.random() < 0.4 and p in fv:
                pm[p] = r.choice([V(q) for q in cx.tpar if q != p] + [mul(V(p), C(2)), C(1)])
        for p in cx.ipar:
            if r.random() < 0.3 and p in fv:
                pm[p] = r.choice([V(q) for q in cx.ipar if q != p] + [add(V(p), C(1))])
        # channel mapping: rename into unused names / drop one (never all)
        cm = []
        free = [c for c in ['D', 'E'] if c not in chans]
        bch = out_channels(b)
        free = [c for c in ['D', 'E'] if c not in bch]
        for c in bch:
            x = r.random()
            if x < 0.25 and free:
                cm.append([c, free.pop()])
            elif x < 0.35 and len(bch) > 1 and not any(b2 is None for _, b2 in cm) and c != bch[0]:
                cm.append([c, None])
        out = {'k': 'map', 'b': b, 'pm': pm, 'cm': cm}
        return out
    if k == 'multi':
        if len(chans) < 2:
            return gen_pt(cx, chans, depth - 1, atomic, dur)
        d = dur if dur is not None else cx.pow2len()
        cut = r.randint(1, len(chans) - 1)
        return {'k': 'multi', 'ps': [gen_pt(cx, chans[:cut], min(depth - 1, 1), True, d),
                                     gen_pt(cx, chans[cut:], min(depth - 1, 1), True, d)]}
    if k == 'par':
        inner_atomic = r.random() < 0.4
        ov = {}
        cands = [c for c in CHANS if c not in chans][:1] + list(chans[1:])
        if not cands:
            return gen_pt(cx, chans, depth - 1, atomic, dur)
        c = r.choice(cands)
        base = [x for x in chans]
        if inner_atomic and r.random() < 0.35:
            ov[c] = [cx.volt(), C(r.choice([F(1), F(1, 2), F(-1)]))]
        else:
            ov[c] = [cx.volt()]
        b = gen_pt(cx, base, depth - 1, True, None if not atomic else dur) if inner_atomic else gen_pt(cx, base, depth - 1)
        return {'k': 'par', 'b': b, 'ov': ov}
    if k in ('arithl', 'arithr'):
        b = gen_pt(cx, chans, depth - 1, atomic, dur)
        op = r.choice(['+', '-', '*', '/'] if k == 'arithl' else ['+', '-', '*'])
        s = gen_scalar(cx, chans)
        if op == '/':
            s = {'all': r.choice([C(2), C(F(1, 2)), C(4), V(r.choice(cx.tpar)), C(-2)])}
        return {'k': k, 'b': b, 'op': op, 's': s}
    if k == 'aatom':
        d = dur if dur is not None else cx.pow2len()
        lch = list(chans)
        rch = [c for c in chans if r.random() < 0.6] or [chans[-1]]
        return {'k': 'aatom', 'l': gen_pt(cx, lch, min(depth - 1, 1), True, d), 'op': r.choice(['+', '-']),
                'r': gen_pt(cx, rch, min(depth - 1, 1), True, d)}
    raise ValueError(k)


def out_channels(t):
    k = t['k']
    if k == 'table':
        return list(t['ch'])
    if k == 'point':
        return list(t['cs'])
    if k == 'const':
        return list(t['vals'])
    if k == 'func':
        return [t['c']]
    if k in ('seq',):
        return out_channels(t['ps'][0])
    if k == 'multi':
        return [c for s in t['ps'] for c in out_channels(s)]
    if k == 'map':
        cm = dict(t['cm'])
        return [cm.get(c, c) for c in out_channels(t['b']) if cm.get(c, c) is not None]
    if k == 'par':
        base = out_channels(t['b'])
        return base + [c for c in t['ov'] if c not in base]
    if k == 'aatom':
        base = out_channels(t['l'])
        return base + [c for c in out_channels(t['r']) if c not in base]
    return out_channels(t['b'])


def fix_channels(t):
    """Par/Map change the channel set: sequences need equal sets -> drop offending siblings' differences by wrapping.
    Returns False if the tree is inconsistent (caller regenerates)."""
    k = t['k']
    for key in ('b', 'l', 'r'):
        if key in t and not fix_channels(t[key]):
            return False
    for s in t.get('ps', []):
        if not fix_channels(s):
            return False
    if k == 'seq':
        sets = [sorted(out_channels(s)) for s in t['ps']]
        return all(x == sets[0] for x in sets)
    if k == 'multi':
        cs = [c for s in t['ps'] for c in out_channels(s)]
        return len(cs) == len(set(cs))
    if k in ('arithl', 'arithr') and 'map' in t['s']:
        return set(t['s']['map']) <= set(out_channels(t['b']))
    return True


def params_for(rng):
    p = {'a': rng.choice(VOLT_VALUES[:6]), 'b': rng.choice(VOLT_VALUES[:7]), 'c': rng.choice(VOLT_VALUES),
         'T': rng.choice(TIME_VALUES), 'U': rng.choice(TIME_VALUES[:3]), 'n': F(3), 'm': F(2)}
    return {k: str(v) for k, v in p.items()}


def used_params(t, params):
    fv = free_vars(t)
    return {k: v for k, v in params.items() if k in fv}


def random_case(rng, depth):
    for _ in range(50):
        cx = Ctx(rng)
        chans = CHANS[:rng.choice([1, 2, 2, 3])]
        t = gen_pt(cx, chans, depth)
        if not fix_channels(t) or len(out_channels(t)) > 5:
            continue
        params = params_for(rng)
        if rng.random() < 0.2:     # integer parameters vary (changes range shapes / counts)
            params['n'] = str(rng.choice([0, 1, 2, 3, 4]))
            params['m'] = str(rng.choice([0, 1, 2, 5]))
        params = used_params(t, params)
        try:
            if pdur(t, {k: F(v) for k, v in params.items()}) > 40:
                continue
        except (KeyError, ZeroDivisionError, ValueError):
            pass
        return {'kind': 'pulse', 'pt': t, 'params': params, 'pad': str(rng.choice([F(2), F(1, 2), F(1), F(5, 4)])),
                'shapes': sorted(set(cx.shapes)), 'src': 'random'}
    raise RuntimeError('generator could not build a consistent template')


def _sweep_body(nonneg):
    if nonneg:
        return {'k': 'table', 'ch': {'A': [[C(0), V('i1'), 'hold'], [C(1), add(V('i1'), C(1)), 'linear'],
                                           [add(C(1), mul(V('i1'), C(F(1, 2)))), V('a'), 'hold']]}}
    return {'k': 'const', 'd': C(F(1, 2)), 'vals': {'A': mul(V('i1'), V('a'))}}


def _wrap(kind, loop, nonneg):
    """put the for-loop `loop` (index i1, channel A) under each loop-carrying class"""
    tail = {'k': 'const', 'd': C(F(1, 2)), 'vals': {'A': C(2)}}
    if kind == 'bare':
        return loop, {}
    if kind == 'seq-first':
        return {'k': 'seq', 'ps': [loop, tail]}, {}
    if kind == 'seq-last':
        return {'k': 'seq', 'ps': [tail, loop]}, {}
    if kind == 'rep':
        return {'k': 'rep', 'n': C(2), 'b': loop}, {}
    if kind == 'map':
        return {'k': 'map', 'b': loop, 'pm': {'a': add(V('b'), C(1))}, 'cm': [['A', 'D']]}, {'b': '1/2'}
    if kind == 'par':
        return {'k': 'par', 'b': loop, 'ov': {'B': [V('a')]}}, {}
    if kind == 'arithl':
        return {'k': 'arithl', 'b': loop, 'op': '-', 's': {'all': V('a')}}, {}
    if kind == 'arithr':
        return {'k': 'arithr', 'b': loop, 'op': '-', 's': {'map': {'A': C(1)}}}, {}
    if kind == 'outer-for':      # the swept loop is the body of another loop whose index scales the voltage
        return {'k': 'for', 'i': 'i2', 'start': C(1), 'stop': C(3), 'step': C(1),
                'b': {'k': 'arithl', 'b': loop, 'op': '*', 's': {'all': V('i2')}}}, {}
    raise ValueError(kind)


WRAPPERS = ['bare', 'seq-first', 'seq-last', 'rep', 'map', 'par', 'arithl', 'arithr', 'outer-for']


def range_sweep(lim, lo=-1, wrappers=('bare',), steps=(1, 2, 3, -1, -2, -3)):
    """every range over small start/stop/step, with an index dependent body (voltage and, for non-negative indices,
    duration), under every requested loop-carrying wrapper"""
    cases = []
    for a, o, s in itertools.product(range(lo, lim + 1), range(lo, lim + 2), steps):
        nonneg = a >= 0 and all(x >= 0 for x in range(a, o, s))
        for w in wrappers:
            loop = {'k': 'for', 'i': 'i1', 'start': C(a), 'stop': C(o), 'step': C(s), 'b': _sweep_body(nonneg)}
            t, extra = _wrap(w, loop, nonneg)
            params = dict({'a': '3/4'}, **extra)
            cases.append({'kind': 'pulse', 'pt': t, 'params': used_params(t, params), 'pad': '1',
                          'shapes': sorted(set(range_shape(a, o, s))), 'src': 'range-sweep:' + w})
    return cases


def symbolic_range_sweep(lim):
    """the same ranges with all three bounds parametrised (exercises sign(step), ceiling and floor symbolically)"""
    cases = []
    for a, o, s in itertools.product(range(-lim, lim + 1), range(-lim, lim + 1), (1, 2, 3, -1, -2, -3)):
        loop = {'k': 'for', 'i': 'i1', 'start': V('n'), 'stop': V('m'), 'step': V('k'), 'b': _sweep_body(False)}
        cases.append({'kind': 'pulse', 'pt': loop, 'params': {'a': '3/4', 'n': str(a), 'm': str(o), 'k': str(s)}, 'pad': '1',
                      'shapes': sorted(set(range_shape(a, o, s))), 'src': 'range-sweep:symbolic'})
    return cases


def handmade():
    """boundary cases written by hand (each exercises one clause)"""
    cs = []
    tb = {'k': 'table', 'ch': {'A': [[C(0), V('i1'), 'hold'], [C(1), add(V('i1'), C(1)), 'linear']]}}
    for rg in [(0, 5, 2), (5, 0, -2), (3, 3, 1), (0, 1, 1), (2, 0, 1), (0, 6, 2)]:
        cs.append({'kind': 'pulse', 'pt': {'k': 'for', 'i': 'i1', 'start': C(rg[0]), 'stop': C(rg[1]), 'step': C(rg[2]), 'b': tb},
                   'params': {}, 'pad': '2', 'shapes': sorted(set(range_shape(*rg))), 'src': 'hand'})
    # sequence whose first / last child is empty
    empty = {'k': 'const', 'd': C(0), 'vals': {'A': C(5)}}
    full = {'k': 'const', 'd': C(1), 'vals': {'A': C(1)}}
    cs.append({'kind': 'pulse', 'pt': {'k': 'seq', 'ps': [empty, full]}, 'params': {}, 'pad': '1', 'src': 'hand'})
    cs.append({'kind': 'pulse', 'pt': {'k': 'seq', 'ps': [full, empty]}, 'params': {}, 'pad': '1', 'src': 'hand'})
    # table starting with a jump / with a zero-length first segment / ending in hold
    cs.append({'kind': 'pulse', 'pt': {'k': 'table', 'ch': {'A': [[C(0), C(1), 'hold'], [C(1), C(3), 'jump']]}}, 'params': {},
               'pad': '1', 'src': 'hand'})
    cs.append({'kind': 'pulse', 'pt': {'k': 'table', 'ch': {'A': [[C(0), C(1), 'hold'], [C(0), C(2), 'hold'], [C(1), C(2), 'hold']]}},
               'params': {}, 'pad': '1', 'src': 'hand'})
    cs.append({'kind': 'pulse', 'pt': {'k': 'table', 'ch': {'A': [[C(0), C(1), 'hold'], [C(1), C(3), 'hold']],
                                                             'B': [[C(0), C(0), 'hold'], [C(2), C(1), 'linear']]}},
               'params': {}, 'pad': '1', 'src': 'hand'})
    # table with a constant prefix followed by a ramp (TableWaveform constant detection)
    cs.append({'kind': 'pulse', 'pt': {'k': 'table', 'ch': {'A': [[C(0), C(1), 'hold'], [C(1), C(1), 'hold'], [C(2), C(3), 'linear']]}},
               'params': {}, 'pad': '1', 'src': 'hand'})
    # parallel channel, constant and time dependent
    cs.append({'kind': 'pulse', 'pt': {'k': 'par', 'b': {'k': 'const', 'd': C(2), 'vals': {'A': C(1)}}, 'ov': {'B': [V('a')]}},
               'params': {'a': '3/4'}, 'pad': '1', 'src': 'hand'})
    cs.append({'kind': 'pulse', 'pt': {'k': 'par', 'b': {'k': 'const', 'd': C(2), 'vals': {'A': C(1)}}, 'ov': {'B': [C(0), C(2)]}},
               'params': {}, 'pad': '1', 'src': 'hand'})
    # missing parameter
    cs.append({'kind': 'pulse', 'pt': {'k': 'const', 'd': V('T'), 'vals': {'A': V('a')}}, 'params': {'T': '1'}, 'pad': '1',
               'src': 'malformed'})
    # negative duration / negative repetition count: accepted as an empty pulse, symbolic duration/integral negative
    cs.append({'kind': 'pulse', 'pt': {'k': 'const', 'd': V('T'), 'vals': {'A': C(1)}}, 'params': {'T': '-1/2'}, 'pad': '1',
               'src': 'hand'})
    cs.append({'kind': 'pulse', 'pt': {'k': 'rep', 'n': V('n'), 'b': full}, 'params': {'n': '-1'}, 'pad': '1', 'src': 'hand'})
    # simultaneous substitution through a mapping (swap)
    cs.append({'kind': 'pulse', 'pt': {'k': 'map', 'b': {'k': 'table', 'ch': {'A': [[C(0), V('a'), 'hold'], [C(1), V('b'), 'linear']]}},
                                       'pm': {'a': V('b'), 'b': V('a')}, 'cm': [['A', 'D']]},
               'params': {'a': '1', 'b': '3'}, 'pad': '1', 'src': 'hand'})
    return cs


# ---------------------------------------------------------------------------------------------------------------------
# aliasing / history stream (round 3): forests whose templates SHARE sub-template objects, with a query history.
# A pool is a list of trees in which a node {'ref': k} (k < own index) stands for the k-th pool OBJECT; `roots` are
# pool indices; `history` is a list of [root position, query].  Every root becomes one case (kind 'pulse', pt = the
# expanded tree of the root) carrying the whole forest; run_impl replays the history on the shared objects.

def expand(t, pool):
    if 'ref' in t:
        return expand(pool[t['ref']], pool)
    out = {}
    for k, v in t.items():
        if k in ('b', 'l', 'r'):
            out[k] = expand(v, pool)
        elif k == 'ps':
            out[k] = [expand(x, pool) for x in v]
        else:
            out[k] = v
    return out


QUERY_KINDS = ['integral', 'initial', 'final', 'duration', 'pad', 'program']
HIST_ORDERS = ['forward', 'backward', 'twice', 'random']


def make_history(rng, nroots, order):
    """[[root position, query], ...]: every root asked for every symbolic quantity, in the given order discipline"""
    base = ['initial', 'final', 'integral', 'duration']
    if order == 'forward':
        h = [[j, q] for j in range(nroots) for q in base]
    elif order == 'backward':
        h = [[j, q] for j in reversed(range(nroots)) for q in reversed(base)]
    elif order == 'twice':                  # every quantity twice in a row, pad_to in between
        h = []
        for j in range(nroots):
            for q in base:
                h += [[j, q], [j, q]]
            h.append([j, 'pad'])
        h += [[j, q] for j in range(nroots) for q in ('final', 'initial')]
    else:
        h = [[rng.randrange(nroots), rng.choice(QUERY_KINDS if rng.random() < 0.3 else base)]
             for _ in range(rng.randint(nroots, 4 * nroots))]
    return h


def forest_to_cases(pool, roots, history, params, src, pad='1'):
    cases = []
    forest = {'pool': pool, 'roots': roots, 'history': history}
    trees = [expand(pool[k], pool) for k in roots]
    for tr in trees:
        if not fix_channels(tr):
            return []
    allp = {}
    for tr in trees:
        allp.update(used_params(tr, params))
    for j, tr in enumerate(trees):
        cases.append({'kind': 'pulse', 'pt': tr, 'params': dict(allp), 'pad': pad, 'src': src, 'forest': forest, 'target': j,
                      'shapes': []})
    return cases


def _shared_bodies():
    """index dependent building blocks (index i1 in voltages; non-negative ranges only where it enters a duration)"""
    i = V('i1')
    return {
        'const': {'k': 'const', 'd': C(F(1, 2)), 'vals': {'A': add(V('a'), mul(i, C(F(1, 4)))), 'B': ['neg', i]}},
        'const-idur': {'k': 'const', 'd': add(C(F(1, 2)), mul(i, C(F(1, 4)))), 'vals': {'A': mul(i, V('a'))}},
        'table': {'k': 'table', 'ch': {'A': [[C(0), i, 'hold'], [C(1), add(i, C(1)), 'linear'], [C(F(3, 2)), V('a'), 'hold']]}},
        'point': {'k': 'point', 'cs': ['A', 'B'], 'ents': [[C(0), {'vec': [i, V('a')]}, 'hold'], [C(1), {'s': add(i, C(1))}, 'linear']]},
        'func': {'k': 'func', 'c': 'A', 'd': C(1), 'coef': [i, V('a')]},
        'par-const': {'k': 'par', 'b': {'k': 'const', 'd': C(1), 'vals': {'A': i}}, 'ov': {'B': [mul(i, V('a'))]}},
        'arith-const': {'k': 'arithl', 'b': {'k': 'const', 'd': C(1), 'vals': {'A': V('a')}}, 'op': '*', 's': {'all': i}},
        'seq-const': {'k': 'seq', 'ps': [{'k': 'const', 'd': C(F(1, 2)), 'vals': {'A': i}},
                                         {'k': 'const', 'd': C(1), 'vals': {'A': add(i, V('a'))}}]},
    }


def _enclosures(ref, chans, atomic):
    """templates around the shared object `ref` (free index i1): each class that reads the body's dictionaries"""
    S = {'ref': ref}
    fl = lambda a, o, s: {'k': 'for', 'i': 'i1', 'start': a, 'stop': o, 'step': s, 'b': S}
    enc = {
        'for-0-3': fl(C(0), C(3), C(1)),
        'for-1-n': fl(C(1), V('n'), C(1)),
        'for-down': fl(C(4), C(0), C(-2)),
        'rep-for': {'k': 'rep', 'n': C(2), 'b': fl(C(2), C(9), C(3))},
        'alone': S,
        'seq-twice': {'k': 'seq', 'ps': [S, S]},
        'seq-first': {'k': 'seq', 'ps': [S, {'k': 'const', 'd': C(1), 'vals': {c: C(2) for c in chans}}]},
        'rep': {'k': 'rep', 'n': V('n'), 'b': S},
        'map-rebind': {'k': 'for', 'i': 'i1', 'start': C(0), 'stop': C(3), 'step': C(1),
                       'b': {'k': 'map', 'b': S, 'pm': {'i1': add(mul(V('i1'), C(2)), C(1))}, 'cm': []}},
        'map-rename': {'k': 'map', 'b': S, 'pm': {'a': mul(V('a'), C(2)), 'i1': V('m')}, 'cm': [[chans[0], 'D']]},
        'par': {'k': 'par', 'b': S, 'ov': {'C': [V('a')]}},
        'par-over': {'k': 'par', 'b': S, 'ov': {chans[-1]: [C(5)]}},
        'arithr': {'k': 'arithr', 'b': S, 'op': '-', 's': {'all': V('a')}},
        'arithl-map': {'k': 'arithl', 'b': S, 'op': '+', 's': {'map': {chans[0]: V('a')}}},       # dict scalar (copied per query)
        'arithl-mul-map': {'k': 'arithl', 'b': S, 'op': '*', 's': {'map': {chans[-1]: add(V('a'), C(1))}}},
        'for-par': {'k': 'for', 'i': 'i1', 'start': C(1), 'stop': C(4), 'step': C(2), 'b': {'k': 'par', 'b': S, 'ov': {'C': [V('i1')]}}},
    }
    if atomic:
        # time dependent dict scalar (evaluated at t = 0 / t = duration per query)
        enc['arith-t'] = {'k': 'arithl', 'b': S, 'op': '+', 's': {'mapt': {chans[0]: [C(1), V('a')]}}}
        enc['for-arith-t'] = dict(fl(C(1), C(3), C(1)), b={'k': 'arithr', 'b': S, 'op': '-', 's': {'mapt': {chans[0]: [V('i1'), C(F(1, 2))]}}})
        enc['aatom-self'] = {'k': 'aatom', 'l': S, 'op': '+', 'r': S}
        enc['for-aatom-self'] = dict(fl(C(0), C(3), C(2)), b={'k': 'aatom', 'l': S, 'op': '+', 'r': S})
    return enc


FOREST_PARAMS = {'a': '3/4', 'n': '6', 'm': '2', 'i1': '1'}


def shared_body_forests(rng, per_body, orders=None, enc_names=None):
    """deterministic family: one index dependent building block shared by the enclosing templates of `_enclosures`
    (seed C07-4's shape: loops over different ranges, a repeated loop, the block alone, a parallel channel ...)"""
    cases = []
    for name, body in _shared_bodies().items():
        chans = out_channels(body)
        atomic = body['k'] in ('const', 'table', 'point', 'func')      # ArithmeticAtomicPT wants AtomicPulseTemplates
        enc = _enclosures(0, chans, atomic)
        names = sorted(enc)
        for k in range(per_body):
            if enc_names is not None:
                pick = list(enc_names)
            else:
                pick = ['for-0-3', 'for-1-n', 'for-down', 'rep-for', 'alone'] if k == 0 else rng.sample(names, rng.randint(2, 5))
            pick = [p for p in pick if p in enc]
            if k > 0:
                rng.shuffle(pick)
            order = (orders or HIST_ORDERS)[k % len(orders or HIST_ORDERS)]
            pool = [body] + [enc[p] for p in pick]
            roots = list(range(1, len(pool)))
            cases += forest_to_cases(pool, roots, make_history(rng, len(roots), order), FOREST_PARAMS,
                                     'forest:shared-%s:%s' % (name, order))
    return cases


def exhaustive_pair_forests(rng):
    """small scope, exhaustive: every building block x every ORDERED pair of enclosing classes, queried first-then-second
    (each quantity once) - the second answer must not depend on the first template having been queried"""
    cases = []
    for name, body in _shared_bodies().items():
        chans = out_channels(body)
        enc = _enclosures(0, chans, body['k'] in ('const', 'table', 'point', 'func'))
        for x in sorted(enc):
            for y in sorted(enc):
                if x == y:
                    continue
                pool = [body, enc[x], enc[y]]
                hist = [[0, 'initial'], [0, 'final'], [0, 'integral'], [0, 'duration']]
                cs = forest_to_cases(pool, [1, 2], hist, FOREST_PARAMS, 'forest:pair-%s' % name)
                cases += cs[1:]               # the second template is the one at risk; the first is the plain stream's
    return cases


def _pick_subtree(rng, t, path=()):
    """all (path, node) below the root"""
    out = []
    for key in ('b', 'l', 'r'):
        if key in t:
            out.append((path + (key,), t[key]))
            out += _pick_subtree(rng, t[key], path + (key,))
    for n, s in enumerate(t.get('ps', [])):
        out.append((path + (('ps', n),), s))
        out += _pick_subtree(rng, s, path + (('ps', n),))
    return out


def _replace(t, path, new):
    if not path:
        return new
    key = path[0]
    if isinstance(key, tuple):
        ps = list(t['ps'])
        ps[key[1]] = _replace(ps[key[1]], path[1:], new)
        return dict(t, ps=ps)
    return dict(t, **{key: _replace(t[key], path[1:], new)})


def _positive(S, params, fv):
    try:
        env = {k: F(v) for k, v in params.items()}
        env.update({v: F(1) for v in fv})
        return pdur(S, env) > 0
    except (KeyError, ZeroDivisionError, ValueError):
        return False


def random_forest(rng, depth):
    """a random template, one of its sub-templates made a shared object, and further random templates around the same
    object (loop indices that were bound in the first template are rebound by a new loop or become plain parameters)"""
    for _ in range(30):
        c = random_case(rng, depth)
        subs = [(p, n) for p, n in _pick_subtree(rng, c['pt']) if n['k'] not in ('func',) or True]
        if not subs:
            continue
        path, S = rng.choice(subs)
        chans = out_channels(S)
        if not chans or not fix_channels(S):
            continue
        fv = sorted(v for v in free_vars(S) if v.startswith('i'))
        atomic = S['k'] in ('table', 'point', 'const', 'func', 'multi', 'aatom')
        pool = [S, _replace(c['pt'], path, {'ref': 0})]
        extra = []
        cx = Ctx(rng)
        for _ in range(rng.randint(1, 3)):
            x = rng.random()
            R = {'ref': 0}
            if fv and x < 0.45:
                a, o, s = rng.choice([(0, 3, 1), (1, 4, 2), (3, 0, -1), (0, 1, 1), (2, 9, 3)])
                e = {'k': 'for', 'i': fv[0], 'start': C(a), 'stop': C(o), 'step': C(s), 'b': R}
            elif x < 0.55:
                e = R
            elif x < 0.65:
                e = {'k': 'seq', 'ps': [R, R]}
            elif x < 0.72:
                e = {'k': 'rep', 'n': C(rng.choice([1, 2, 3])), 'b': R}
            elif x < 0.8:
                e = {'k': 'par', 'b': R, 'ov': {rng.choice(['C', 'D', chans[-1]]): [cx.volt()]}}
            elif x < 0.88:
                e = {'k': rng.choice(['arithl', 'arithr']), 'b': R, 'op': rng.choice(['+', '-', '*']), 's': {'all': cx.volt()}}
            elif x < 0.94 and atomic and _positive(S, c['params'], fv):
                # (ArithmeticAtomicPT over EMPTY operands is outside the model: Spec.denote wants one piece per operand,
                #  the code returns the empty pulse; the plain generator never builds it either)
                e = {'k': 'aatom', 'l': R, 'op': rng.choice(['+', '-']), 'r': R}
            else:
                pm = {v: add(V(v), C(1)) for v in sorted(free_vars(S)) if rng.random() < 0.5 and v in ('a', 'b', 'c', 'n', 'm') + tuple(fv)}
                e = {'k': 'map', 'b': R, 'pm': pm, 'cm': []}
            extra.append(e)
        pool += extra
        roots = list(range(1, len(pool))) + ([0] if rng.random() < 0.3 else [])
        params = dict(params_for(rng), **{v: '1' for v in fv})
        params.update(c['params'])
        trees = [expand(pool[k], pool) for k in roots]
        try:
            if any(pdur(tr, {k: F(v) for k, v in params.items()}) > 40 for tr in trees):
                continue
        except (KeyError, ZeroDivisionError, ValueError):
            continue
        cs = forest_to_cases(pool, roots, make_history(rng, len(roots), rng.choice(HIST_ORDERS)), params, 'forest:random',
                             pad=c['pad'])
        if cs:
            return cs
    return []


def blind_class_families(tier='thorough'):
    """round 3: deterministic families for input classes the random grammar reaches only by luck (each is one of the
    name-coincidence / declared-empty classes of tools/ROUND3_BRIEF.md applied to this property's case grammar)"""
    cs = []

    def case(pt, params, src, pad='1'):
        cs.append({'kind': 'pulse', 'pt': pt, 'params': params, 'pad': pad, 'src': src, 'shapes': []})
    # (1) parameters as table / point entry TIMES, in particular the FIRST entry's time (implicit hold from 0) -----------
    for T0 in ('0', '1/2', '2'):
        for v0 in ('3/4', '0', '-2'):
            tb = {'k': 'table', 'ch': {'A': [[V('T'), V('a'), 'hold'], [add(V('T'), C(1)), V('b'), 'linear'],
                                              [add(V('T'), V('U')), C(F(1, 2)), 'hold']]}}
            case(tb, {'T': T0, 'U': '2', 'a': v0, 'b': '1'}, 'times:first-entry-symbolic')
            case({'k': 'seq', 'ps': [tb, tb]}, {'T': T0, 'U': '2', 'a': v0, 'b': '1'}, 'times:first-entry-symbolic')
    for T0 in ('0', '1', '4'):
        two = {'k': 'table', 'ch': {'A': [[C(0), C(1), 'hold'], [V('U'), C(3), 'linear']],
                                    'B': [[V('T'), V('a'), 'hold'], [V('U'), C(0), 'jump']]}}
        case(two, {'T': T0, 'U': '4', 'a': '5/4'}, 'times:first-entry-symbolic')
        case({'k': 'for', 'i': 'i1', 'start': C(0), 'stop': C(3), 'step': C(1),
              'b': {'k': 'table', 'ch': {'A': [[mul(V('i1'), V('T')), V('a'), 'hold'],
                                               [add(mul(V('i1'), V('T')), C(1)), V('i1'), 'linear']]}}},
             {'T': T0, 'a': '3/4'}, 'times:first-entry-symbolic')
        case({'k': 'point', 'cs': ['A', 'B'], 'ents': [[V('T'), {'vec': [V('a'), C(1)]}, 'hold'],
                                                        [add(V('T'), C(2)), {'s': C(2)}, 'linear']]},
             {'T': T0, 'a': '3/4'}, 'times:first-entry-symbolic')
        case({'k': 'map', 'b': two, 'pm': {'T': mul(V('T'), C(F(1, 2)))}, 'cm': []}, {'T': T0, 'U': '4', 'a': '1'},
             'times:first-entry-symbolic')
    # all times symbolic, the last one equal to the one before (zero-length tail) / strictly larger
    # (a zero-length LINEAR step makes LinearInterpolationStrategy divide by zero when sampled: not generated)
    for U, ip in (('0', 'hold'), ('0', 'jump'), ('1', 'linear'), ('1', 'jump')):
        case({'k': 'table', 'ch': {'A': [[V('T'), V('a'), 'hold'], [add(V('T'), V('U')), C(2), ip]]}},
             {'T': '1', 'U': U, 'a': '3/4'}, 'times:all-symbolic')
    # (2) the LONGEST channel (the one that fixes the duration) is the one a mapping drops / renames -------------------
    long_b = {'k': 'table', 'ch': {'A': [[C(0), C(1), 'hold'], [C(1), V('a'), 'linear']],
                                   'B': [[C(0), C(0), 'hold'], [V('T'), C(1), 'linear']]}}
    for T in ('1/2', '1', '4'):
        case({'k': 'map', 'b': long_b, 'pm': {}, 'cm': [['B', None]]}, {'a': '2', 'T': T}, 'longest-channel-dropped')
        case({'k': 'map', 'b': long_b, 'pm': {}, 'cm': [['A', None]]}, {'a': '2', 'T': T}, 'longest-channel-dropped')
        case({'k': 'map', 'b': long_b, 'pm': {}, 'cm': [['B', 'A'], ['A', 'B']]}, {'a': '2', 'T': T}, 'longest-channel-dropped')
        case({'k': 'par', 'b': {'k': 'map', 'b': long_b, 'pm': {}, 'cm': [['B', None]]}, 'ov': {'B': [V('a')]}},
             {'a': '2', 'T': T}, 'longest-channel-dropped')
    # (3) a mapping between a loop and its body REBINDS THE LOOP INDEX to an expression of itself; swap / shift mappings --
    cb = {'k': 'const', 'd': C(1), 'vals': {'A': mul(V('i1'), V('a'))}}
    tbi = {'k': 'table', 'ch': {'A': [[C(0), V('i1'), 'hold'], [C(1), add(V('i1'), V('a')), 'linear']]}}
    nth = 0
    for body in (cb, tbi):
        for rb in (add(V('i1'), C(1)), mul(V('i1'), C(2)), ['-', C(3), V('i1')], add(V('i1'), V('a'))):
            for rg in ((0, 3, 1), (4, 0, -2), (1, 2, 1)):
                m = {'k': 'map', 'b': body, 'pm': {'i1': rb}, 'cm': []}
                lp = lambda b: {'k': 'for', 'i': 'i1', 'start': C(rg[0]), 'stop': C(rg[1]), 'step': C(rg[2]), 'b': b}
                variants = [lp(m), lp({'k': 'rep', 'n': C(2), 'b': m}),
                            {'k': 'map', 'b': lp(m), 'pm': {'a': add(V('a'), C(1))}, 'cm': [['A', 'D']]}]
                nth += 1
                for v in ([variants[nth % 3]] if tier == 'quick' else variants):    # quick: one wrapper per combination
                    case(v, {'a': '3/4'}, 'index-rebound-by-mapping')
    sw = {'k': 'table', 'ch': {'A': [[C(0), V('a'), 'hold'], [V('T'), V('b'), 'linear'], [add(V('T'), C(1)), V('c'), 'hold']]}}
    for pm in ({'a': V('b'), 'b': V('a')}, {'a': add(V('b'), C(1)), 'b': V('c')}, {'b': add(V('a'), C(1)), 'a': V('c')},
               {'a': V('b'), 'b': V('c'), 'c': V('a')}, {'a': mul(V('a'), C(2))}, {'T': add(V('T'), V('T'))}):
        case({'k': 'map', 'b': sw, 'pm': pm, 'cm': []}, {'a': '1', 'b': '3', 'c': '-2', 'T': '2'}, 'swap-shift-mapping')
        inner_m = {'k': 'map', 'b': sw, 'pm': pm, 'cm': []}
        if set(pm) <= free_vars(inner_m):        # (a mapping for a name the inner mapping consumed is rejected)
            case({'k': 'map', 'b': inner_m, 'pm': pm, 'cm': [['A', 'B']]},
                 {'a': '1', 'b': '3', 'c': '-2', 'T': '2'}, 'swap-shift-mapping')
    # (4) a parameter that is CALLED like the internal time variable t (a parameter wherever no waveform time exists) ------
    case({'k': 'table', 'ch': {'A': [[C(0), V('t'), 'hold'], [C(2), add(V('t'), C(1)), 'linear']]}}, {'t': '3'}, 'parameter-named-t')
    case({'k': 'par', 'b': {'k': 'table', 'ch': {'A': [[C(0), V('t'), 'hold'], [C(2), add(V('t'), C(1)), 'linear']]}},
          'ov': {'B': [V('a')]}}, {'t': '3', 'a': '1'}, 'parameter-named-t')
    case({'k': 'const', 'd': V('t'), 'vals': {'A': C(1)}}, {'t': '2'}, 'parameter-named-t')
    case({'k': 'par', 'b': {'k': 'const', 'd': V('t'), 'vals': {'A': C(1)}}, 'ov': {'B': [V('a')]}}, {'t': '2', 'a': '5'},
         'parameter-named-t')
    case({'k': 'for', 'i': 't', 'start': C(0), 'stop': C(3), 'step': C(1), 'b': {'k': 'const', 'd': C(1), 'vals': {'A': V('t')}}},
         {}, 'parameter-named-t')
    case({'k': 'map', 'b': {'k': 'func', 'c': 'A', 'd': C(2), 'coef': [C(0), V('a')]}, 'pm': {'a': V('t')}, 'cm': []},
         {'t': '3'}, 'parameter-named-t')
    # ... and together with a time dependent value / scalar (legal since the /repo fixes 94713f4, 2e2bf3b, 012495f)
    case({'k': 'par', 'b': {'k': 'const', 'd': C(2), 'vals': {'A': V('t')}}, 'ov': {'B': [C(0), C(2)]}}, {'t': '3'}, 'parameter-named-t')
    case({'k': 'par', 'b': {'k': 'const', 'd': V('t'), 'vals': {'A': C(1)}}, 'ov': {'B': [C(0), V('a')]}}, {'t': '2', 'a': '5'},
         'parameter-named-t')
    case({'k': 'arithl', 'b': {'k': 'const', 'd': C(2), 'vals': {'A': V('t')}}, 'op': '+', 's': {'allt': [C(0), C(1)]}}, {'t': '3'},
         'parameter-named-t')
    # (5) "declared as empty" versus "not declared": empty scalar mapping, empty set of overwritten channels -------------
    c2 = {'k': 'const', 'd': C(2), 'vals': {'A': V('a'), 'B': C(1)}}
    case({'k': 'arithl', 'b': c2, 'op': '+', 's': {'map': {}}}, {'a': '3'}, 'declared-empty')
    case({'k': 'arithr', 'b': c2, 'op': '-', 's': {'map': {}}}, {'a': '3'}, 'declared-empty')
    case({'k': 'arithl', 'b': c2, 'op': '*', 's': {'map': {}}}, {'a': '3'}, 'declared-empty')
    case({'k': 'par', 'b': c2, 'ov': {}}, {'a': '3'}, 'declared-empty')
    case({'k': 'map', 'b': c2, 'pm': {}, 'cm': []}, {'a': '3'}, 'declared-empty')
    # (6) the same OBJECT twice inside one template (run_impl builds each sub-tree once per occurrence: the forest stream
    #     shares objects; these are the value-level twins)
    case({'k': 'seq', 'ps': [c2, c2]}, {'a': '3'}, 'same-twice')
    case({'k': 'aatom', 'l': c2, 'op': '-', 'r': c2}, {'a': '3'}, 'same-twice')
    return cs


def capture_family():
    """FORMER finding mapping-captures-loop-index (repaired in /repo, round 4: 7d773a1): MappingPT substitutes an outer
    expression that mentions a name which is ALSO the index of a loop inside the mapped template into that loop's Sum(...)
    closed form: the bound summation variable captured it (integral and duration; initial/final values substitute the
    index first and were right).  The model's ELet is capture free, so these cases are now ordinary strict cases."""
    cs = []
    inner = {'k': 'for', 'i': 'i1', 'start': C(0), 'stop': C(3), 'step': C(1),
             'b': {'k': 'const', 'd': C(1), 'vals': {'A': mul(V('i1'), V('a'))}}}
    m = {'k': 'map', 'b': inner, 'pm': {'a': V('i1')}, 'cm': []}
    cs.append({'kind': 'pulse', 'pt': m, 'params': {'i1': '2'}, 'pad': '1', 'src': 'capture', 'shapes': []})
    cs.append({'kind': 'pulse', 'pt': {'k': 'for', 'i': 'i1', 'start': C(1), 'stop': C(3), 'step': C(1), 'b': m}, 'params': {},
               'pad': '1', 'src': 'capture', 'shapes': []})
    innerd = {'k': 'for', 'i': 'i1', 'start': C(0), 'stop': C(3), 'step': C(1),
              'b': {'k': 'const', 'd': mul(V('i1'), V('T')), 'vals': {'A': C(1)}}}
    cs.append({'kind': 'pulse', 'pt': {'k': 'map', 'b': innerd, 'pm': {'T': V('i1')}, 'cm': []}, 'params': {'i1': '2'}, 'pad': '1',
               'src': 'capture', 'shapes': []})
    # the mapped-in expression is an expression OF the clashing name; a sequence / repetition between mapping and loop;
    # two stacked mappings (a -> b, b -> i1); the clash under an arithmetic scalar
    cs.append({'kind': 'pulse', 'pt': {'k': 'map', 'b': inner, 'pm': {'a': add(mul(V('i1'), C(2)), V('b'))}, 'cm': [['A', 'D']]},
               'params': {'i1': '2', 'b': '1/2'}, 'pad': '1', 'src': 'capture', 'shapes': []})
    cs.append({'kind': 'pulse', 'pt': {'k': 'map', 'b': {'k': 'seq', 'ps': [{'k': 'rep', 'n': C(2), 'b': inner}, innerd_v()]},
                                       'pm': {'a': V('i1'), 'T': V('i1')}, 'cm': []},
               'params': {'i1': '2'}, 'pad': '1', 'src': 'capture', 'shapes': []})
    cs.append({'kind': 'pulse', 'pt': {'k': 'map', 'b': {'k': 'map', 'b': inner, 'pm': {'a': V('b')}, 'cm': []},
                                       'pm': {'b': V('i1')}, 'cm': []},
               'params': {'i1': '3'}, 'pad': '1', 'src': 'capture', 'shapes': []})
    cs.append({'kind': 'pulse', 'pt': {'k': 'map', 'b': {'k': 'arithl', 'b': inner, 'op': '*', 's': {'all': V('a')}},
                                       'pm': {'a': V('i1')}, 'cm': []},
               'params': {'i1': '2'}, 'pad': '1', 'src': 'capture', 'shapes': []})
    # control: the same shape with a different outer name is fine
    cs.append({'kind': 'pulse', 'pt': {'k': 'map', 'b': inner, 'pm': {'a': V('b')}, 'cm': []}, 'params': {'b': '2'}, 'pad': '1',
               'src': 'capture-control', 'shapes': []})
    return cs


def innerd_v():
    return {'k': 'for', 'i': 'i1', 'start': C(0), 'stop': C(3), 'step': C(1),
            'b': {'k': 'const', 'd': add(mul(V('i1'), V('T')), C(1)), 'vals': {'A': V('i1')}}}


def mapping_captures(t, env):
    """a MappingPT whose parameter mapping sends a parameter x of a for-loop below it to an expression mentioning that
    loop's index name"""
    if t['k'] != 'map':
        return False

    def loops(n):
        out = [n] if n['k'] == 'for' else []
        for key in ('b', 'l', 'r'):
            if key in n:
                out += loops(n[key])
        for s_ in n.get('ps', []):
            out += loops(s_)
        return out
    for f in loops(t['b']):
        fv = free_vars(f)
        for x, e in t['pm'].items():
            if x in fv and f['i'] in e_vars(e, set()):
                return True
    return False


ZERO_COUNT_RANGES = [(3, 3, 1), (3, 3, -2), (3, 2, 2), (2, 4, -3), (0, 0, 1), (1, 0, 3), (-1, -1, 2), (0, 1, -2)]
MINUS_ONE_COUNT_RANGES = [(3, 2, 1), (2, 3, -1), (3, 1, 2), (0, 3, -3)]
ONE_COUNT_RANGES = [(3, 4, 1), (3, 4, 5), (3, 2, -1), (2, 1, -3)]


def zero_count_family(tier='thorough'):
    """round 4 (class of seed C07-5): for-loop ranges whose iteration count ceiling((stop - start)/step) is EXACTLY 0 - a
    zero span (start == stop, either step sign) or a backwards span shorter than one step - next to the neighbours with
    count exactly -1 and exactly 1; numeric bounds (the Piecewise collapses at construction) and symbolic bounds; bodies
    whose integral / duration at i = start is non-zero (also for start = 0); bare and under the loop-carrying wrappers.
    `integral` and `duration` carry the same case distinction (count <= 0) in two places that must stay in sync."""
    cs = []
    body_v = {'k': 'const', 'd': C(F(1, 2)), 'vals': {'A': add(mul(V('i1'), V('a')), C(1))}}
    body_d = {'k': 'const', 'd': add(mul(V('i1'), V('i1')), C(1)), 'vals': {'A': add(V('i1'), V('a'))}}
    nth = 0
    for group, ranges in (('zero', ZERO_COUNT_RANGES), ('minus-one', MINUS_ONE_COUNT_RANGES), ('one', ONE_COUNT_RANGES)):
        for a, o, s in ranges:
            for sym in ('numeric', 'symbolic', 'start-symbolic'):
                for bi, body in enumerate((body_v, body_d)):
                    for w in WRAPPERS:
                        nth += 1
                        if tier == 'quick':
                            # zero count: numeric and symbolic bounds, bodies alternating, bare + one rotating wrapper;
                            # neighbours: symbolic, bare, bodies alternating
                            if sym == 'start-symbolic' or bi != (a + o + (sym == 'symbolic')) % 2:
                                continue
                            if group == 'zero':
                                if w != 'bare' and w != WRAPPERS[1 + (a * 7 + o * 3 + s + (sym == 'symbolic')) % (len(WRAPPERS) - 1)]:
                                    continue
                            elif w != 'bare' or sym != 'symbolic':
                                continue
                        params = {'a': '3/4'}
                        if sym == 'numeric':
                            st, sp, se = C(a), C(o), C(s)
                        elif sym == 'symbolic':
                            st, sp, se = V('n'), V('m'), V('k')
                            params.update(n=str(a), m=str(o), k=str(s))
                        else:
                            st, sp, se = V('n'), C(o), C(s)
                            params.update(n=str(a))
                        loop = {'k': 'for', 'i': 'i1', 'start': st, 'stop': sp, 'step': se, 'b': body}
                        t, extra = _wrap(w, loop, False)
                        params.update(extra)
                        cs.append({'kind': 'pulse', 'pt': t, 'params': used_params(t, params), 'pad': '1',
                                   'shapes': sorted(set(range_shape(a, o, s))) + ['count:' + group],
                                   'src': 'loop-count-%s:%s' % (group, sym)})
    return cs


def td_scalar_ends_family(tier='thorough'):
    """round 4 (class of seed C07-6): ArithmeticPT whose scalar operand depends on the time t and takes DIFFERENT values
    at t = 0 and t = duration, every operator (+ - * and, template / scalar only, /) x both operand orders x single
    expression / per-channel mapping x constant / polynomial / table atom with a non-zero end voltage; bare, as the last
    / first part of a sequence, as the body of a for-loop (scalar slope = loop index) and of a repetition.  initial_values
    must use the scalar at 0, final_values at the duration (two code paths that look alike).  `/`: the integral is
    transcendental (log), only duration, initial and final values are observed (`noint`); Python oracle."""
    cs = []
    nth = 0
    for op in ('+', '-', '*', '/'):
        for side in ('arithl', 'arithr'):
            if op == '/' and side == 'arithr':
                continue                    # scalar / template is rejected by the constructor
            for sk in ('allt', 'mapt'):
                for ik in ('const', 'func', 'table'):
                    for w in ('bare', 'seq-last', 'seq-first', 'for', 'rep'):
                        nth += 1
                        if tier == 'quick':
                            # bare: every (operator, order, scalar kind) once, atoms rotating; wrappers: every
                            # (operator, wrapper) once, order / scalar kind / atom rotating
                            combo = ('+', '-', '*', '/').index(op) * 4 + (side == 'arithr') * 2 + (sk == 'mapt')
                            ikn = ('const', 'func', 'table').index(ik)
                            wn = ('bare', 'seq-last', 'seq-first', 'for', 'rep').index(w)
                            if w == 'bare':
                                if ikn != combo % 3:
                                    continue
                            elif (combo + wn) % 4 != 0 or ikn != (combo // 4 + wn) % 3:
                                continue
                        # durations / slopes such that the scalar is a power of two at both ends when it divides
                        d = C(3) if op == '/' else C(2)
                        chans = ['A'] if ik == 'func' else ['A', 'B']
                        if ik == 'const':
                            inner = {'k': 'const', 'd': d, 'vals': {c: C(F(3, 2) + i) for i, c in enumerate(chans)}}
                        elif ik == 'func':
                            inner = {'k': 'func', 'c': 'A', 'd': d, 'coef': [C(1), C(F(1, 2))]}
                        else:
                            inner = {'k': 'table', 'ch': {c: [[C(0), C(1 + i), 'hold'], [['/', d, C(2)], C(-1), 'linear'],
                                                              [d, C(2 + i), 'linear']] for i, c in enumerate(chans)}}
                        slope = V('i1') if w == 'for' else C(1)
                        cf = [C(1), slope]
                        sc = {'allt': cf} if sk == 'allt' else {'mapt': {chans[-1]: cf}}
                        t = {'k': side, 'b': inner, 'op': op, 's': sc}
                        tail = {'k': 'const', 'd': C(1), 'vals': {c: C(F(1, 2)) for c in chans}}
                        if w == 'seq-last':
                            t = {'k': 'seq', 'ps': [tail, t]}
                        elif w == 'seq-first':
                            t = {'k': 'seq', 'ps': [t, tail]}
                        elif w == 'for':
                            t = {'k': 'for', 'i': 'i1', 'start': C(0), 'stop': C(2), 'step': C(1), 'b': t}
                        elif w == 'rep':
                            t = {'k': 'rep', 'n': C(2), 'b': t}
                        case = {'kind': 'tdarith', 'pt': t, 'params': {}, 'pad': '1', 'src': 'td-scalar-ends:' + op}
                        if op == '/':
                            case['noint'] = True
                        cs.append(case)
    return cs


def range_mentions_index_family():
    """round 4: the RANGE of a ForLoopPT refers to a parameter that has the loop index's own name (legal: the range is
    evaluated outside the loop).  Second capture site of the former finding mapping-captures-loop-index: the closed form
    substituted `start + i*step` under Sum(..., (i, ...)).  Round 6: INSIDE Wf.wf (Model.loop_sum binds the Sum over a
    fresh name like ForLoopPulseTemplate._sum_index; C07_for_closed_form has no side condition on the range), so these
    cases are strict: judged by check_corr against the Coq model and by check_spec."""
    cs = []
    body_v = {'k': 'const', 'd': C(1), 'vals': {'A': mul(V('i1'), V('a'))}}
    body_d = {'k': 'const', 'd': add(V('i1'), C(1)), 'vals': {'A': V('i1')}}
    for body in (body_v, body_d):
        for st, sp, se in ((V('i1'), add(V('i1'), C(2)), C(1)), (C(0), V('i1'), C(1)), (V('i1'), C(0), C(-1)),
                           (C(1), C(6), V('i1')), (V('i1'), mul(V('i1'), C(3)), V('i1'))):
            loop = {'k': 'for', 'i': 'i1', 'start': st, 'stop': sp, 'step': se, 'b': body}
            variants = [(loop, {'i1': '2', 'a': '3/4'}),
                        ({'k': 'map', 'b': loop, 'pm': {'i1': add(V('n'), V('i1'))}, 'cm': []}, {'i1': '1', 'n': '1', 'a': '3/4'}),
                        ({'k': 'for', 'i': 'i1', 'start': C(1), 'stop': C(4), 'step': C(1), 'b': loop}, {'a': '3/4'}),
                        ({'k': 'seq', 'ps': [loop, {'k': 'const', 'd': C(1), 'vals': {'A': C(1)}}]}, {'i1': '2', 'a': '3/4'})]
            for t, params in variants:
                cs.append({'kind': 'pulse', 'pt': t, 'params': used_params(t, params), 'pad': '1', 'src': 'range-mentions-index',
                           'shapes': []})
    return cs


def range_param_is_inner_index_family():
    """round 6 (found while removing the domain restriction above): the range of an OUTER loop refers to a parameter that
    has the name of an INNER loop's index (legal: the outer range is evaluated outside both loops).  Third capture site:
    ForLoopPT.duration / integral substituted `start + j*step` for the outer index into the body's closed form, whose
    Sum(..., (k, ...)) captured the parameter k.  ForLoopPT(ForLoopPT(ConstantPT('1+i', {A: 'i+k'}), 'k', 2), 'i', ('k', 'k+2'))
    at k = 3: duration 8, program lasts 18.  Repaired in /repo this round; strict cases."""
    cs = []
    bodies = [{'k': 'const', 'd': add(C(1), V('i1')), 'vals': {'A': add(V('i1'), V('i2'))}},
              {'k': 'const', 'd': C(1), 'vals': {'A': mul(V('i1'), V('i2')), 'B': V('i1')}}]
    ranges = ((V('i2'), add(V('i2'), C(2)), C(1)),      # start and stop mention the inner index's name
              (C(0), C(4), V('i2')),                    # step
              (V('i2'), C(0), C(-1)),                   # start, negative step
              (C(1), V('i2'), C(1)))                    # stop only (not substituted into the body: never captured)
    for body in bodies:
        for inner_range in ((C(0), C(2), C(1)), (C(0), V('m'), C(1))):
            inner = {'k': 'for', 'i': 'i2', 'start': inner_range[0], 'stop': inner_range[1], 'step': inner_range[2], 'b': body}
            for st, sp, se in ranges:
                outer = {'k': 'for', 'i': 'i1', 'start': st, 'stop': sp, 'step': se, 'b': inner}
                variants = [(outer, {'i2': '2', 'm': '3'}),
                            ({'k': 'seq', 'ps': [outer, {'k': 'const', 'd': C(1), 'vals': dict((c, C(1)) for c in body['vals'])}]},
                             {'i2': '3', 'm': '2'}),
                            ({'k': 'rep', 'n': C(2), 'b': outer}, {'i2': '2', 'm': '1'})]
                for t, params in variants:
                    cs.append({'kind': 'pulse', 'pt': t, 'params': used_params(t, params), 'pad': '1',
                               'src': 'range-param-is-inner-index', 'shapes': []})
    # the sequence between the loops, and the inner loop mapped (the Sum sits below another node)
    inner = {'k': 'for', 'i': 'i2', 'start': C(0), 'stop': C(2), 'step': C(1), 'b': bodies[0]}
    mid = {'k': 'seq', 'ps': [inner, {'k': 'const', 'd': V('i1'), 'vals': {'A': C(1)}}]}
    t = {'k': 'for', 'i': 'i1', 'start': V('i2'), 'stop': add(V('i2'), C(3)), 'step': C(1), 'b': mid}
    cs.append({'kind': 'pulse', 'pt': t, 'params': used_params(t, {'i2': '1'}), 'pad': '1', 'src': 'range-param-is-inner-index', 'shapes': []})
    t = {'k': 'for', 'i': 'i1', 'start': V('i2'), 'stop': add(V('i2'), C(2)), 'step': V('i2'), 'b': {'k': 'rep', 'n': C(2), 'b': inner}}
    cs.append({'kind': 'pulse', 'pt': t, 'params': used_params(t, {'i2': '2'}), 'pad': '1', 'src': 'range-param-is-inner-index', 'shapes': []})
    return cs


def round6_seed_class_family():
    """round 6, classes of seeds C07-9 / C07-10 (both were caught at first contact by older families; these cases pin the
    classes deterministically): (9) `scalar - pt` with a channel mapping that covers a STRICT, non-empty subset of the
    channels - the channels outside the mapping are negated, in atoms, loops and sequences, next to + and * (unaffected);
    (10) tables / point pulses that are constant up to a JUMP entry (a constant-waveform short cut must not swallow the
    jump), incl. a first entry at a finite time, inside loops and sequences, and next to hold / linear neighbours."""
    cs = []
    def case(t, params, src):
        cs.append({'kind': 'pulse', 'pt': t, 'params': used_params(t, params), 'pad': '1', 'src': src, 'shapes': []})
    two = {'k': 'const', 'd': C(2), 'vals': {'A': V('a'), 'B': C(1)}}
    three = {'k': 'table', 'ch': {'A': [[C(0), C(1), 'hold'], [C(1), V('a'), 'linear']], 'B': [[C(0), C(2), 'hold'], [C(1), C(2), 'hold']],
                                  'C': [[C(0), V('a'), 'hold'], [C(1), C(0), 'linear']]}}
    loop = {'k': 'for', 'i': 'i1', 'start': C(0), 'stop': C(3), 'step': C(1),
            'b': {'k': 'const', 'd': C(1), 'vals': {'A': V('i1'), 'B': add(V('i1'), C(1))}}}
    seq = {'k': 'seq', 'ps': [two, {'k': 'const', 'd': C(1), 'vals': {'A': C(3), 'B': V('a')}}]}
    for inner, maps in ((two, ({'A': C(2)}, {'B': V('a')})), (three, ({'A': C(2)}, {'B': C(1), 'C': V('a')}, {'C': C(3)})),
                        (loop, ({'A': C(2)}, {'B': C(1)})), (seq, ({'B': C(2)},))):
        for m in maps:
            for op in ('-', '+', '*'):
                case({'k': 'arithr', 'op': op, 's': {'map': m}, 'b': inner}, {'a': '3'}, 'seed-class:partial-map-left-' + op)
            case({'k': 'arithl', 'op': '-', 's': {'map': m}, 'b': inner}, {'a': '3'}, 'seed-class:partial-map-right--')
    # (10)
    def tb(ents):
        return {'k': 'table', 'ch': {'A': ents}}
    jumps = [tb([[C(0), C(1), 'hold'], [C(2), C(1), 'hold'], [C(4), V('a'), 'jump']]),
             tb([[C(3), C(1), 'hold'], [C(5), V('a'), 'jump']]),
             tb([[C(0), C(1), 'hold'], [C(1), C(1), 'linear'], [C(2), V('a'), 'jump']]),
             tb([[C(0), C(1), 'hold'], [C(1), V('a'), 'jump'], [C(2), V('a'), 'hold']]),
             tb([[C(0), C(1), 'hold'], [C(1), V('a'), 'jump'], [C(2), C(1), 'jump']]),
             tb([[C(0), C(1), 'hold'], [C(1), C(1), 'jump'], [C(3), V('a'), 'jump']]),
             {'k': 'table', 'ch': {'A': [[C(0), C(1), 'hold'], [C(2), V('a'), 'jump']], 'B': [[C(0), C(2), 'hold'], [C(2), C(2), 'hold']]}},
             {'k': 'point', 'cs': ['A', 'B'], 'ents': [[C(0), {'vec': [C(1), C(2)]}, 'hold'], [C(1), {'vec': [C(1), C(2)]}, 'hold'],
                                                      [C(2), {'vec': [V('a'), C(2)]}, 'jump']]},
             {'k': 'point', 'cs': ['A'], 'ents': [[C(1), {'s': C(1)}, 'hold'], [C(3), {'s': V('a')}, 'jump']]}]
    for t in jumps:
        case(t, {'a': '3'}, 'seed-class:constant-then-jump')
        case({'k': 'rep', 'n': C(2), 'b': t}, {'a': '-2'}, 'seed-class:constant-then-jump')
    t = tb([[C(0), V('i1'), 'hold'], [C(1), V('i1'), 'hold'], [C(2), add(V('i1'), V('a')), 'jump']])
    case({'k': 'for', 'i': 'i1', 'start': C(0), 'stop': C(3), 'step': C(1), 'b': t}, {'a': '2'}, 'seed-class:constant-then-jump')
    case({'k': 'seq', 'ps': [jumps[0], jumps[1]]}, {'a': '5'}, 'seed-class:constant-then-jump')
    return cs


def coverage_families():
    """round 4, coverage audit (VERIF_COVERAGE=1): input classes whose code paths inside the property's functions no
    generated case reached: (1) a time dependent scalar over point / multi-channel / pulse-arithmetic / mapped atoms
    (`_as_expression` of those classes feeds the integral), (2) composite templates INSIDE atomic ones (MappingPT /
    ArithmeticPT as sub-template of AtomicMultiChannelPT / ArithmeticAtomicPT: their build_waveform), (3) python numbers
    instead of strings as ConstantPT arguments, an explicitly declared AtomicMultiChannelPT duration, (4) pad_to called
    with a callable, with pt_kwargs and with the current duration (`padx`)."""
    cs = []

    def case(pt, params, src, kind='pulse', **kw):
        cs.append(dict({'kind': kind, 'pt': pt, 'params': params, 'pad': '1', 'src': src, 'shapes': []}, **kw))
    tb = {'k': 'table', 'ch': {'B': [[C(0), C(1), 'hold'], [C(1), V('a'), 'linear'], [C(2), C(3), 'linear']]}}
    cA = {'k': 'const', 'd': C(2), 'vals': {'A': V('a')}}
    cA1 = {'k': 'const', 'd': C(2), 'vals': {'A': C(F(1, 2))}}
    point = {'k': 'point', 'cs': ['A', 'B'], 'ents': [[C(0), {'vec': [C(1), C(2)]}, 'hold'], [C(1), {'s': C(2)}, 'linear'],
                                                      [C(2), {'vec': [C(3), V('a')]}, 'linear']]}
    multi = {'k': 'multi', 'ps': [tb, cA]}
    aatom = {'k': 'aatom', 'l': cA, 'op': '-', 'r': cA1}
    mapped = {'k': 'map', 'b': tb, 'pm': {'a': add(V('a'), C(1))}, 'cm': [['B', 'A']]}
    # (1)
    for name, inner in (('point', point), ('multi', multi), ('aatom', aatom), ('map', mapped)):
        chans = out_channels(inner)
        for op in ('+', '-', '*'):
            for sc in ({'allt': [C(1), C(1)]}, {'mapt': {chans[-1]: [C(0), C(F(1, 2))]}}):
                side = 'arithr' if op == '-' and 'allt' in sc else 'arithl'
                case({'k': side, 'b': inner, 'op': op, 's': sc}, {'a': '3/2'}, 'td-over-composite-atom:' + name, kind='tdarith')
    # (2)
    mB = {'k': 'map', 'b': tb, 'pm': {'a': mul(V('a'), C(2))}, 'cm': [['B', 'C']]}
    arB = {'k': 'arithl', 'b': tb, 'op': '*', 's': {'all': V('a')}}
    arB2 = {'k': 'arithr', 'b': tb, 'op': '-', 's': {'map': {'B': V('a')}}}
    for sub in (mB, arB, arB2):
        m = {'k': 'multi', 'ps': [sub, cA]}
        case(m, {'a': '3/2'}, 'composite-inside-atomic', padx=True)
        case({'k': 'for', 'i': 'i1', 'start': C(0), 'stop': C(3), 'step': C(1),
              'b': {'k': 'map', 'b': m, 'pm': {'a': add(V('a'), V('i1'))}, 'cm': []}}, {'a': '3/2'}, 'composite-inside-atomic')
    case({'k': 'aatom', 'l': {'k': 'map', 'b': tb, 'pm': {}, 'cm': [['B', 'A']]}, 'op': '+', 'r': cA}, {'a': '3/2'},
         'composite-inside-atomic', padx=True)
    case({'k': 'aatom', 'l': {'k': 'arithl', 'b': cA, 'op': '*', 's': {'all': C(2)}}, 'op': '-', 'r': cA1}, {'a': '3/2'},
         'composite-inside-atomic')
    # (3)
    numc = {'k': 'const', 'd': C(2), 'vals': {'A': C(F(3, 2)), 'B': C(-1)}, 'num': True}
    numh = {'k': 'const', 'd': C(F(1, 2)), 'vals': {'A': C(1)}, 'num': True}
    case(numc, {}, 'numeric-arguments', padx=True)
    case({'k': 'seq', 'ps': [numh, {'k': 'rep', 'n': C(3), 'b': numh}]}, {}, 'numeric-arguments', padx=True)
    case({'k': 'arithl', 'b': numc, 'op': '*', 's': {'all': V('a')}}, {'a': '3/2'}, 'numeric-arguments')
    case({'k': 'multi', 'ps': [tb, cA], 'dur': V('T')}, {'a': '3/2', 'T': '2'}, 'declared-duration', padx=True)
    case({'k': 'multi', 'ps': [tb, cA], 'dur': C(2)}, {'a': '3/2'}, 'declared-duration')
    case({'k': 'seq', 'ps': [{'k': 'multi', 'ps': [tb, cA], 'dur': mul(V('T'), C(2))}, {'k': 'multi', 'ps': [cA, tb]}]},
         {'a': '3/2', 'T': '1'}, 'declared-duration')
    # (4) on templates of every kind of duration (numeric / symbolic / loop sum)
    sym = {'k': 'const', 'd': V('T'), 'vals': {'A': V('a')}}
    case(sym, {'a': '3/2', 'T': '2'}, 'pad-variants', padx=True)
    case({'k': 'for', 'i': 'i1', 'start': C(1), 'stop': C(4), 'step': C(1),
          'b': {'k': 'const', 'd': V('i1'), 'vals': {'A': mul(V('i1'), V('a'))}}}, {'a': '3/2'}, 'pad-variants', padx=True)
    case({'k': 'par', 'b': tb, 'ov': {'A': [C(0), C(1)]}}, {'a': '3/2'}, 'pad-variants', padx=True)
    case({'k': 'arithl', 'b': cA, 'op': '+', 's': {'allt': [C(0), C(1)]}}, {'a': '3/2'}, 'pad-variants', kind='tdarith', padx=True)
    return cs


def known_class_family():
    """round 5 (audit of the known-finding predicates): inputs INSIDE the input class of each known finding combined with a
    healthy part - a second channel the finding does not touch, a non-empty first / last part around the affected one - so
    that a different violation on such an input shows up in a clause / channel the finding cannot explain (`classify`
    decides clause by clause).  Deterministic, quick + thorough."""
    cs = []

    def cst(d, **vals):
        return {'k': 'const', 'd': d, 'vals': {c: v for c, v in vals.items()}}

    def put(t, params, src):
        cs.append({'kind': 'pulse', 'pt': t, 'params': used_params(t, params), 'pad': '1', 'src': 'known-class:' + src})
    X = cst(C(1), A=C(1), B=V('a'))
    Y = cst(C(2), A=C(3), B=C(F(-1, 2)))
    NEG = cst(V('T'), A=C(5), B=C(2))
    pr = {'a': '3/4', 'T': '-1', 'n': '-1'}
    # negative-duration-empty: the negative part in the middle / first / last, as a repetition count, through a mapping,
    # as one iteration of a loop (durations 1, 0, -1 / -1, 0, 1), inside a repetition, under scalar arithmetic
    put({'k': 'seq', 'ps': [X, NEG, Y]}, pr, 'neg-middle')
    put({'k': 'seq', 'ps': [NEG, X, Y]}, pr, 'neg-first')
    put({'k': 'seq', 'ps': [X, Y, NEG]}, pr, 'neg-last')
    put({'k': 'seq', 'ps': [X, {'k': 'rep', 'n': V('n'), 'b': Y}, Y]}, pr, 'neg-rep-middle')
    put({'k': 'map', 'b': {'k': 'seq', 'ps': [X, cst(V('U'), A=C(5), B=C(2)), Y]}, 'pm': {'U': ['neg', V('a')]}, 'cm': []},
        pr, 'neg-mapped')
    loop_d = cst(V('i1'), A=add(V('i1'), C(2)), B=V('a'))
    for (a, o, st), nm in (((1, -2, -1), 'down'), ((-1, 2, 1), 'up')):
        loop = {'k': 'for', 'i': 'i1', 'start': C(a), 'stop': C(o), 'step': C(st), 'b': loop_d}
        put({'k': 'seq', 'ps': [X, loop, Y]}, pr, 'neg-loop-' + nm)
        put(loop, pr, 'neg-loop-bare-' + nm)
    put({'k': 'rep', 'n': C(2), 'b': {'k': 'seq', 'ps': [X, NEG, Y]}}, pr, 'neg-in-rep')
    put({'k': 'arithl', 'b': {'k': 'seq', 'ps': [X, NEG, Y]}, 'op': '+', 's': {'map': {'B': V('a')}}}, pr, 'neg-under-arith')
    # arith-over-parallel-order: channel B overwritten below the arithmetic, channel A (and C) healthy
    PAR = {'k': 'par', 'b': cst(C(2), A=C(1), C=V('a')), 'ov': {'B': [C(1)]}}
    for op in ('+', '-', '*', '/'):
        put({'k': 'arithl', 'b': PAR, 'op': op, 's': {'all': C(2)}}, pr, 'aop-left' + op)
    for op in ('+', '-', '*'):
        put({'k': 'arithr', 'b': PAR, 'op': op, 's': {'all': V('a')}}, pr, 'aop-right' + op)
    put({'k': 'arithl', 'b': PAR, 'op': '-', 's': {'map': {'A': C(2)}}}, pr, 'aop-map-healthy-channel')
    put({'k': 'arithl', 'b': PAR, 'op': '-', 's': {'map': {'B': C(2), 'C': C(1)}}}, pr, 'aop-map-overwritten-channel')
    put({'k': 'arithl', 'b': {'k': 'map', 'b': PAR, 'pm': {}, 'cm': [['B', 'D'], ['A', 'B']]}, 'op': '+', 's': {'all': C(2)}},
        pr, 'aop-renamed')
    put({'k': 'par', 'b': PAR, 'ov': {'D': [V('a')]}}, pr, 'aop-par-over-par')
    put({'k': 'arithl', 'b': {'k': 'seq', 'ps': [PAR, cst(C(1), A=C(2), B=C(3), C=C(4))]}, 'op': '*', 's': {'all': C(3)}},
        pr, 'aop-in-sequence')
    put({'k': 'for', 'i': 'i1', 'start': C(0), 'stop': C(3), 'step': C(2),
         'b': {'k': 'arithl', 'b': {'k': 'par', 'b': cst(C(1), A=V('i1')), 'ov': {'B': [add(V('i1'), C(1))]}}, 'op': '+',
               's': {'all': V('i1')}}}, pr, 'aop-in-loop')
    # FORMER finding table-constant-detection (repaired in /repo by 01efa2c; the entry was stale until round 5): constant
    # prefix followed by a ramp / jump on channel A, a plain ramp / steps on channel B - ordinary strict cases now
    TCD = {'k': 'table', 'ch': {'A': [[C(0), C(1), 'hold'], [C(1), C(1), 'hold'], [C(2), C(3), 'linear']],
                                'B': [[C(0), C(0), 'hold'], [C(2), V('a'), 'linear']]}}
    TCD2 = {'k': 'table', 'ch': {'A': [[C(0), C(2), 'hold'], [C(1), C(2), 'linear'], [C(2), C(0), 'jump']],
                                 'B': [[C(0), C(1), 'hold'], [C(1), C(3), 'hold'], [C(2), C(3), 'hold']]}}
    for nm, T in (('ramp', TCD), ('jump', TCD2)):
        put(T, pr, 'tcd-' + nm)
        put({'k': 'seq', 'ps': [X, T, Y]}, pr, 'tcd-%s-in-sequence' % nm)
        put({'k': 'arithl', 'b': T, 'op': '-', 's': {'map': {'B': V('a')}}}, pr, 'tcd-%s-under-arith' % nm)
        put({'k': 'map', 'b': T, 'pm': {}, 'cm': [['A', 'C'], ['B', 'A']]}, pr, 'tcd-%s-renamed' % nm)
        put({'k': 'rep', 'n': C(2), 'b': T}, pr, 'tcd-%s-repeated' % nm)
    # initial-head-empty-or-jump / final-tail-empty: the affected end next to a healthy integral / other end / channel
    JUMP = {'k': 'table', 'ch': {'A': [[C(0), C(1), 'hold'], [C(1), C(3), 'jump'], [C(2), C(2), 'linear']],
                                 'B': [[C(0), V('a'), 'hold'], [C(2), C(2), 'linear']]}}
    EMPTY = cst(C(0), A=C(5), B=C(7))
    put(JUMP, pr, 'ini-jump-two-channels')
    put({'k': 'seq', 'ps': [JUMP, Y]}, pr, 'ini-jump-first')
    put({'k': 'seq', 'ps': [EMPTY, X, Y]}, pr, 'ini-empty-first')
    put({'k': 'seq', 'ps': [X, Y, EMPTY]}, pr, 'tail-empty-last')
    put({'k': 'seq', 'ps': [EMPTY, X, EMPTY]}, pr, 'both-ends-empty')
    put({'k': 'rep', 'n': C(2), 'b': {'k': 'seq', 'ps': [X, EMPTY]}}, pr, 'tail-empty-in-rep')
    put({'k': 'arithl', 'b': {'k': 'seq', 'ps': [EMPTY, X]}, 'op': '*', 's': {'map': {'B': C(2)}}}, pr, 'ini-empty-under-arith')
    put({'k': 'for', 'i': 'i1', 'start': C(0), 'stop': C(3), 'step': C(1), 'b': cst(V('i1'), A=add(V('i1'), C(1)), B=V('a'))},
        pr, 'ini-first-iteration-empty')
    put({'k': 'for', 'i': 'i1', 'start': C(2), 'stop': C(-1), 'step': C(-1), 'b': cst(V('i1'), A=add(V('i1'), C(1)), B=V('a'))},
        pr, 'tail-last-iteration-empty')
    # a never instantiated LAST / FIRST part that mentions a parameter nobody provides (malformed stream): the program exists,
    # final_values / initial_values do not evaluate, pad_to cannot be built (found by the thorough tier of round 5)
    ghost = {'k': 'for', 'i': 'i2', 'start': C(3), 'stop': C(5), 'step': C(-1), 'b': cst(C(1), A=add(V('i2'), V('q')), B=V('q'))}
    for nm, ps in (('last', [X, ghost]), ('first', [ghost, X]), ('middle', [X, ghost, Y])):
        t = {'k': 'seq', 'ps': ps}
        cs.append({'kind': 'pulse', 'pt': t, 'params': {'a': '3/4'}, 'pad': '1', 'src': 'malformed',
                   'shapes': ['known-class:ghost-' + nm]})
    return cs


def lazy_dropped_channel_family():
    """round 6 (thorough tier alarm): a parameter that only the value of a DROPPED channel mentions is missing.  The code is
    lazy there - ConstantPT.build_waveform / FunctionPT.build_waveform skip a channel that an enclosing MappingPT maps to
    None before evaluating its value, so the template is instantiated with the parameter absent - while Spec.denote
    evaluates every value (None).  Malformed stream (non-strict): the program is compared with the denotation under the
    completed parameters (Corr.CLazy), the symbolic side under the given ones.  A dropped TABLE channel is evaluated by the
    code (get_entries_instantiated) and raises: both sides reject, ordinary malformed case.  Second class: see `never` below."""
    cs = []
    tab = {'k': 'table', 'ch': {'A': [[C(0), C(3), 'hold'], [C(1), V('i1'), 'linear'], [C(2), C(1), 'hold']],
                                'B': [[C(0), C(2), 'hold'], [C(2), V('i1'), 'linear']]}}
    tabj = {'k': 'table', 'ch': {'A': [[C(0), C(3), 'hold'], [C(1), V('i1'), 'jump'], [C(2), C(1), 'linear']],
                                 'B': [[C(0), C(2), 'hold'], [C(2), C(3), 'linear']]}}
    cgone = {'k': 'const', 'd': C(2), 'vals': {'C': mul(V('q'), C(2))}}
    fgone = {'k': 'func', 'c': 'C', 'd': C(2), 'coef': [V('q'), C(1)]}
    tgone = {'k': 'table', 'ch': {'C': [[C(0), V('q'), 'hold'], [C(2), C(1), 'linear']]}}
    def loop(b):
        return {'k': 'for', 'i': 'i1', 'start': C(1), 'stop': C(4), 'step': C(1), 'b': b}
    for nm, keep, gone in (('const', tab, cgone), ('const-jump', tabj, cgone), ('func', tab, fgone), ('table', tab, tgone)):
        m = {'k': 'map', 'b': {'k': 'multi', 'ps': [keep, gone]}, 'pm': {}, 'cm': [['A', 'E'], ['C', None]]}
        for wrap, t in (('loop', loop(m)), ('seq', {'k': 'seq', 'ps': [loop(m), loop(m)]}),
                        ('bare', {'k': 'map', 'b': m, 'pm': {'i1': V('a')}, 'cm': []})):
            cs.append({'kind': 'pulse', 'pt': t, 'params': used_params(t, {'a': '2'}), 'pad': '5/4', 'src': 'malformed',
                       'shapes': ['lazy-dropped-channel:%s:%s' % (nm, wrap)]})
    # two-channel constant, one channel dropped
    two = {'k': 'map', 'b': {'k': 'const', 'd': C(2), 'vals': {'A': V('a'), 'B': V('q')}}, 'pm': {}, 'cm': [['B', None]]}
    for wrap, t in (('bare', two), ('rep', {'k': 'rep', 'n': C(2), 'b': two}),
                    ('arith', {'k': 'arithl', 'b': two, 'op': '*', 's': {'all': C(2)}})):
        cs.append({'kind': 'pulse', 'pt': t, 'params': {'a': '3/4'}, 'pad': '1', 'src': 'malformed',
                   'shapes': ['lazy-dropped-channel:const2:' + wrap]})
    # a zero-fold repetition whose body's DURATION mentions the missing parameter: sympy reduces 0*(q + 1) to 0, so duration
    # and pad_to evaluate in the code; the model's strict 0 * None does not (Corr.pad_den takes the code's evaluated duration)
    never = {'k': 'rep', 'n': C(0), 'b': {'k': 'table', 'ch': {'A': [[C(0), C(0), 'hold'], [add(V('q'), C(1)), V('a'), 'linear']]}}}
    fx = {'k': 'func', 'c': 'A', 'd': C(1), 'coef': [V('a'), C(-1)]}
    cx = {'k': 'const', 'd': C(1), 'vals': {'A': C(2)}}
    for nm, ps in (('first', [never, fx]), ('middle', [cx, never, fx]), ('last', [fx, never])):
        cs.append({'kind': 'pulse', 'pt': {'k': 'seq', 'ps': ps}, 'params': {'a': '3/4'}, 'pad': '2', 'src': 'malformed',
                   'shapes': ['lazy-zero-fold-duration:' + nm]})
    return cs


def gen_cases(rng, tier, ctx):
    cases = handmade() + blind_class_families(tier) + capture_family()
    cases += zero_count_family(tier) + td_scalar_ends_family(tier) + range_mentions_index_family() + range_param_is_inner_index_family() + round6_seed_class_family() + coverage_families()
    cases += known_class_family() + lazy_dropped_channel_family()
    if tier == 'quick':
        cases += shared_body_forests(rng, 2)
        pairs = exhaustive_pair_forests(rng)
        cases += [c for c in pairs if rng.random() < 0.02]
        nf = 15
    else:
        cases += shared_body_forests(rng, 8) + exhaustive_pair_forests(rng)
        nf = 320
    for k in range(nf):
        cases += random_forest(rng, 2 if k % 3 == 0 else 3)
    n = {'quick': 220, 'thorough': 3200}[tier]
    if tier == 'quick':
        sweep = [c for c in range_sweep(3) if rng.random() < 0.4]
        sweep += [c for c in range_sweep(4, -4, WRAPPERS[1:]) if rng.random() < 0.012]
        sweep += [c for c in symbolic_range_sweep(4) if rng.random() < 0.04]
    else:
        # exhaustive: |start|, |stop| <= 4 (stop up to 5), step in +-{1,2,3}, under every loop-carrying class
        sweep = range_sweep(4, -4, WRAPPERS) + range_sweep(7, -1, ('bare',)) + symbolic_range_sweep(4)
    cases += sweep
    cases += tdarith_cases(rng, 40 if tier == 'quick' else 500)
    for k in range(n):
        depth = 1 if k % 7 == 0 else 2 if k % 3 == 0 else rng.choice([3, 3, 4])
        c = random_case(rng, depth)
        if rng.random() < 0.03 and c['params']:
            drop = rng.choice(sorted(c['params']))
            c['params'] = {k2: v for k2, v in c['params'].items() if k2 != drop}
            c['src'] = 'malformed'
        cases.append(c)
    return cases
