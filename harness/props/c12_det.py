"""C12 helper: DETERMINISTIC case families (independent of the rng seed, run in every tier).

Round 3: the seeded changes C12-3 / C12-4 were caught by the random stream, i.e. by luck of the draw.  Each family
below pins one input class the random grammar reaches only by chance:

  floor     negative non-integral FLOAT scalars (python float, numpy.float64, numpy.float32) through floor / ceiling / //
            on every access path of one object (in_scope, numeric, exact, symbolic, serialised), against the array path
            (the same values as a numpy array, before and after the scalar calls), as ExpressionVector items, through
            the operator a // b, and substituted first
  cmp       ordering comparisons between operands of EQUAL value but different writing (Float vs Integer vs Rational vs
            TimeType vs numpy scalars vs a formula that got its value by substitution), all four operators, expression on
            the left, number on the left (reflected method), expression against expression; plus neighbours that differ
            by 2^-10 / one ulp
  hist      one Expression object evaluated with a fixed sequence of argument TYPES (int, float, TimeType, numpy, array,
            exact mode in between): the cached lambdas must not remember the first argument types
  names     variables called like names of the numpy namespace / of the generated code / of qupulse internals
            (formulas are written over the model names, `rename` maps them for the implementation)
  reserved  names the formula language itself defines (pi, E, I, ... constants; N, S, Q, O, beta, gamma, len ...
            functions): never silently a variable with a wrong value
  shape     2-D ExpressionVector (row-major), rows evaluated again as vectors
  lenbc     Len / Broadcast (array valued formulas are outside the Coq language: judged by the listed values)
"""
import fractions

F = fractions.Fraction


def c(v, form='i'):
    return ['c', str(F(v)), form]


def v(x):
    return ['v', x]


def b(op, x, y):
    return ['b', op, x, y]


def u(op, x):
    return ['u', op, x]


def tv(ty, val):
    return {'ty': ty, 'v': str(F(val))}


# negative non-integral floats first, then the neighbours that a truncating floor gets right
FLOOR_VALUES = [F(-5, 2), F(-1, 2), F(-1, 2 ** 30), F(-4937471, 4), F(-7, 8), F(5, 2), F(-3), F(0), F(7, 4), F(3)]
FLOOR_FORMS = [
    ('floor', u('floor', v('a'))),
    ('ceil', u('ceil', v('a'))),
    ('floordiv-const', b('floordiv', v('a'), c(2))),
    ('floordiv-neg', b('floordiv', v('a'), c(-4))),
    ('floor-of-half', u('floor', b('div', v('a'), c(2)))),
    ('floor-times', b('mul', u('floor', v('a')), b('add', u('ceil', v('a')), c(1)))),
    ('floordiv-var', b('floordiv', v('a'), v('b'))),
    ('neg-floor-neg', u('neg', u('floor', u('neg', v('a'))))),
    ('floor-in-max', b('max', u('floor', v('a')), b('floordiv', v('b'), v('a')))),
]


def _floor_cases():
    out = []
    for name, e in FLOOR_FORMS:
        for ty in ('float', 'npfloat', 'npf32'):
            calls = []
            arr = {'a': {'ty': 'arrf', 'v': [str(q) for q in FLOOR_VALUES if q != 0 or 'max' not in name]}}
            if name in ('floordiv-var', 'floor-in-max'):
                arr['b'] = tv('float' if ty == 'npf32' else ty, F(1, 2))
            calls.append({'path': 'array', 'scope': dict(arr)})            # the array path first ...
            for q in FLOOR_VALUES:
                if q == 0 and name == 'floor-in-max':
                    continue
                sc = {'a': tv(ty, q)}
                if 'b' in arr:
                    sc['b'] = arr['b']
                for p in ('in_scope', 'numeric', 'exact', 'symfull', 'serial'):
                    if ty == 'npf32' and p in ('symfull', 'serial'):
                        continue
                    calls.append({'path': p, 'scope': sc})
                calls.append({'path': 'array', 'scope': dict(sc, a={'ty': 'arrf', 'v': [str(q)]})})
            calls.append({'path': 'array', 'scope': dict(arr)})            # ... and again after the scalar calls
            out.append({'kind': 'eval', 'expr': e, 'route': 'str', 'calls': calls, 'history': True,
                        'family': 'det:floor:%s:%s' % (name, ty)})
    # the operator route  a // b  with float operands on either side
    for q in (F(-5, 2), F(-1, 2), F(7, 4)):
        for num in (tv('float', 2), tv('npfloat', F(1, 2)), tv('float', -4), tv('int', 2)):
            for swap in (False, True):
                out.append({'kind': 'build', 'op': 'floordiv', 'a': v('a'), 'b': {'num': num}, 'swap': swap,
                            'scope': {'a': tv('float', q)}, 'path': 'in_scope', 'family': 'det:floor:operator'})
    # ExpressionVector items
    for q in (F(-5, 2), F(-1, 2 ** 30), F(-7, 8)):
        for ty in ('float', 'numpy'):
            for p in ('in_scope', 'numeric', 'item', 'serial', 'symfull'):
                out.append({'kind': 'vec', 'exprs': [e for _, e in FLOOR_FORMS[:6]],
                            'scope': {'a': tv('npfloat' if ty == 'numpy' else 'float', q)}, 'path': p,
                            'family': 'det:floor:vector'})
    # substituted first (the float becomes a sympy Float inside the formula), then evaluated
    for q in (F(-5, 2), F(-7, 8)):
        for name, e in FLOOR_FORMS[:6]:
            e2 = b('add', e, v('x'))
            out.append({'kind': 'partial', 'expr': e2, 'route': 'str', 'subs': {'a': {'num': tv('float', q)}},
                        'scope': {'x': tv('float', F(-1, 4))}, 'path': 'in_scope', 'family': 'det:floor:partial'})
            out.append({'kind': 'partial', 'expr': e2, 'route': 'str', 'subs': {'x': {'num': tv('int', 1)}},
                        'scope': {'a': tv('float', q)}, 'path': 'in_scope', 'family': 'det:floor:partial'})
    return out


def _cmp_cases():
    out = []
    half, two, tq = F(1, 2), F(2), F(3, 4)
    # (a formula, substitution for a, b formula, raw number standing for b or None)
    eq = [
        (c(two, 'f'), None, c(two, 'i'), None),
        (c(two, 'i'), None, c(two, 'f'), None),
        (c(half, 'r'), None, c(half, 'f'), None),
        (c(half, 'f'), None, c(half, 'r'), None),
        (c(two, 'f'), None, c(two, 'i'), tv('int', 2)),
        (c(two, 'i'), None, c(two, 'f'), tv('float', 2)),
        (c(two, 'i'), None, c(two, 'f'), tv('npfloat', 2)),
        (c(two, 'f'), None, c(two, 'i'), tv('npint', 2)),
        (c(half, 'r'), None, c(half, 'f'), tv('float', half)),
        (c(half, 'f'), None, c(half, 'r'), tv('time', half)),
        (c(tq, 'r'), None, c(tq, 'r'), tv('time', tq)),
        (c(tq, 'f'), None, c(tq, 'r'), tv('time', tq)),
        (c(F(1, 3), 'r'), None, c(F(1, 3), 'r'), tv('time', F(1, 3))),
        (c(F(-5, 2), 'r'), None, c(F(-5, 2), 'f'), tv('npfloat', F(-5, 2))),
        (b('mul', v('a'), v('b')), {'a': tv('float', half), 'b': tv('int', 4)}, c(two, 'i'), tv('int', 2)),
        (b('mul', v('a'), v('b')), {'a': tv('float', half), 'b': tv('int', 4)}, c(two, 'i'), None),
        (b('add', v('a'), c(1)), {'a': tv('time', F(1, 2))}, c(F(3, 2), 'f'), tv('float', F(3, 2))),
        (b('div', c(3), c(2)), None, c(F(3, 2), 'f'), tv('float', F(3, 2))),
        (u('floor', c(F(5, 2), 'f')), None, c(two, 'f'), tv('float', 2)),
    ]
    eps = F(1, 2 ** 10)
    third = F(0.3333333333333333)       # the double next to 1/3 (below it)
    near = [
        (c(two, 'f'), None, c(two + eps, 'f'), tv('float', two + eps)),
        (c(two + eps, 'f'), None, c(two, 'i'), tv('int', 2)),
        (c(F(1, 3), 'r'), None, c(third, 'r'), tv('float', third)),
        (c(half, 'r'), None, c(half - eps, 'f'), tv('float', half - eps)),
    ]
    for group, fam in ((eq, 'equal'), (near, 'near')):
        for a, asubs, bb, num in group:
            for op in ('lt', 'le', 'gt', 'ge'):
                forms = [(a, asubs, bb, None)]                       # expression <op> expression
                if num is not None:
                    forms.append((a, asubs, bb, dict(num, side='b')))    # expression <op> number
                    if asubs is None:
                        # number <op> expression (reflected): the roles are exchanged, the number is on the left
                        forms.append((bb, None, a, None if num is None else dict(num, side='a')))
                if asubs is None:
                    forms.append((bb, None, a, None))                # the other order
                for fa, fs, fb, fn in forms:
                    case = {'kind': 'cmp', 'op': op, 'a': fa, 'b': fb, 'rhs_num': False, 'samples': [{}],
                            'family': 'det:cmp:' + fam}
                    if fs:
                        case['a_subs'] = fs
                    if fn:
                        case['num'] = fn
                    out.append(case)
    # shapes sympy decides without values / leaves open: Abs(a) >= 0 ... (sound decisions only, sampled)
    xs = [{'a': str(F(k, 2))} for k in (-5, -1, 0, 1, 4)]
    for a, bb in ((u('abs', v('a')), c(0)), (u('abs', v('a')), c(0, 'f')), (b('add', u('pow:2', v('a')), c(1)), c(0)),
                  (u('neg', u('abs', v('a'))), c(0, 'f')), (b('sub', u('floor', v('a')), v('a')), c(0)),
                  (b('max', v('a'), c(2)), c(two, 'f')), (b('min', v('a'), c(2)), c(two, 'f'))):
        for op in ('lt', 'le', 'gt', 'ge'):
            for swap in (False, True):
                x, y = (bb, a) if swap else (a, bb)
                out.append({'kind': 'cmp', 'op': op, 'a': x, 'b': y, 'rhs_num': False, 'samples': xs,
                            'family': 'det:cmp:symbolic'})
    return out


HIST_FORMS = [
    b('add', u('floor', b('mul', v('a'), v('b'))), b('floordiv', v('a'), c(2))),
    b('add', b('div', v('a'), v('b')), v('n')),
    b('mul', b('max', v('a'), b('div', v('b'), c(2))), ['idx', 'v', v('n')]),
    b('add', b('mul', c(F(1, 3), 'r'), v('a')), u('ceil', v('b'))),
    b('sub', ['sum', 'k', c(0), v('n'), b('mul', v('k'), v('a'))], u('abs', v('b'))),
    b('add', ['ite', b('lt', v('a'), v('b')), v('a'), b('mul', c(2), v('b'))], c(1)),
    u('pow:-1', b('add', v('a'), b('mul', v('b'), v('b')))),
]
HIST_SCOPES = {
    'int': {'a': tv('int', 7), 'b': tv('int', -2)},
    'int2': {'a': tv('int', -3), 'b': tv('int', 4)},
    'float': {'a': tv('float', F(-5, 2)), 'b': tv('float', F(1, 2))},
    'float2': {'a': tv('float', F(9, 4)), 'b': tv('float', F(-3, 2))},
    'time': {'a': tv('time', F(7, 3)), 'b': tv('time', F(-1, 2))},
    'numpy': {'a': tv('npfloat', F(-7, 4)), 'b': tv('npint', 2)},
    'mixed': {'a': tv('time', F(5, 2)), 'b': tv('float', F(-1, 4))},
}
HIST_ORDERS = [
    [('in_scope', 'int'), ('in_scope', 'float'), ('in_scope', 'time'), ('exact', 'int'), ('exact', 'time'),
     ('array', 'float'), ('in_scope', 'int2'), ('numeric', 'numpy'), ('exact', 'int2'), ('in_scope', 'mixed')],
    [('exact', 'time'), ('exact', 'int'), ('in_scope', 'time'), ('in_scope', 'int'), ('array', 'float'),
     ('exact', 'int2'), ('in_scope', 'float2'), ('exact', 'time')],
    [('array', 'float'), ('in_scope', 'float'), ('array', 'int'), ('in_scope', 'int'), ('exact', 'int'),
     ('numeric', 'float2'), ('array', 'float'), ('exact', 'time'), ('in_scope', 'numpy')],
]


def _hist_cases(usable):
    out = []
    for fi, e in enumerate(HIST_FORMS):
        for oi, order in enumerate(HIST_ORDERS):
            calls = []
            for path, prof in order:
                if path == 'array':
                    sc = dict(HIST_SCOPES['float' if prof == 'float' else 'int'])
                    sc['a'] = {'ty': 'arrf', 'v': ['-5/2', '3/4', '2', '-1/2']} if prof == 'float' else \
                        {'ty': 'arri', 'v': ['-3', '5', '2', '1']}
                else:
                    sc = dict(HIST_SCOPES[prof])
                sc['n'] = tv('int', 2)
                sc['v'] = {'ty': 'arri', 'v': ['4', '-1', '3']}
                sc = {x: t for x, t in sc.items() if x in _names(e)}
                if usable(e, sc, path):
                    calls.append({'path': path, 'scope': sc})
            out.append({'kind': 'eval', 'expr': e, 'route': 'str', 'calls': calls, 'history': True,
                        'family': 'det:hist:%d:%d' % (fi, oi)})
    return out


def _names(e):
    out = set()
    if e[0] == 'v':
        out.add(e[1])
    if e[0] == 'idx':
        out.add(e[1])
    for x in e:
        if isinstance(x, list):
            out |= _names(x)
    return out


# names a parameter may legitimately have (valid identifiers that sympy parses as symbols)
NAME_POOL = [
    # the numpy namespace / python builtins not used by the generated code: must simply work
    'array', 'where', 'dot', 'numpy', 'math', 'e', 'inf', 'absolute', 'lambdified', 'kwargs', 'scope', 'parameters',
    'expression', 'variables', 'alpha', 'Omega', 'x_1', '_a', 'cls',
    # names the generated numpy code itself uses
    'select', 'less', 'greater', 'less_equal', 'greater_equal', 'equal', 'not_equal', 'logical_and', 'logical_or',
    'logical_not', 'builtins', 'range', 'mod', 'broadcast_to', 'TimeType', 'amin', 'amax',
    # keyword interface of evaluate_numeric(**kwargs)
    'self',
]
NAME_FORMS = [
    b('add', b('mul', v('a'), v('b')), v('a')),
    b('mul', b('min', v('a'), c(5)), b('max', v('b'), v('a'))),
    b('mul', u('floor', b('div', v('a'), c(2))), u('abs', v('b'))),
    ['ite', b('and', b('gt', v('a'), v('b')), b('le', v('b'), c(9))), v('a'), b('mul', c(2), v('b'))],
    ['ite', b('or', b('ge', v('a'), c(3)), u('not', b('eq', v('b'), c(1)))), v('a'), c(0)],
    b('add', ['sum', 'k', c(0), c(3), b('mul', v('k'), v('a'))], v('b')),
    b('add', b('mul', c(F(1, 3), 'r'), v('a')), b('div', v('b'), c(2))),
    b('mul', ['ibc', v('a'), 3, c(1)], v('b')),
    b('add', ['idx', 'v', c(1)], b('mul', v('a'), v('b'))),
]
NAME_SCOPES = [{'a': tv('int', 3), 'b': tv('int', 5)}, {'a': tv('float', F(-5, 2)), 'b': tv('time', F(7, 2))}]


def _name_cases(tier):
    out = []
    for ni, nm in enumerate(NAME_POOL):
        for fi, e in enumerate(NAME_FORMS):
            if tier == 'quick' and (ni + fi) % 3:          # every name with 3 of the 9 formulas
                continue
            for target in ('a', 'b'):
                if tier == 'quick' and (ni + fi // 3) % 2 != (target == 'b'):
                    continue
                calls = []
                for sc in NAME_SCOPES:
                    sc = dict(sc)
                    if 'v' in _names(e):
                        sc['v'] = {'ty': 'arri', 'v': ['4', '-1', '3']}
                    for p in ('in_scope', 'numeric', 'exact', 'symfull', 'serial'):
                        if p == 'symfull' and 'v' in sc:
                            continue
                        if p == 'exact' and any(t['ty'] == 'float' for t in sc.values()):
                            continue
                        calls.append({'path': p, 'scope': sc})
                out.append({'kind': 'eval', 'expr': e, 'route': 'str', 'calls': calls, 'rename': {target: nm},
                            'family': 'det:names'})
    # two renamed variables at once, swapped roles
    for x, y in (('select', 'less'), ('less', 'select'), ('array', 'where'), ('e', 'inf')):
        for e in NAME_FORMS[:4]:
            calls = [{'path': p, 'scope': dict(NAME_SCOPES[0])} for p in ('in_scope', 'exact', 'symfull')]
            out.append({'kind': 'eval', 'expr': e, 'route': 'str', 'calls': calls, 'rename': {'a': x, 'b': y},
                        'family': 'det:names'})
    return out


# names the formula language defines itself.  'const': a constant (not a variable; value given), 'complex': the
# imaginary unit, 'reject': using the name as a variable is refused when the expression is constructed.
RESERVED = {
    'pi': ('const', '3.141592653589793'), 'E': ('const', '2.718281828459045'), 'I': ('complex', None),
    'GoldenRatio': ('const', '1.618033988749895'), 'EulerGamma': ('const', '0.5772156649015329'),
    'Catalan': ('const', '0.915965594177219'),
    'N': ('reject', None), 'S': ('reject', None), 'Q': ('reject', None), 'O': ('reject', None),
    'beta': ('reject', None), 'gamma': ('reject', None), 'zeta': ('reject', None), 'lambda': ('reject', None),
    'len': ('reject', None), 'Len': ('reject', None), 'sin': ('reject', None), 'floor': ('reject', None),
    'Max': ('reject', None), 'Sum': ('reject', None), 'Symbol': ('reject', None), 'sqrt': ('reject', None),
    'True': ('reject', None), 'None': ('reject', None), 'minimum': ('reject', None), 'maximum': ('reject', None), 'in': ('reject', None), 'is': ('reject', None),
}


def _reserved_cases():
    return [{'kind': 'reserved', 'name': nm, 'role': role, 'value': val, 'template': tpl, 'family': 'det:reserved'}
            for nm, (role, val) in sorted(RESERVED.items())
            for tpl in ('{n}*t', 't + {n}*x', 'Max({n}*t, x)')]


def _shape_cases():
    out = []
    es = [b('mul', v('a'), v('b')), u('floor', v('a')), b('div', v('a'), c(2)), b('sub', v('b'), v('a')),
          b('floordiv', v('a'), v('b')), c(F(1, 2), 'r')]
    for shape in ((2, 3), (3, 2), (1, 6), (6, 1), (2, 2)):
        n = shape[0] * shape[1]
        for sc in ({'a': tv('int', 7), 'b': tv('int', -2)}, {'a': tv('float', F(-5, 2)), 'b': tv('float', F(1, 2))}):
            for p in ('in_scope', 'numeric', 'serial', 'symfull', 'item'):
                out.append({'kind': 'vec', 'exprs': es[:n], 'shape': list(shape), 'scope': sc, 'path': p,
                            'family': 'det:shape'})
    return out


# Len / Broadcast (qupulse's own functions; array VALUED formulas are outside the Coq language): formula text, scope,
# the value the formula denotes (numbers as strings of fractions, nested lists for arrays)
LENBC = [
    ('len(v)', {'v': [4, -1, 3]}, '3'),
    ('Len(v)*a', {'v': [4, -1, 3], 'a': 2}, '6'),
    ('len(v) + v[0]', {'v': [4, -1, 3]}, '7'),
    ('Sum(v[i], (i, 0, len(v) - 1))', {'v': [4, -1, 3, 5]}, '11'),
    ('Sum(v[i]*i, (i, 0, len(v) - 1))/len(v)', {'v': [4, -1, 3, 6]}, '23/4'),
    ('Broadcast(a, (3,))', {'a': 2}, ['2', '2', '2']),
    ('Broadcast(a, (3,))*b', {'a': 2, 'b': '3/2'}, ['3', '3', '3']),
    ('Broadcast(a, (3,))[1]', {'a': 2}, '2'),
    ('Broadcast(a*b, (2,))[i]', {'a': 2, 'b': 3, 'i': 1}, '6'),
    ('Broadcast(a*b, (2,))[i]', {'a': 2, 'b': '-5/2', 'i': -1}, '-5'),
    ('Broadcast(v, (3,))[2]', {'v': [4, -1, 3]}, '3'),
    ('Broadcast(v, (2, 3))', {'v': [4, -1, 3]}, [['4', '-1', '3'], ['4', '-1', '3']]),
    ('Sum(Broadcast(a, (3,))[i], (i, 0, 2))', {'a': '-5/2'}, '-15/2'),
    ('len(Broadcast(a, (4,)))', {'a': 2}, '4'),
    ('floor(Broadcast(a, (2,))[0])', {'a': '-5/2'}, '-3'),
    ('IndexedBroadcast(a, (3,), 2) + len(v)', {'a': '1/2', 'v': [1, 2]}, '5/2'),
]


def _lenbc_cases():
    out = []
    for text, sc, want in LENBC:
        for p in ('in_scope', 'numeric', 'exact', 'serial', 'twice'):
            out.append({'kind': 'lenbc', 'text': text, 'scope': sc, 'want': want, 'path': p, 'family': 'det:lenbc'})
    return out


def det_cases(tier, usable):
    return _floor_cases() + _cmp_cases() + _hist_cases(usable) + _name_cases(tier) + _reserved_cases() + \
        _shape_cases() + _lenbc_cases()
