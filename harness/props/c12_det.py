"""C12 helper: DETERMINISTIC case families (independent of the rng seed, run in every tier).

Round 3: the seeded changes C12-3 / C12-4 were caught by the random stream, i.e. by luck of the draw.  Each family
below pins one input class the random grammar reaches only by chance:

  floor     negative non-integral FLOAT scalars (python float, numpy.float64, numpy.float32) through floor / ceiling / //
            on every access path of one object (in_scope, numeric, exact, symbolic, serialised), against the array path
            (the same values as a numpy array, before and after the scalar calls), as ExpressionVector items, through
            the operator a // b, and substituted first
  cmp       ordering comparisons between operands of EQUAL value but different writing (Float vs Integer vs Rational vs
            TimeType vs numpy scalars vs a formula that got its value by substitution), all four operators, expression on
            the left, number on the left (reflected method), expression against expression; plus neighbours that differ
            by 2^-10 / one ulp
  hist      one Expression object evaluated with a fixed sequence of argument TYPES (int, float, TimeType, numpy, array,
            exact mode in between): the cached lambdas must not remember the first argument types
  names     variables called like names of the numpy namespace / of the generated code / of qupulse internals
            (formulas are written over the model names, `rename` maps them for the implementation)
  reserved  names the formula language itself defines (pi, E, I, ... constants; N, S, Q, O, beta, gamma, len ...
            functions): never silently a variable with a wrong value
  shape     2-D ExpressionVector (row-major), rows evaluated again as vectors
  lenbc     Len / Broadcast (array valued formulas are outside the Coq language: judged by the listed values)
"""
import fractions

F = fractions.Fraction


def c(v, form='i'):
    return ['c', str(F(v)), form]


def v(x):
    return ['v', x]


def b(op, x, y):
    return ['b', op, x, y]


def u(op, x):
    return ['u', op, x]


def tv(ty, val):
    return {'ty': ty, 'v': str(F(val))}


# negative non-integral floats first, then the neighbours that a truncating floor gets right
FLOOR_VALUES = [F(-5, 2), F(-1, 2), F(-1, 2 ** 30), F(-4937471, 4), F(-7, 8), F(5, 2), F(-3), F(0), F(7, 4), F(3)]
FLOOR_FORMS = [
    ('floor', u('floor', v('a'))),
    ('ceil', u('ceil', v('a'))),
    ('floordiv-const', b('floordiv', v('a'), c(2))),
    ('floordiv-neg', b('floordiv', v('a'), c(-4))),
    ('floor-of-half', u('floor', b('div', v('a'), c(2)))),
    ('floor-times', b('mul', u('floor', v('a')), b('add', u('ceil', v('a')), c(1)))),
    ('floordiv-var', b('floordiv', v('a'), v('b'))),
    ('neg-floor-neg', u('neg', u('floor', u('neg', v('a'))))),
    ('floor-in-max', b('max', u('floor', v('a')), b('floordiv', v('b'), v('a')))),
]


def _floor_cases():
    out = []
    for name, e in FLOOR_FORMS:
        for ty in ('float', 'npfloat', 'npf32'):
            calls = []
            arr = {'a': {'ty': 'arrf', 'v': [str(q) for q in FLOOR_VALUES if q != 0 or 'max' not in name]}}
            if name in ('floordiv-var', 'floor-in-max'):
                arr['b'] = tv('float' if ty == 'npf32' else ty, F(1, 2))
            calls.append({'path': 'array', 'scope': dict(arr)})            # the array path first ...
            for q in FLOOR_VALUES:
                if q == 0 and name == 'floor-in-max':
                    continue
                sc = {'a': tv(ty, q)}
                if 'b' in arr:
                    sc['b'] = arr['b']
                for p in ('in_scope', 'numeric', 'exact', 'symfull', 'serial'):
                    if ty == 'npf32' and p in ('symfull', 'serial'):
                        continue
                    calls.append({'path': p, 'scope': sc})
                calls.append({'path': 'array', 'scope': dict(sc, a={'ty': 'arrf', 'v': [str(q)]})})
            calls.append({'path': 'array', 'scope': dict(arr)})            # ... and again after the scalar calls
            out.append({'kind': 'eval', 'expr': e, 'route': 'str', 'calls': calls, 'history': True,
                        'family': 'det:floor:%s:%s' % (name, ty)})
    # the operator route  a // b  with float operands on either side
    for q in (F(-5, 2), F(-1, 2), F(7, 4)):
        for num in (tv('float', 2), tv('npfloat', F(1, 2)), tv('float', -4), tv('int', 2)):
            for swap in (False, True):
                out.append({'kind': 'build', 'op': 'floordiv', 'a': v('a'), 'b': {'num': num}, 'swap': swap,
                            'scope': {'a': tv('float', q)}, 'path': 'in_scope', 'family': 'det:floor:operator'})
    # ExpressionVector items
    for q in (F(-5, 2), F(-1, 2 ** 30), F(-7, 8)):
        for ty in ('float', 'numpy'):
            for p in ('in_scope', 'numeric', 'item', 'serial', 'symfull'):
                out.append({'kind': 'vec', 'exprs': [e for _, e in FLOOR_FORMS[:6]],
                            'scope': {'a': tv('npfloat' if ty == 'numpy' else 'float', q)}, 'path': p,
                            'family': 'det:floor:vector'})
    # substituted first (the float becomes a sympy Float inside the formula), then evaluated
    for q in (F(-5, 2), F(-7, 8)):
        for name, e in FLOOR_FORMS[:6]:
            e2 = b('add', e, v('x'))
            out.append({'kind': 'partial', 'expr': e2, 'route': 'str', 'subs': {'a': {'num': tv('float', q)}},
                        'scope': {'x': tv('float', F(-1, 4))}, 'path': 'in_scope', 'family': 'det:floor:partial'})
            out.append({'kind': 'partial', 'expr': e2, 'route': 'str', 'subs': {'x': {'num': tv('int', 1)}},
                        'scope': {'a': tv('float', q)}, 'path': 'in_scope', 'family': 'det:floor:partial'})
    return out


def _cmp_cases():
    out = []
    half, two, tq = F(1, 2), F(2), F(3, 4)
    # (a formula, substitution for a, b formula, raw number standing for b or None)
    eq = [
        (c(two, 'f'), None, c(two, 'i'), None),
        (c(two, 'i'), None, c(two, 'f'), None),
        (c(half, 'r'), None, c(half, 'f'), None),
        (c(half, 'f'), None, c(half, 'r'), None),
        (c(two, 'f'), None, c(two, 'i'), tv('int', 2)),
        (c(two, 'i'), None, c(two, 'f'), tv('float', 2)),
        (c(two, 'i'), None, c(two, 'f'), tv('npfloat', 2)),
        (c(two, 'f'), None, c(two, 'i'), tv('npint', 2)),
        (c(half, 'r'), None, c(half, 'f'), tv('float', half)),
        (c(half, 'f'), None, c(half, 'r'), tv('time', half)),
        (c(tq, 'r'), None, c(tq, 'r'), tv('time', tq)),
        (c(tq, 'f'), None, c(tq, 'r'), tv('time', tq)),
        (c(F(1, 3), 'r'), None, c(F(1, 3), 'r'), tv('time', F(1, 3))),
        (c(F(-5, 2), 'r'), None, c(F(-5, 2), 'f'), tv('npfloat', F(-5, 2))),
        (b('mul', v('a'), v('b')), {'a': tv('float', half), 'b': tv('int', 4)}, c(two, 'i'), tv('int', 2)),
        (b('mul', v('a'), v('b')), {'a': tv('float', half), 'b': tv('int', 4)}, c(two, 'i'), None),
        (b('add', v('a'), c(1)), {'a': tv('time', F(1, 2))}, c(F(3, 2), 'f'), tv('float', F(3, 2))),
        (b('div', c(3), c(2)), None, c(F(3, 2), 'f'), tv('float', F(3, 2))),
        (u('floor', c(F(5, 2), 'f')), None, c(two, 'f'), tv('float', 2)),
    ]
    eps = F(1, 2 ** 10)
    third = F(0.3333333333333333)       # the double next to 1/3 (below it)
    near = [
        (c(two, 'f'), None, c(two + eps, 'f'), tv('float', two + eps)),
        (c(two + eps, 'f'), None, c(two, 'i'), tv('int', 2)),
        (c(F(1, 3), 'r'), None, c(third, 'r'), tv('float', third)),
        (c(half, 'r'), None, c(half - eps, 'f'), tv('float', half - eps)),
    ]
    for group, fam in ((eq, 'equal'), (near, 'near')):
        for a, asubs, bb, num in group:
            for op in ('lt', 'le', 'gt', 'ge'):
                forms = [(a, asubs, bb, None)]                       # expression <op> expression
                if num is not None:
                    forms.append((a, asubs, bb, dict(num, side='b')))    # expression <op> number
                    if asubs is None:
                        # number <op> expression (reflected): the roles are exchanged, the number is on the left
                        forms.append((bb, None, a, None if num is None else dict(num, side='a')))
                if asubs is None:
                    forms.append((bb, None, a, None))                # the other order
                for fa, fs, fb, fn in forms:
                    case = {'kind': 'cmp', 'op': op, 'a': fa, 'b': fb, 'rhs_num': False, 'samples': [{}],
                            'family': 'det:cmp:' + fam}
                    if fs:
                        case['a_subs'] = fs
                    if fn:
                        case['num'] = fn
                    out.append(case)
    # shapes sympy decides without values / leaves open: Abs(a) >= 0 ... (sound decisions only, sampled)
    xs = [{'a': str(F(k, 2))} for k in (-5, -1, 0, 1, 4)]
    for a, bb in ((u('abs', v('a')), c(0)), (u('abs', v('a')), c(0, 'f')), (b('add', u('pow:2', v('a')), c(1)), c(0)),
                  (u('neg', u('abs', v('a'))), c(0, 'f')), (b('sub', u('floor', v('a')), v('a')), c(0)),
                  (b('max', v('a'), c(2)), c(two, 'f')), (b('min', v('a'), c(2)), c(two, 'f'))):
        for op in ('lt', 'le', 'gt', 'ge'):
            for swap in (False, True):
                x, y = (bb, a) if swap else (a, bb)
                out.append({'kind': 'cmp', 'op': op, 'a': x, 'b': y, 'rhs_num': False, 'samples': xs,
                            'family': 'det:cmp:symbolic'})
    return out


HIST_FORMS = [
    b('add', u('floor', b('mul', v('a'), v('b'))), b('floordiv', v('a'), c(2))),
    b('add', b('div', v('a'), v('b')), v('n')),
    b('mul', b('max', v('a'), b('div', v('b'), c(2))), ['idx', 'v', v('n')]),
    b('add', b('mul', c(F(1, 3), 'r'), v('a')), u('ceil', v('b'))),
    b('sub', ['sum', 'k', c(0), v('n'), b('mul', v('k'), v('a'))], u('abs', v('b'))),
    b('add', ['ite', b('lt', v('a'), v('b')), v('a'), b('mul', c(2), v('b'))], c(1)),
    u('pow:-1', b('add', v('a'), b('mul', v('b'), v('b')))),
]
HIST_SCOPES = {
    'int': {'a': tv('int', 7), 'b': tv('int', -2)},
    'int2': {'a': tv('int', -3), 'b': tv('int', 4)},
    'float': {'a': tv('float', F(-5, 2)), 'b': tv('float', F(1, 2))},
    'float2': {'a': tv('float', F(9, 4)), 'b': tv('float', F(-3, 2))},
    'time': {'a': tv('time', F(7, 3)), 'b': tv('time', F(-1, 2))},
    'numpy': {'a': tv('npfloat', F(-7, 4)), 'b': tv('npint', 2)},
    'mixed': {'a': tv('time', F(5, 2)), 'b': tv('float', F(-1, 4))},
}
HIST_ORDERS = [
    [('in_scope', 'int'), ('in_scope', 'float'), ('in_scope', 'time'), ('exact', 'int'), ('exact', 'time'),
     ('array', 'float'), ('in_scope', 'int2'), ('numeric', 'numpy'), ('exact', 'int2'), ('in_scope', 'mixed')],
    [('exact', 'time'), ('exact', 'int'), ('in_scope', 'time'), ('in_scope', 'int'), ('array', 'float'),
     ('exact', 'int2'), ('in_scope', 'float2'), ('exact', 'time')],
    [('array', 'float'), ('in_scope', 'float'), ('array', 'int'), ('in_scope', 'int'), ('exact', 'int'),
     ('numeric', 'float2'), ('array', 'float'), ('exact', 'time'), ('in_scope', 'numpy')],
]


def _hist_cases(usable):
    out = []
    for fi, e in enumerate(HIST_FORMS):
        for oi, order in enumerate(HIST_ORDERS):
            calls = []
            for path, prof in order:
                if path == 'array':
                    sc = dict(HIST_SCOPES['float' if prof == 'float' else 'int'])
                    sc['a'] = {'ty': 'arrf', 'v': ['-5/2', '3/4', '2', '-1/2']} if prof == 'float' else \
                        {'ty': 'arri', 'v': ['-3', '5', '2', '1']}
                else:
                    sc = dict(HIST_SCOPES[prof])
                sc['n'] = tv('int', 2)
                sc['v'] = {'ty': 'arri', 'v': ['4', '-1', '3']}
                sc = {x: t for x, t in sc.items() if x in _names(e)}
                if usable(e, sc, path):
                    calls.append({'path': path, 'scope': sc})
            out.append({'kind': 'eval', 'expr': e, 'route': 'str', 'calls': calls, 'history': True,
                        'family': 'det:hist:%d:%d' % (fi, oi)})
    return out


def _names(e):
    out = set()
    if e[0] == 'v':
        out.add(e[1])
    if e[0] == 'idx':
        out.add(e[1])
    for x in e:
        if isinstance(x, list):
            out |= _names(x)
    return out


# names a parameter may legitimately have (valid identifiers that sympy parses as symbols)
NAME_POOL = [
    # the numpy namespace / python builtins not used by the generated code: must simply work
    'array', 'where', 'dot', 'numpy', 'math', 'e', 'inf', 'absolute', 'lambdified', 'kwargs', 'scope', 'parameters',
    'expression', 'variables', 'alpha', 'Omega', 'x_1', '_a', 'cls',
    # names the generated numpy code itself uses
    'select', 'less', 'greater', 'less_equal', 'greater_equal', 'equal', 'not_equal', 'logical_and', 'logical_or',
    'logical_not', 'builtins', 'range', 'mod', 'broadcast_to', 'TimeType', 'amin', 'amax',
    # keyword interface of evaluate_numeric(**kwargs)
    'self',
]
NAME_FORMS = [
    b('add', b('mul', v('a'), v('b')), v('a')),
    b('mul', b('min', v('a'), c(5)), b('max', v('b'), v('a'))),
    b('mul', u('floor', b('div', v('a'), c(2))), u('abs', v('b'))),
    ['ite', b('and', b('gt', v('a'), v('b')), b('le', v('b'), c(9))), v('a'), b('mul', c(2), v('b'))],
    ['ite', b('or', b('ge', v('a'), c(3)), u('not', b('eq', v('b'), c(1)))), v('a'), c(0)],
    b('add', ['sum', 'k', c(0), c(3), b('mul', v('k'), v('a'))], v('b')),
    b('add', b('mul', c(F(1, 3), 'r'), v('a')), b('div', v('b'), c(2))),
    b('mul', ['ibc', v('a'), 3, c(1)], v('b')),
    b('add', ['idx', 'v', c(1)], b('mul', v('a'), v('b'))),
]
NAME_SCOPES = [{'a': tv('int', 3), 'b': tv('int', 5)}, {'a': tv('float', F(-5, 2)), 'b': tv('time', F(7, 2))}]


def _name_cases(tier):
    out = []
    for ni, nm in enumerate(NAME_POOL):
        for fi, e in enumerate(NAME_FORMS):
            if tier == 'quick' and (ni + fi) % 3:          # every name with 3 of the 9 formulas
                continue
            for target in ('a', 'b'):
                if tier == 'quick' and (ni + fi // 3) % 2 != (target == 'b'):
                    continue
                calls = []
                for sc in NAME_SCOPES:
                    sc = dict(sc)
                    if 'v' in _names(e):
                        sc['v'] = {'ty': 'arri', 'v': ['4', '-1', '3']}
                    for p in ('in_scope', 'numeric', 'exact', 'symfull', 'serial'):
                        if p == 'symfull' and 'v' in sc:
                            continue
                        if p == 'exact' and any(t['ty'] == 'float' for t in sc.values()):
                            continue
                        calls.append({'path': p, 'scope': sc})
                out.append({'kind': 'eval', 'expr': e, 'route': 'str', 'calls': calls, 'rename': {target: nm},
                            'family': 'det:names'})
    # two renamed variables at once, swapped roles
    for x, y in (('select', 'less'), ('less', 'select'), ('array', 'where'), ('e', 'inf')):
        for e in NAME_FORMS[:4]:
            calls = [{'path': p, 'scope': dict(NAME_SCOPES[0])} for p in ('in_scope', 'exact', 'symfull')]
            out.append({'kind': 'eval', 'expr': e, 'route': 'str', 'calls': calls, 'rename': {'a': x, 'b': y},
                        'family': 'det:names'})
    return out


# names the formula language defines itself.  'const': a constant (not a variable; value given), 'complex': the
# imaginary unit, 'reject': using the name as a variable is refused when the expression is constructed.
RESERVED = {
    'pi': ('const', '3.141592653589793'), 'E': ('const', '2.718281828459045'), 'I': ('complex', None),
    'GoldenRatio': ('const', '1.618033988749895'), 'EulerGamma': ('const', '0.5772156649015329'),
    'Catalan': ('const', '0.915965594177219'),
    'N': ('reject', None), 'S': ('reject', None), 'Q': ('reject', None), 'O': ('reject', None),
    'beta': ('reject', None), 'gamma': ('reject', None), 'zeta': ('reject', None), 'lambda': ('reject', None),
    'len': ('reject', None), 'Len': ('reject', None), 'sin': ('reject', None), 'floor': ('reject', None),
    'Max': ('reject', None), 'Sum': ('reject', None), 'Symbol': ('reject', None), 'sqrt': ('reject', None),
    'True': ('reject', None), 'None': ('reject', None), 'minimum': ('reject', None), 'maximum': ('reject', None), 'in': ('reject', None), 'is': ('reject', None),
}


def _reserved_cases():
    return [{'kind': 'reserved', 'name': nm, 'role': role, 'value': val, 'template': tpl, 'family': 'det:reserved'}
            for nm, (role, val) in sorted(RESERVED.items())
            for tpl in ('{n}*t', 't + {n}*x', 'Max({n}*t, x)')]


def _shape_cases():
    out = []
    es = [b('mul', v('a'), v('b')), u('floor', v('a')), b('div', v('a'), c(2)), b('sub', v('b'), v('a')),
          b('floordiv', v('a'), v('b')), c(F(1, 2), 'r')]
    for shape in ((2, 3), (3, 2), (1, 6), (6, 1), (2, 2)):
        n = shape[0] * shape[1]
        for sc in ({'a': tv('int', 7), 'b': tv('int', -2)}, {'a': tv('float', F(-5, 2)), 'b': tv('float', F(1, 2))}):
            for p in ('in_scope', 'numeric', 'serial', 'symfull', 'item'):
                out.append({'kind': 'vec', 'exprs': es[:n], 'shape': list(shape), 'scope': sc, 'path': p,
                            'family': 'det:shape'})
    return out


# Len / Broadcast (qupulse's own functions; array VALUED formulas are outside the Coq language): formula text, scope,
# the value the formula denotes (numbers as strings of fractions, nested lists for arrays)
LENBC = [
    ('len(v)', {'v': [4, -1, 3]}, '3'),
    ('Len(v)*a', {'v': [4, -1, 3], 'a': 2}, '6'),
    ('len(v) + v[0]', {'v': [4, -1, 3]}, '7'),
    ('Sum(v[i], (i, 0, len(v) - 1))', {'v': [4, -1, 3, 5]}, '11'),
    ('Sum(v[i]*i, (i, 0, len(v) - 1))/len(v)', {'v': [4, -1, 3, 6]}, '23/4'),
    ('Broadcast(a, (3,))', {'a': 2}, ['2', '2', '2']),
    ('Broadcast(a, (3,))*b', {'a': 2, 'b': '3/2'}, ['3', '3', '3']),
    ('Broadcast(a, (3,))[1]', {'a': 2}, '2'),
    ('Broadcast(a*b, (2,))[i]', {'a': 2, 'b': 3, 'i': 1}, '6'),
    ('Broadcast(a*b, (2,))[i]', {'a': 2, 'b': '-5/2', 'i': -1}, '-5'),
    ('Broadcast(v, (3,))[2]', {'v': [4, -1, 3]}, '3'),
    ('Broadcast(v, (2, 3))', {'v': [4, -1, 3]}, [['4', '-1', '3'], ['4', '-1', '3']]),
    ('Sum(Broadcast(a, (3,))[i], (i, 0, 2))', {'a': '-5/2'}, '-15/2'),
    ('len(Broadcast(a, (4,)))', {'a': 2}, '4'),
    ('floor(Broadcast(a, (2,))[0])', {'a': '-5/2'}, '-3'),
    ('IndexedBroadcast(a, (3,), 2) + len(v)', {'a': '1/2', 'v': [1, 2]}, '5/2'),
    # round 4 (coverage audit): closed Broadcast / Len (decided at construction), array values substituted symbolically
    ('Broadcast(2, (3,))*b', {'b': 3}, ['6', '6', '6']),
    ('len(Broadcast(2, (3,))) + b', {'b': 3}, '6'),
    ('Broadcast(2, (3,))[1] + b', {'b': '-5/2'}, '-1/2'),
    ('a*b + c', {'a': [1, 2, 3], 'b': 2, 'c': 1}, ['3', '5', '7']),
    ('a*b - c*a', {'a': [1, -2, 3], 'b': '1/2', 'c': 2}, ['-3/2', '3', '-9/2']),
    ('a + b', {'a': [4, -1], 'b': [1, 1]}, ['5', '0']),
]


def _lenbc_cases():
    out = []
    for text, sc, want in LENBC:
        for p in ('in_scope', 'numeric', 'exact', 'serial', 'twice', 'symarr'):
            if p == 'symarr' and not any(isinstance(x, list) for x in sc.values()) or 'v' in sc and p == 'symarr':
                continue
            if p == 'exact' and isinstance(want, list) and 'Broadcast' not in text:
                continue
            out.append({'kind': 'lenbc', 'text': text, 'scope': sc, 'want': want, 'path': p, 'family': 'det:lenbc'})
    return out


# ---------------------------------------------------------------------------------------------------------------------
# round 4, class (a): process-global state across DIFFERENT Expression objects.  One case = one session: several objects
# and the calls made on them in one process, in order; the session starts with empty module-level memos.  The blind
# class was "an equal-valued number of ANOTHER type went through evaluate_symbolic earlier (any object) or sits in the
# same mapping": float 2.0 / numpy.float64(2) against numpy.int64(2) / TimeType(2) / Fraction(2) / int 2 compare equal
# and hash alike.  Each session uses its own value, so that nothing but its own order decides.

THIRD = b('div', v('b'), c(3))                                        # exactness: 2/3 is not 0.666...
SQ1 = b('add', b('mul', v('b'), v('b')), c(1))                        # magnitude: (2**60)**2 + 1 is an integer
# (the float lands where its digits beyond the 15th cannot matter: known finding float-15-digits is pinned elsewhere)
MIXFL = b('add', b('mul', u('floor', b('min', v('a'), v('x'))), v('b')), b('mul', v('b'), c(F(1, 3), 'r')))
HALFSUM = b('add', b('mul', v('b'), c(F(1, 2), 'r')), ['sum', 'k', c(0), c(2), b('mul', v('k'), v('b'))])
WARM = b('min', v('a'), v('x'))
XOBJ_VALUES = [2, 41, 2 ** 60, 5, 2 ** 53 + 2, 1, 0, -7]        # all of them doubles
EXACT_TYS = ['npint', 'time', 'frac', 'int']
FLOAT_TYS = ['float', 'npfloat']


def _part(expr, subs, scope=None, path='exact', obj=None):
    out = {'kind': 'partial', 'expr': expr, 'route': 'str', 'subs': {x: {'num': t} for x, t in subs.items()},
           'scope': scope or {}, 'path': path}
    if obj is not None:
        out['obj'] = obj
    return out


def _ev(expr, calls, obj=None):
    out = {'kind': 'eval', 'expr': expr, 'route': 'str', 'calls': [{'path': p, 'scope': sc} for p, sc in calls],
           'history': True}
    if obj is not None:
        out['obj'] = obj
    return out


def _xobj_cases(tier):
    out = []
    n = 0
    for val in (XOBJ_VALUES if tier != 'quick' else [2, 41, 2 ** 60, 2 ** 53 + 2, -7]):
        for ety in EXACT_TYS:
            for fty in FLOAT_TYS:
                n += 1
                if tier == 'quick' and fty == 'npfloat' and (n // 2) % 2:
                    continue
                fl, ex = tv(fty, val), tv(ety, val)
                one = {'x': tv('int', -9)}
                # (1) the float first, through ANOTHER object; then the exact number where exactness shows
                steps = [_part(WARM, {'a': fl}, one, 'in_scope', 'warm'),
                         _part(THIRD, {'b': ex}, {}, 'exact', 'third'),
                         _part(SQ1, {'b': ex}, {}, 'in_scope', 'sq'),
                         _part(HALFSUM, {'b': ex}, {}, 'exact', 'hs'),
                         _ev(THIRD, [('exact', {'b': tv('time', val)}), ('symfull', {'b': ex})], 'third'),
                         _part(WARM, {'a': fl}, one, 'in_scope', 'warm')]
                out.append({'kind': 'session', 'subs': steps, 'precise': True,
                            'family': 'det:xobj:float-first:%s:%s' % (ety, fty)})
                # (2) the exact number first, then the float (and the exact one again)
                steps = [_part(THIRD, {'b': ex}, {}, 'exact', 'third'),
                         _part(WARM, {'a': fl}, one, 'in_scope', 'warm'),
                         _part(b('div', v('a'), c(4)) if abs(val) < 2 ** 40 else WARM, {'a': fl},
                               {} if abs(val) < 2 ** 40 else one, 'in_scope', 'quarter'),
                         _part(SQ1, {'b': ex}, {}, 'in_scope', 'sq'),
                         _part(THIRD, {'b': ex}, {}, 'exact', 'third2')]
                out.append({'kind': 'session', 'subs': steps, 'precise': True,
                            'family': 'det:xobj:exact-first:%s:%s' % (ety, fty)})
                # (3) both in ONE mapping (either order of the keys), the float for a name the formula does not use
                #     and for a name whose float-ness is absorbed by floor()
                three = {'x': tv('int', 3)}
                steps = [_part(THIRD, {'a': fl, 'b': ex}, {}, 'exact'),
                         _part(b('div', v('a'), c(3)), {'a': ex, 'b': fl}, {}, 'exact'),
                         _part(MIXFL, {'a': fl, 'b': ex}, three, 'exact'),
                         _part(SQ1, {'a': fl, 'b': ex}, {}, 'in_scope')]
                out.append({'kind': 'session', 'subs': steps, 'precise': True,
                            'family': 'det:xobj:one-mapping:%s:%s' % (ety, fty)})
    # (4) the float arrives through the OTHER access paths of another object (compiled lambdas, serialisation,
    #     operators, comparison) before the exact number is substituted
    for val in (6, 2 ** 55 + 8):
        for ety in EXACT_TYS:
            fl, ex = tv('float', val), tv(ety, val)
            m9 = tv('int', -9)
            steps = [_ev(WARM, [('in_scope', {'a': fl, 'x': m9}), ('numeric', {'a': fl, 'x': m9}),
                                ('serial', {'a': fl, 'x': m9}), ('symfull', {'a': fl, 'x': m9})], 'warm'),
                     {'kind': 'build', 'op': 'mul', 'a': v('x'), 'b': {'num': fl if val < 2 ** 40 else tv('float', 6)},
                      'swap': False, 'scope': {'x': tv('int', 3)}, 'path': 'in_scope'},
                     {'kind': 'cmp', 'op': 'le', 'a': c(val), 'b': c(val), 'rhs_num': False, 'samples': [{}],
                      'num': dict(fl, side='b')},
                     _part(THIRD, {'b': ex}, {}, 'exact', 'third'),
                     _part(SQ1, {'b': ex}, {}, 'in_scope', 'sq'),
                     {'kind': 'build', 'op': 'mul', 'a': v('x'), 'b': {'num': tv('int' if ety == 'npint' else ety, val)},
                      'swap': True, 'scope': {'x': tv('int', 3)}, 'path': 'exact'}]
            out.append({'kind': 'session', 'subs': steps, 'precise': True, 'family': 'det:xobj:other-paths:%s' % ety})
    # (5) two objects with the SAME text, different histories; and one object substituted twice with equal-valued
    #     numbers of different types
    for val in (9, 2 ** 58):
        for ety in EXACT_TYS:
            fl, ex = tv('float', val), tv(ety, val)
            steps = [_part(THIRD, {'b': fl}, {}, 'in_scope', 'o1'), _part(THIRD, {'b': ex}, {}, 'exact', 'o2'),
                     _part(THIRD, {'b': ex}, {}, 'exact', 'o1'), _part(THIRD, {'b': fl}, {}, 'in_scope', 'o2'),
                     _part(SQ1, {'b': fl}, {}, 'in_scope', 'o3'), _part(SQ1, {'b': ex}, {}, 'in_scope', 'o3')]
            out.append({'kind': 'session', 'subs': steps, 'precise': True, 'family': 'det:xobj:same-text:%s' % ety})
    return out


# ---------------------------------------------------------------------------------------------------------------------
# round 4, class (b): MAGNITUDES.  Values near and beyond 2**53 (integers that are no doubles) and 2**63 (no int64), and
# tiny values, through floor / ceiling / // and their neighbours, as scalars on every access path and as numpy arrays
# (the int64 cast of the array path), and big Python ints (arbitrary size: the exact value is required wherever the
# typed model computes an int).  All cases are 'precise': tolerance only where an intermediate value is no double.

P53, P62, P63, P64 = 2 ** 53, 2 ** 62, 2 ** 63, 2 ** 64
MAGN_FLOATS = [F(P53), F(P53 + 2), F(P62), F(P63 - 1024), F(P63), F(P63 + 2048), F(P64), F(10 ** 19), -F(P63),
               -F(P63 + 2048), F(2) ** 100, F(1, 2 ** 60), -F(1, 2 ** 60), F(3, 2), F(-5, 2), F(P53 - 1, 2)]
MAGN_FORMS = [
    ('floor-at', u('floor', b('mul', v('a'), v('t')))),
    ('ceil-at', u('ceil', b('mul', v('a'), v('t')))),
    ('floordiv-1', b('floordiv', b('mul', v('a'), v('t')), c(1))),
    ('floor-quarter', u('floor', b('div', v('a'), c(4)))),
    ('neg-floor-neg', u('neg', u('floor', u('neg', v('a'))))),
    ('floor-minus-ceil', b('sub', u('floor', b('mul', v('a'), v('t'))), u('ceil', b('mul', v('a'), v('t'))))),
    ('frac-part', b('sub', v('a'), u('floor', v('a')))),
    ('max-floor', b('max', u('floor', v('a')), v('t'))),
    ('floordiv-t', b('floordiv', v('a'), v('t'))),
]
MAGN_TS = [F(1, 2), F(1), F(2)]
MAGN_ARRAYS = [
    ('fits', [F(P53), F(P62), F(P63 - 1024), F(3, 2), F(-5, 2), -F(P63)]),              # all fit int64: int result
    ('one-over', [F(3, 2), F(P63), F(1)]),                                                # one entry is 2**63
    ('over', [F(P63), F(P64), F(10 ** 19), F(2) ** 100, -F(P63 + 2048)]),                 # none fits
    ('edge', [F(P63 - 1024), F(P63), -F(P63), -F(P63 + 2048), F(0)]),                     # both edges of int64
    ('tiny', [F(1, 2 ** 60), -F(1, 2 ** 60), F(0), F(P53 - 1, 2)]),
]
SAMPLE_TIMES = [F(0), F(1, 2), F(1), F(2), F(-4)]
BIGINTS = [(P53 + 1, 3), (P63 + 1, -1), (P64 + 1, 3), (-P63 - 1, 2), (P62, 4), (10 ** 30, 7), (P63 - 1, 2), (-P63, -1)]
BIGINT_FORMS = [
    ('mul-add', b('add', b('mul', v('n'), v('m')), c(1))),
    ('square', b('sub', u('pow:2', v('n')), v('m'))),
    ('sum', ['sum', 'k', c(0), c(2), b('mul', v('n'), v('k'))]),
    ('neg-sub', b('sub', u('neg', v('n')), v('m'))),
    ('floor-id', b('add', u('floor', v('n')), u('ceil', v('m')))),
    ('third', b('add', b('mul', v('n'), c(F(1, 3), 'r')), v('m'))),
    # the classes of the known findings (kept: their predicate must keep recognising them, nothing else)
    ('floordiv', b('floordiv', v('n'), v('m'))),
    ('floor-div', u('floor', b('div', v('n'), v('m')))),
    ('abs-mul', b('mul', u('abs', v('n')), v('m'))),
    ('max', b('max', v('n'), v('m'))),
    ('max-mul', b('mul', b('max', v('n'), v('m')), c(4))),
]


def _magn_cases(tier):
    out = []
    for name, e in MAGN_FORMS:
        uses_t = 't' in _names(e)
        # scalars: every access path of one object, float and numpy.float64
        for ty in ('float', 'npfloat'):
            calls = []
            for q in MAGN_FLOATS:
                for t in ((MAGN_TS if tier != 'quick' else MAGN_TS[:2]) if uses_t else [None]):
                    sc = {'a': tv(ty, q)}
                    if uses_t:
                        sc['t'] = tv('float' if t.denominator != 1 else 'int', t)
                    for p in ('in_scope', 'numeric', 'exact', 'symfull', 'serial'):
                        if tier == 'quick' and ty == 'npfloat' and p not in ('in_scope', 'exact'):
                            continue
                        calls.append({'path': p, 'scope': sc})
            out.append({'kind': 'eval', 'expr': e, 'route': 'str', 'calls': calls, 'history': True, 'precise': True,
                        'family': 'det:magn:scalar:%s:%s' % (name, ty)})
        # arrays: the parameter is an array / the sample times are an array and the parameter is big
        calls = []
        for an, arr in MAGN_ARRAYS:
            for t in (MAGN_TS if uses_t else [None]):
                sc = {'a': {'ty': 'arrf', 'v': [str(q) for q in arr]}}
                if uses_t:
                    sc['t'] = tv('float', t)
                calls.append({'path': 'array', 'scope': sc})
        if uses_t:
            for q in MAGN_FLOATS:
                calls.append({'path': 'array', 'scope': {'a': tv('float', q),
                                                         't': {'ty': 'arrf', 'v': [str(x) for x in SAMPLE_TIMES
                                                                                   if x != 0 or 'floordiv-t' != name]}}})
        # scalar calls in between and after: the same object
        calls.insert(len(calls) // 2, {'path': 'in_scope', 'scope': dict({'a': tv('float', F(P63))},
                                                                          **({'t': tv('float', F(1, 2))} if uses_t else {}))})
        calls.append(dict(calls[0]))
        out.append({'kind': 'eval', 'expr': e, 'route': 'str', 'calls': calls, 'history': True, 'precise': True,
                    'family': 'det:magn:array:%s' % name})
    # big Python ints (and the same values as numpy.int64 where they fit)
    for name, e in BIGINT_FORMS:
        calls = []
        for n, m in BIGINTS:
            sc = {'n': tv('int', n), 'm': tv('int', m)}
            for p in ('in_scope', 'numeric', 'exact', 'symfull', 'serial'):
                calls.append({'path': p, 'scope': sc})
        out.append({'kind': 'eval', 'expr': e, 'route': 'str', 'calls': calls, 'history': True, 'precise': True,
                    'family': 'det:magn:bigint:%s' % name})
        # partially substituted: one of the two first
        for n, m in BIGINTS[:6]:
            for first in ('n', 'm'):
                rest = 'm' if first == 'n' else 'n'
                vals = {'n': n, 'm': m}
                if rest not in _names(e):
                    continue
                for ty in ('int', 'npint') if abs(vals[first]) < P63 else ('int',):
                    out.append({'kind': 'partial', 'expr': e, 'route': 'str',
                                'subs': {first: {'num': tv(ty, vals[first])}},
                                'scope': {rest: tv('int', vals[rest])}, 'path': 'in_scope' if ty == 'int' else 'exact',
                                'precise': True, 'family': 'det:magn:bigint-partial:%s' % name})
    # floats with more than 15 significant decimal digits inside a formula (known finding float-15-digits)
    for q in (F(0.1) + F(0.2), F(P53 + 2), F(P63), F(1, 3 * 2 ** 50) * (2 ** 52 + 1)):
        q = F(float(q))
        for e in (b('mul', v('a'), v('x')), b('add', v('a'), v('x')), b('div', v('x'), b('mul', v('a'), c(2)))):
            out.append({'kind': 'partial', 'expr': e, 'route': 'str', 'subs': {'a': {'num': tv('float', q)}},
                        'scope': {'x': tv('int', 1)}, 'path': 'in_scope', 'precise': True,
                        'family': 'det:magn:float-digits'})
            out.append({'kind': 'eval', 'expr': e, 'route': 'str', 'precise': True, 'family': 'det:magn:float-digits',
                        'calls': [{'path': p, 'scope': {'a': tv('float', q), 'x': tv('float', 1)}}
                                  for p in ('in_scope', 'symfull', 'serial')]})
    return out


# round 4 (coverage audit): the access paths the generators never took -- pickle / repr / copy constructor /
# Expression.make with a dict and an Expression / the expression as a sympy object inside another one / sympy numbers
# as argument values; the same for ExpressionVector (pickle, repr with == and hash, sympy numbers -> object arrays)
API_PATHS = ['pickle', 'repr', 'copy', 'make', 'symscope', 'nested']


def _api_cases(usable):
    out = []
    scopes = [HIST_SCOPES['int'], HIST_SCOPES['float'], HIST_SCOPES['float2'], HIST_SCOPES['int2']]
    forms = HIST_FORMS + [c(F(5, 2), 'f'), c(7), c(F(2, 3), 'r'), b('mul', v('a'), c(F(1, 3), 'r')),
                          ['ite', b('lt', v('a'), c(0)), ['nan'], v('b')]]
    for e in forms:
        calls = []
        for sc in scopes:
            sc = dict(sc, n=tv('int', 2), v={'ty': 'arri', 'v': ['4', '-1', '3']})
            sc = {x: t for x, t in sc.items() if x in _names(e)}
            for p in API_PATHS:
                if usable(e, sc, 'in_scope'):
                    calls.append({'path': p, 'scope': sc})
        out.append({'kind': 'eval', 'expr': e, 'route': 'str', 'calls': calls, 'history': True, 'family': 'det:api'})
    es = [b('mul', v('a'), v('b')), u('floor', v('a')), b('div', v('a'), c(2)), b('sub', v('b'), v('a'))]
    for n in (1, 2, 4):
        for sc in (HIST_SCOPES['int'], HIST_SCOPES['float']):
            for p in ('pickle', 'repr', 'symscope'):
                out.append({'kind': 'vec', 'exprs': es[:n], 'scope': sc, 'path': p, 'family': 'det:api:vector'})
        out.append({'kind': 'vec', 'exprs': es[:n], 'shape': [1, n], 'scope': HIST_SCOPES['int'], 'path': 'pickle',
                    'family': 'det:api:vector'})
    return out


# ---------------------------------------------------------------------------------------------------------------------
# round 6 (seed C12-9): one NAME used twice in a formula -- as a free variable and as the bound index of a Sum (also of
# two Sums, of nested Sums with the same index, and free inside the limit of another Sum).  The random grammar never
# writes an index name outside its Sum, so "substitute the free occurrences only" was exercised by nobody: a
# substitution that reaches under the binder (body or limit tuple) went unnoticed.  Every form is substituted with a
# number / another variable of the formula / a fresh variable / a term / a swap / together with other names in one
# mapping / completely, and evaluated at once on the other access paths of the same object.
def _sm(i, lo, hi, body):
    return ['sum', i, lo, hi, body]


BOUND_FORMS = [
    ('free+sum', b('add', v('k'), _sm('k', c(0), v('n'), b('mul', v('c'), v('k'))))),
    ('free*sum-idx', b('mul', v('i'), _sm('i', c(0), c(2), ['idx', 'v', v('i')]))),
    ('two-sums', b('sub', b('mul', _sm('k', c(0), c(2), b('mul', v('a'), v('k'))), v('k')), _sm('k', c(1), v('n'), v('k')))),
    ('nested-same', b('add', _sm('k', c(0), v('n'), b('add', v('k'), _sm('k', c(0), c(1), b('mul', v('k'), v('a'))))), v('k'))),
    ('in-other-limit', b('add', _sm('j', c(0), v('k'), b('mul', v('b'), v('j'))), _sm('k', c(0), c(2), b('mul', v('k'), v('a'))))),
    ('floor-free', b('add', u('floor', b('div', v('k'), c(2))), _sm('k', c(0), v('n'), b('mul', v('k'), v('a'))))),
    ('ite-free', ['ite', b('gt', v('k'), c(1)), _sm('k', c(0), c(2), b('add', v('k'), v('a'))), b('mul', v('k'), v('a'))]),
    ('free-index-of-v', b('add', ['idx', 'v', v('k')], _sm('k', c(0), c(2), b('mul', ['idx', 'v', v('k')], v('k'))))),
]
BOUND_VALUES = {'k': 3, 'i': 2, 'n': 3, 'm': 1, 'a': F(-5, 2), 'b': F(3, 2), 'c': 2}


def _bound_cases():
    out = []
    for name, e in BOUND_FORMS:
        names = _names(e)
        free = 'i' if 'i' in names and 'k' not in names else 'k'       # the name that is free AND bound
        def scope(keep, ints=False):
            sc = {}
            for x in sorted(keep):
                if x == 'v':
                    sc[x] = {'ty': 'arri', 'v': ['4', '-1', '3', '7']}
                elif x in ('k', 'i', 'j', 'n', 'm') or ints or BOUND_VALUES[x] == int(BOUND_VALUES[x]):
                    sc[x] = tv('int', int(BOUND_VALUES[x]) if x in ('k', 'i', 'j', 'n', 'm', 'c') else 2)
                else:
                    sc[x] = tv('float', BOUND_VALUES[x])
            return sc
        others = sorted(names - {free, 'v', 'j'} - ({'k'} if free == 'i' else set()))
        allv = sorted((names - {'j'}) - ({'k'} if free == 'i' else set()))
        fam = 'det:bound:' + name

        def part(subs, rest, path='in_scope', ints=False):
            out.append({'kind': 'partial', 'expr': e, 'route': 'str', 'subs': subs, 'scope': scope(rest, ints),
                        'path': path, 'family': fam})
        rest = set(allv) - {free}
        # a number for the free occurrence (two values: inside and outside the range of the index)
        part({free: {'num': tv('int', 3)}}, rest)
        part({free: {'num': tv('int', 1)}}, rest, 'exact', ints=True)
        part({free: {'num': tv('npint', 2)}}, rest)
        # another variable of the formula / a fresh one / a term
        for y in [x for x in others if x in ('c', 'n', 'a')][:2]:
            if y in ('c', 'n') or name not in ('in-other-limit', 'free-index-of-v'):
                part({free: {'expr': v(y)}}, rest, ints=True)
        part({free: {'expr': v('m')}}, rest | {'m'})
        part({free: {'expr': b('add', v('m'), c(1))}}, rest | {'m'})
        # swapped with another name; the other names first; all names in one mapping; a name of the body together with it
        if 'n' in names:
            part({free: {'expr': v('n')}, 'n': {'expr': v(free)}}, set(allv))
        for y in others:
            part({y: {'num': scope({y})[y]}}, set(allv) - {y})
            part({y: {'num': scope({y})[y]}, free: {'num': tv('int', 2)}}, set(allv) - {y, free})
            part({y: {'num': scope({y})[y]}, free: {'expr': b('mul', v('m'), c(2))}}, (set(allv) - {y, free}) | {'m'})
        part({x: {'num': t} for x, t in scope(set(allv) - {'v'}).items()}, {'v'} & names)
        # the bound name as an extra key only (nothing free to replace) is the old behaviour: kept as a control
        out.append({'kind': 'partial', 'expr': e[3] if e[0] == 'b' and e[3][0] == 'sum' else e, 'route': 'str',
                    'subs': {free: {'num': tv('int', 5)}}, 'scope': scope(rest), 'path': 'in_scope', 'family': fam})
        # at once, every access path of one object (symfull substitutes the complete scope symbolically)
        calls = []
        for kv in (3, 0, 1):
            sc = dict(scope(set(allv)))
            sc[free] = tv('int', kv)
            for p in ('in_scope', 'numeric', 'exact', 'symfull', 'serial'):
                if p == 'symfull' and 'v' in sc:
                    continue
                if p == 'exact' and any(t['ty'] == 'float' for t in sc.values()):
                    continue
                calls.append({'path': p, 'scope': sc})
        out.append({'kind': 'eval', 'expr': e, 'route': 'str', 'calls': calls, 'history': True, 'family': fam})
    # ExpressionVector: the same substitution goes through another entry point
    es = [e for nm, e in BOUND_FORMS if nm in ('free+sum', 'two-sums', 'floor-free')]
    for subs in ({'k': {'num': tv('int', 3)}}, {'k': {'expr': v('n')}}, {'k': {'expr': v('m')}},
                 {'k': {'num': tv('int', 2)}, 'a': {'num': tv('float', F(-5, 2))}}):
        rest = {'a', 'c', 'n'} - set(subs) | ({'m'} if any(s.get('expr') == v('m') for s in subs.values()) else set())
        sc = {x: tv('int', 2 if x == 'a' else BOUND_VALUES[x]) for x in sorted(rest)}
        out.append({'kind': 'vecpartial', 'exprs': es, 'subs': subs, 'scope': sc, 'family': 'det:bound:vector'})
    return out


# round 6: CHAINS of substitution steps (evaluate_symbolic on the result of evaluate_symbolic ...), theorem
# C12_subst_chain.  The value must be the value of the WRITTEN formula in the scope the steps denote (later steps give
# the scope the terms of earlier steps are read in) -- which is not the scope of the joint mapping.
def _n(ty, val):
    return {'num': tv(ty, val)}


def _x(e):
    return {'expr': e}


CHAIN_E1 = b('add', v('k'), _sm('k', c(0), v('n'), b('mul', v('c'), v('k'))))           # k free and bound
CHAIN_E2 = b('sub', b('mul', v('a'), v('b')), u('floor', b('div', v('a'), c(2))))
CHAIN_E3 = b('add', ['ite', b('lt', v('a'), v('b')), v('a'), b('mul', c(2), v('b'))], _sm('i', c(1), v('n'), b('mul', v('i'), v('x'))))
CHAINS = [
    # (formula, steps, scope of the final evaluation)
    (CHAIN_E1, [{'k': _x(v('c'))}, {'c': _n('int', 2), 'n': _n('int', 3)}], {}),                       # 14, not 16 / 17
    (CHAIN_E1, [{'k': _x(v('c'))}, {'c': _x(v('k'))}], {'k': tv('int', 2), 'n': tv('int', 3)}),        # capture in step 2: dropped
    (CHAIN_E1, [{'k': _x(v('m'))}, {'m': _x(b('add', v('c'), c(1)))}, {'c': _n('int', 2)}], {'n': tv('int', 3)}),
    (CHAIN_E1, [{'c': _n('int', 2)}, {'k': _n('int', 10)}, {'n': _n('int', 3)}], {}),
    (CHAIN_E1, [{'k': _n('int', 10)}, {'c': _x(v('m'))}, {'m': _x(v('n'))}], {'n': tv('int', 3)}),
    (CHAIN_E1, [{'n': _x(v('k'))}, {'k': _n('int', 2)}], {'c': tv('int', 5)}),                          # limit gets the free k
    (CHAIN_E2, [{'a': _x(v('b'))}, {'b': _n('int', 7)}], {}),                                            # not the joint mapping
    (CHAIN_E2, [{'a': _x(v('b')), 'b': _x(v('a'))}, {'a': _x(v('b')), 'b': _x(v('a'))}],
     {'a': tv('int', 7), 'b': tv('float', F(-5, 2))}),                                                   # swap twice = identity
    (CHAIN_E2, [{'a': _n('int', 3)}, {'b': _x(v('a'))}, {'a': _n('int', -5)}], {}),                     # a re-introduced: 3*(-5) - 1
    (CHAIN_E2, [{'a': _x(b('add', v('a'), c(1)))}, {'a': _x(b('add', v('a'), c(1)))}, {'a': _x(b('mul', v('a'), c(2)))}],
     {'a': tv('int', 3), 'b': tv('time', F(1, 3))}),                                                     # the same name thrice
    (CHAIN_E2, [{'a': _n('time', F(7, 3))}, {'b': _n('time', F(-1, 2))}], {}),
    (CHAIN_E2, [{'b': _n('float', F(-5, 2))}, {'a': _x(v('x'))}, {'x': _n('int', 9)}], {}),
    (CHAIN_E3, [{'a': _x(v('x')), 'x': _x(v('a'))}, {'x': _n('int', 2), 'n': _n('int', 3)}], {'a': tv('int', 4), 'b': tv('int', 3)}),
    (CHAIN_E3, [{'x': _x(b('mul', v('a'), v('b')))}, {'a': _x(v('b'))}, {'b': _n('int', 3)}], {'n': tv('int', 2)}),
    (CHAIN_E3, [{'n': _x(v('m'))}, {'m': _x(b('add', v('n'), c(1)))}, {'n': _n('int', 1)}],
     {'a': tv('float', F(1, 2)), 'b': tv('float', F(3, 4)), 'x': tv('int', 5)}),
]


def _chain_cases():
    out = []
    for e, steps, sc in CHAINS:
        for path in ('in_scope', 'exact'):
            if path == 'exact' and any(t['ty'] == 'float' for t in sc.values()):
                continue
            for route in ('str', 'sym'):
                out.append({'kind': 'chain', 'expr': e, 'route': route, 'steps': steps, 'scope': sc, 'path': path,
                            'family': 'det:chain'})
    return out


def det_cases(tier, usable):
    return _magn_cases(tier) + _api_cases(usable) + _floor_cases() + _cmp_cases() + _hist_cases(usable) + _name_cases(tier) + _reserved_cases() + \
        _shape_cases() + _lenbc_cases() + _xobj_cases(tier) + _bound_cases() + _chain_cases()
