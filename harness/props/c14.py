"""C14 — TimeType is the field of rationals; float conversion is faithful; approximate_rational is minimal."""
import fractions
import math
import operator
import os
import re

import vlib
from vlib import gbool, gopt
from props import c14_ext as X
from props.c14_ext import gZ, gQ      # hexadecimal literals for big integers

F = fractions.Fraction
PID = 'C14'
COQ_DIRS = ['common', 'C14']
TARGETS = ['C14/Props.vo', 'C14/Corr.vo']
MODEL_TARGETS = ['C14/Corr.vo']
PROPS_FILE = 'C14/Props.v'
PROPS_MODULE = 'QV.C14.Props'
CORR_IMPORTS = ['QV.C14.Model', 'QV.C14.Dispatch', 'QV.C14.Corr']
CHECK_CORR = 'check_corr'
CHECK_SPEC = 'check_spec'
SHARD = 400
RULE = ('kernel cases: (alpha_num, d_num, den) and (x, abs_err) rationals, random + boundary (tolerance equal to / '
        'larger than the fractional part, interval ends that are simple fractions); operator cases: every binary / '
        'comparison / unary operator x operand type {time, int, Fraction, float} x operand order; from_float in the '
        'three modes on random and boundary floats; deterministic families: integral floats > 2^53 / powers of ten around '
        'the tie 1e23 / subnormals / binade boundaries (from_float, arithmetic, comparisons, binary64 round trip), exact '
        'ties k+1/2 with even and odd floor and both signs for round/floor/ceil/trunc/int; `disp`: operands of 25 Python '
        'types (numpy float16/32/64/longdouble/int8/int64/uint8/bool_, sympy Rational/Half/Integer/Float/Symbol, Fraction '
        'and a subclass, gmpy2 mpq/mpz/mpfr, bool, Decimal, strings, None/complex/list/object, ndarray) x six operators x '
        'operand order, objects giving every consistent combination of answers to the questions of _try_from_any, arrays '
        '(0-d/1-d/2-d/int/object/empty, both orders); `cons`: all six comparisons in both operand orders + hash + container '
        'lookup on one pair (non-dyadic rational vs the double it rounds to and its neighbours, decimal value of a float vs the '
        'float, integers > 2^53, values beyond the double range; int/Fraction/time operands); tolerance mode on the 0.01 and '
        '0.001 decimal grids restricted to inputs whose answer depends on binary-exact end points, dyadic grids a/2^k +- b/2^k; '
        '`conv`: constructor / from_float on rational types / module wrappers / str / repr / round(t, ndigits); `seq`: histories of 3-7 calls in one process (from_float of a float and of TimeType / mpq / Fraction / int objects that are == and hash-equal to it, modes None / 0 / tolerance alternating, arithmetic and == in between), each step judged alone; `disp` pow: every operand type as integer exponent of a time value and as (non-integral) base under an integer-valued time exponent; `powni`: non-integral exponents in both orders; `hashval`: hash of TimeType/mpq/Fraction/int/float of equal value incl. multiples of 2^61-1. '
        'Non-trivial = kernel case that enters the loop, operator case with a non-integer operand, float that is not an '
        'integer, operand type other than time/int; distinct = distinct canonical JSON of the case.')
TRUSTED = [
    'Coq 8.16.1 kernel + vm_compute (no native_compute)',
    'translators /verif/translate/py2gallina.py and py2gallina_c14.py (fail-closed; output re-proved equal to the hand '
    'models on every run); math.lcm / math.gcd = Z.lcm / Z.gcd, divmod = (Z.div, Z.modulo)',
    'gmpy2.mpq arithmetic is exact (the TimeType wrappers are modelled, mpq itself is not)',
    'CPython repr(float) = shortest round-tripping decimal (oracle; parsed form is an input of the model); int/int true '
    'division is correctly rounded (hypothesis of C14_float_roundtrip)',
    'sys.hash_info.modulus = 2^61-1, inf = 314159 (asserted by the harness); _Py_HashDouble modelled by its closed form',
    'what a Python object of each type answers to hasattr/isinstance/int()/float()/mpq() (table probes_of in Dispatch.v; '
    'the mpq()/int()/float() answers for strings, Decimal and real-like objects are read from the object by the harness)',
    'harness: generators, exact float->rational conversion (as_integer_ratio), Gallina printers',
]
ASSUMPTIONS = [
    'approximate_rational is called with reduced fractions with positive denominators (gmpy2.mpq normalises)',
    'pow is exercised with integer exponents only',
    'binary64 without overflow (FLT format); 64-bit CPython',
]
GEN_FILE = os.path.join(vlib.COQ, 'C14', 'Gen_numeric.v')


GEN_FILE_RAT = os.path.join(vlib.COQ, 'C14', 'Gen_rational.v')


def _parallel_print_assumptions():
    """`Print Assumptions` costs 0.3-1.2 s per theorem here (23 theorems, Flocq / lia proof terms: ~12 s of the quick tier
    when done in one coqc).  Same function, same output, on four slices of the theorem list in parallel."""
    orig = vlib.print_assumptions
    if getattr(orig, '_c14_parallel', False):
        return

    def par(module, names, workdir):
        if module != PROPS_MODULE or len(names) < 8:
            return orig(module, names, workdir)
        import concurrent.futures
        k = 4
        parts = [names[i::k] for i in range(k)]
        res = {}
        with concurrent.futures.ThreadPoolExecutor(max_workers=k) as ex:
            for r in ex.map(lambda ip: orig(module, ip[1], os.path.join(workdir, 'pa_%d' % ip[0])), enumerate(parts)):
                res.update(r)
        return res
    par._c14_parallel = True
    vlib.print_assumptions = par


def pregen(ctx):
    import sys
    _parallel_print_assumptions()
    sys.path.insert(0, os.path.join(vlib.VERIF, 'translate'))
    import py2gallina
    import py2gallina_c14
    src = os.path.join(vlib.REPO, 'qupulse/utils/numeric.py')
    out = []
    for name, fn, target in (('_approximate_int', lambda: py2gallina.translate_functions(src, ['_approximate_int']), GEN_FILE),
                             ('approximate_rational', lambda: py2gallina_c14.translate_rational(src), GEN_FILE_RAT)):
        ob = 'translate:qupulse/utils/numeric.py::' + name
        try:
            vlib.write_if_changed(target, fn() + '\n')
            out.append({'name': ob, 'ok': True, 'detail': 'translated'})
        except Exception as e:   # Unsupported, SyntaxError, ...
            out.append({'name': ob, 'ok': False, 'detail': 'translator refused the current source: %s' % e})
    return out


# ---------------------------------------------------------------------------------------------------------------------
BINOPS = {'add': ('Add', operator.add), 'sub': ('Sub', operator.sub), 'mul': ('Mul', operator.mul),
          'div': ('Div', operator.truediv), 'floordiv': ('FloorDiv', operator.floordiv), 'mod': ('Mod', operator.mod),
          'pow': ('Pow', operator.pow)}
IOPS = {'add': operator.iadd, 'sub': operator.isub, 'mul': operator.imul, 'div': operator.itruediv,
        'floordiv': operator.ifloordiv, 'mod': operator.imod, 'pow': operator.ipow}
CMPOPS = {'lt': ('CLt', operator.lt), 'le': ('CLe', operator.le), 'gt': ('CGt', operator.gt), 'ge': ('CGe', operator.ge),
          'eq': ('CEq', operator.eq), 'ne': ('CNe', operator.ne)}
UNOPS = {'neg': ('Neg', operator.neg), 'abs': ('Abs', abs), 'floor': ('Floor', math.floor), 'ceil': ('Ceil', math.ceil),
         'trunc': ('Trunc', math.trunc), 'round': ('RoundHalfEven', round), 'pos': ('Pos', operator.pos),
         'int': ('Trunc', int)}

BOUNDARY_FLOATS = [0.1, 0.2, 0.1 + 0.2, 1e22, 1e23, 5e-324, 2.2250738585072014e-308, 1.7976931348623157e308, 0.5, 1.0,
                   -0.1, 123456.789, 1e-7, 1.5e-07, 9007199254740993.0, 0.30000000000000004, 1 / 3, 2 / 3, -1e-10, 0.0,
                   3.0, 1e16, 0.7, 4.35, 2.675]


def rnd_frac(rng, big=False):
    if big and rng.random() < 0.3:
        return F(rng.randint(-10 ** 12, 10 ** 12), rng.randint(1, 10 ** 9))
    return F(rng.randint(-60, 60), rng.randint(1, 24))


def rnd_float(rng):
    r = rng.random()
    if r < 0.25:
        return rng.choice(BOUNDARY_FLOATS)
    if r < 0.5:
        return round(rng.uniform(-100, 100), rng.randint(0, 6))
    if r < 0.75:
        return rng.uniform(-1, 1) * 10 ** rng.randint(-12, 12)
    return float(rng.randint(-50, 50)) / rng.choice([1, 2, 4, 8, 10, 3, 7])


def rnd_operand(rng):
    ty = rng.choice(['time', 'int', 'frac', 'float'])
    if ty == 'int':
        return {'ty': 'int', 'v': str(rng.randint(-20, 20))}
    if ty == 'float':
        return {'ty': 'float', 'v': rnd_float(rng).hex()}
    return {'ty': ty, 'v': str(rnd_frac(rng, big=True))}


def gen_cases(rng, tier, ctx):
    n = {'quick': 1, 'thorough': 8}[tier]
    cases = []
    # kernel: exhaustive small + random
    lim = 14 if tier == 'quick' else 34
    for den in range(2, lim):
        for a in range(1, den):
            for d in range(1, a + 1):
                if tier == 'quick' and rng.random() < 0.5:
                    continue
                cases.append({'kind': 'approx_int', 'a': a, 'd': d, 'den': den})
    for _ in range(300 * n):
        den = rng.randint(2, 5000)
        a = rng.randint(1, den - 1)
        d = rng.choice([1, rng.randint(1, a), rng.randint(1, max(1, a // 10 + 1)), a])
        cases.append({'kind': 'approx_int', 'a': a, 'd': d, 'den': den})
    for _ in range(400 * n):
        x = F(rng.randint(-300, 300), rng.randint(1, 40))
        e = rng.choice([F(1, rng.randint(1, 400)), F(rng.randint(1, 30), 30), F(1), x - math.floor(x) or F(1, 2),
                        F(rng.randint(1, 99), 100)])
        if rng.random() < 0.05:
            e = F(rng.randint(-3, 0), 7)      # malformed stream: abs_err <= 0 must raise
        cases.append({'kind': 'approx_rat', 'x': str(x), 'e': str(e)})
    # operators
    for _ in range(500 * n):
        t = rnd_frac(rng, big=True)
        o = rnd_operand(rng)
        cases.append({'kind': 'bin', 'op': rng.choice(sorted(set(BINOPS) - {'pow'})), 't': str(t), 'other': o,
                      'swap': rng.random() < 0.5})
    for _ in range(120 * n):   # powers with integer exponents (either side may be the time value)
        e = rng.randint(-4, 5)
        base = rnd_frac(rng)
        if rng.random() < 0.1:
            base = F(0)
        if rng.random() < 0.5:   # time ** integer-valued other
            o = rng.choice([{'ty': 'int', 'v': str(e)}, {'ty': 'frac', 'v': str(e)}, {'ty': 'time', 'v': str(e)},
                            {'ty': 'float', 'v': float(e).hex()}])
            cases.append({'kind': 'bin', 'op': 'pow', 't': str(base), 'other': o, 'swap': False})
        else:                    # other ** integer-valued time
            o = rng.choice([{'ty': 'int', 'v': str(rng.randint(-5, 5))}, {'ty': 'frac', 'v': str(base)},
                            {'ty': 'time', 'v': str(base)}])
            cases.append({'kind': 'bin', 'op': 'pow', 't': str(e), 'other': o, 'swap': True})
    for _ in range(60 * n):   # division by zero stream
        cases.append({'kind': 'bin', 'op': rng.choice(['div', 'floordiv', 'mod']), 't': str(rnd_frac(rng)),
                      'other': rng.choice([{'ty': 'int', 'v': '0'}, {'ty': 'float', 'v': (0.0).hex()},
                                           {'ty': 'frac', 'v': '0'}, {'ty': 'time', 'v': '0'}]), 'swap': False})
    for _ in range(500 * n):
        t = rnd_frac(rng)
        o = rnd_operand(rng)
        if rng.random() < 0.4:   # equal / nearly equal values: the interesting comparisons
            if o['ty'] == 'float':
                f = float.fromhex(o['v'])
                t = rng.choice([F(f), F(repr(f)) if math.isfinite(f) else F(0)])
            elif o['ty'] == 'int':
                t = F(int(o['v']))
            else:
                t = F(o['v'])
        cases.append({'kind': 'cmp', 'op': rng.choice(sorted(CMPOPS)), 't': str(t), 'other': o, 'swap': rng.random() < 0.5})
    for _ in range(200 * n):
        t = rng.choice([rnd_frac(rng), F(rng.randint(-9, 9) * 2 + 1, 2), F(rng.randint(-9, 9))])
        cases.append({'kind': 'un', 'op': rng.choice(sorted(UNOPS)), 't': str(t)})
    for _ in range(300 * n):
        t = rnd_frac(rng)
        o = rnd_operand(rng)
        if rng.random() < 0.6:
            o = rng.choice([{'ty': 'frac', 'v': str(t)}, {'ty': 'time', 'v': str(t)},
                            {'ty': 'int', 'v': str(math.floor(t))}, {'ty': 'float', 'v': float(t).hex()}])
        cases.append({'kind': 'hash', 't': str(t), 'other': o})
    # from_float
    for f in BOUNDARY_FLOATS:
        for mode in (None, 0):
            cases.append({'kind': 'from_float', 'x': float(f).hex(), 'mode': mode})
    for _ in range(400 * n):
        f = rnd_float(rng)
        r = rng.random()
        if r < 0.35:
            mode = None
        elif r < 0.55:
            mode = 0
        else:
            mode = rng.choice([1e-3, 1e-9, 0.5, 1.0, 0.25, 1e-12, rng.random(), 1e-5, 2.0, -0.5]).hex()
            if abs(f) > 1e6:
                f = rng.uniform(-50, 50)
        cases.append({'kind': 'from_float', 'x': f.hex(), 'mode': mode})
    cases.extend(gen_round3(rng, tier, n))
    cases.extend(gen_round4(rng, tier, n))
    cases.extend(gen_round5(rng, tier, n))
    cases.extend(gen_round6(rng, tier, n))
    return cases


def _swap_ok(v, op):
    k = v['k']
    if k == 'array':
        return True                  # element by element in both orders (round 4 repair)
    if k in ('sympy.Float', 'mpfr'):
        return False                 # inexact sympy.Float or mpfr result: not a TimeType operation
    if k in ('sympy.Rational', 'sympy.Integer', 'reflects'):
        return op in ('add', 'sub', 'mul')          # sympy's own operators (division by zero is zoo there)
    if k == 'str':
        return op in ('add', 'sub', 'div')          # '%' and '*' are string operators
    return True


def gen_round3(rng, tier, n):
    cases = []
    specials = X.special_floats()
    # (a) deterministic families for input classes the random streams reach only by luck
    for x in specials:                                   # integral floats > 2^53, ties, huge / tiny exponents, subnormals
        for mode in (None, 0):
            cases.append({'kind': 'from_float', 'x': float(x).hex(), 'mode': mode})
        cases.append({'kind': 'frt', 'x': float(x).hex()})
    big_integral = [x for x in specials if abs(x) >= 2.0 ** 53 and abs(x) < 1e40]
    for x in big_integral:                               # ... as float operands of arithmetic and comparisons
        op = rng.choice(['add', 'sub', 'mul', 'div'])
        cases.append({'kind': 'bin', 'op': op, 't': str(rnd_frac(rng)), 'other': {'ty': 'float', 'v': float(x).hex()},
                      'swap': rng.random() < 0.5})
        cases.append({'kind': 'cmp', 'op': rng.choice(sorted(CMPOPS)), 't': str(rng.choice([F(x), F(repr(x))])),
                      'other': {'ty': 'float', 'v': float(x).hex()}, 'swap': rng.random() < 0.5})
    ks = list(range(-6, 7)) + [2 ** 53, 2 ** 53 + 1, -2 ** 60, -2 ** 60 - 1, 10 ** 23, 10 ** 23 + 1]
    for k in ks:                                         # exact ties k + 1/2 with even and odd floor, both signs
        for op in ('round', 'floor', 'ceil', 'trunc', 'int'):
            cases.append({'kind': 'un', 'op': op, 't': str(F(2 * k + 1, 2))})
    for k in (-3, -2, -1, 0, 1, 2):                      # just off the tie
        for eps in (F(1, 10 ** 20), -F(1, 10 ** 20)):
            cases.append({'kind': 'un', 'op': 'round', 't': str(F(2 * k + 1, 2) + eps)})
    # (b) binary64 round trip on random floats (all exponent ranges)
    for _ in range(100 * n):
        cases.append({'kind': 'frt', 'x': X.rnd_float64(rng).hex()})
    # (c) operands of every Python type through the wrapper dispatch
    kinds = X.EXACT_KINDS + X.REAL_KINDS + X.OTHER_KINDS
    for k in kinds:                                      # every type at least a few times
        for _ in range(3):
            v = X.rnd_pyval(rng, k)
            op = rng.choice(X.DISP_OPS)
            cases.append({'kind': 'disp', 'op': op, 't': str(rnd_frac(rng)), 'v': v, 'swap': False})
    for txt in X.DECIMAL_TEXTS:
        cases.append({'kind': 'disp', 'op': 'add', 't': '1/3', 'v': {'k': 'Decimal', 'v': txt}, 'swap': False})
    for txt in X.STR_TEXTS:
        cases.append({'kind': 'disp', 'op': 'add', 't': '1/3', 'v': {'k': 'str', 'v': txt}, 'swap': False})
    for o in X.OPAQUE:
        cases.append({'kind': 'disp', 'op': 'mul', 't': '1/3', 'v': {'k': 'opaque', 'v': o}, 'swap': rng.random() < 0.5})
    for a in (None, 'int', 'empty', '2d', '0d', 'obj'):        # array operands: element by element, in both operand orders
        for op in ('add', 'sub', 'mul', 'div'):
            for swap in (False, True):
                cases.append({'kind': 'disp', 'op': op, 't': str(rnd_frac(rng)), 'v': {'k': 'array', 'v': a}, 'swap': swap})
    for _ in range(350 * n):
        v = X.rnd_pyval(rng)
        op = rng.choice(X.DISP_OPS)
        t = rnd_frac(rng, big=True)
        if rng.random() < 0.08:
            t = F(0)
        swap = rng.random() < 0.5 and _swap_ok(v, op)
        cases.append({'kind': 'disp', 'op': op, 't': str(t), 'v': v, 'swap': swap})
    # (d) numeric hash
    for q in X.hash_values(rng, 100 * n):
        cases.append({'kind': 'hashval', 'q': str(q)})
    return cases


def gen_round4(rng, tier, n):
    cases = []
    # (a) comparison consistency: all six operators, both operand orders, hash and container lookup on ONE pair; the
    #     pairs are non-dyadic rationals against the double they round to (class of seed C14-5: `==` in double precision)
    for q, o in X.cons_pairs(rng, 60 * n):
        cases.append({'kind': 'cons', 't': str(q), 'other': o})
    # (b) tolerance mode on decimal grids, only the inputs whose answer depends on binary-exact end points (class of seed
    #     C14-6: interval centred on the decimal value), and dyadic grids whose end points are simple fractions
    grid = list(X.tol_grid(F(1, 100), 200, 100))
    fine = X.tol_grid(F(1, 1000), 120, 50) if tier == 'quick' else X.tol_grid(F(1, 1000), 1000, 200)
    grid += fine if tier != 'quick' else rng.sample(fine, min(len(fine), 80))
    for i, (x, t) in enumerate(grid):
        if i % 3 == 2:
            x = -x
        cases.append({'kind': 'from_float', 'x': float(x).hex(), 'mode': float(t).hex()})
    dy = X.dyadic_grid(3) + (X.dyadic_grid(5) if tier != 'quick' else rng.sample(X.dyadic_grid(5), 120))
    for i, (x, t) in enumerate(dy):
        if i % 4 == 3:
            x = -x
        cases.append({'kind': 'from_float', 'x': float(x).hex(), 'mode': float(t).hex()})
    # (c) every path through _try_from_any: objects built to give each combination of answers
    for sp in X.custom_specs():
        cases.append({'kind': 'disp', 'op': rng.choice(X.DISP_OPS), 't': str(rnd_frac(rng)), 'v': {'k': 'custom', 'v': sp},
                      'swap': rng.random() < 0.5})
    # (d) the other ways in and out of a TimeType (coverage audit): constructor on TimeType / mpq / Fraction / int / pair,
    #     from_float on rational types, module-level wrappers, str / repr, round(t, ndigits)
    vals = [F(0), F(1, 3), F(-7, 2), F(5), F(10 ** 30 + 1, 10 ** 7), F(-1, 10 ** 25)] + [rnd_frac(rng, big=True) for _ in range(12 * n)]
    for q in vals:
        for how in ('ctor:time', 'ctor:mpq', 'ctor:Fraction', 'ctor:pair', 'from_float:time', 'from_float:mpq',
                    'from_float:Fraction', 'time_from_fraction', 'str', 'repr', 'from_float:str'):
            cases.append({'kind': 'conv', 'how': how, 't': str(q)})
        if q.denominator == 1:
            cases.append({'kind': 'conv', 'how': 'ctor:int', 't': str(q)})
    for x in BOUNDARY_FLOATS[:12]:
        cases.append({'kind': 'conv', 'how': 'time_from_float', 't': str(F(repr(x))), 'x': float(x).hex()})
    for q in [F(12345, 1000), F(125, 100), F(135, 100), F(-125, 100), F(5, 2), F(1, 3), F(25, 10), F(15), F(-25)] + \
            [rnd_frac(rng, big=True) for _ in range(10 * n)]:
        for nd in (0, 1, 2, -1):
            cases.append({'kind': 'conv', 'how': 'round:%d' % nd, 't': str(q)})
    for _ in range(60 * n):                              # random two-decimal / three-decimal inputs (user literals)
        d = rng.choice([100, 1000, 10])
        x, t = rng.randint(-3 * d, 3 * d) / d, rng.randint(1, d) / d
        cases.append({'kind': 'from_float', 'x': float(x).hex(), 'mode': float(t).hex()})
    return cases


def _ff(ty, x, mode=None):
    """one conversion step: TimeType.from_float(<view `ty` of the float x>[, mode]); the rational views hold the exact
    binary value of x (so they are == x and hash like x)"""
    if ty == 'float':
        return {'kind': 'from_float', 'x': float(x).hex(), 'mode': mode if mode in (None, 0) else float(mode).hex()}
    if mode == 0 and ty in ('time', 'int'):
        ty = 'mpq'            # mode 0 hands the value to gmpy2.mpq(): a TimeType is not accepted there (not a float anyway)
    return {'kind': 'conv', 'how': ('from_float0:' if mode == 0 else 'from_float:') + ty, 't': str(F(x))}


HIST_FLOATS = [0.1, 0.3, 0.7, 1 / 3, 4.35, 2.675, 1e-7, 123456.789, 0.1 + 0.2, -0.1, 1e23, -1e23, 3e22, 1e24,
               9007199254740993.0 * 8 + 16, 5e-324, 1.7976931348623157e308]


def gen_round5(rng, tier, n):
    cases = []
    # (a) histories (class of seed C14-7: state left behind by an earlier call with an ==-equal / hash-equal argument of
    #     another type).  Views of one float x: the float itself (documented result: shortest decimal), and TimeType / mpq /
    #     Fraction (/ int for integral x) holding its exact binary value (documented result: that value).  Every step is
    #     judged by the stateless specification.
    def views(x):
        return ['time', 'mpq', 'Fraction'] + (['int'] if float(x).is_integer() else [])
    half = {'kind': 'bin', 'op': 'add', 't': '1/2', 'swap': False}
    for x in HIST_FLOATS:
        fl = {'ty': 'float', 'v': float(x).hex()}
        for ty in views(x):
            cases.append({'kind': 'seq', 'steps': [_ff(ty, x), _ff('float', x), dict(half, other=fl), _ff(ty, x)]})
            cases.append({'kind': 'seq', 'steps': [_ff('float', x), _ff(ty, x), _ff('float', x),
                                                   {'kind': 'cmp', 'op': 'eq', 't': str(F(x)), 'other': fl, 'swap': False}]})
        # the same through the operator wrappers: ==-equal operands of different type in consecutive operations
        ex = str(F(x))
        if abs(x) < 1e30:
            cases.append({'kind': 'seq', 'steps': [dict(half, other={'ty': 'frac', 'v': ex}), dict(half, other=fl),
                                                   dict(half, other={'ty': 'time', 'v': ex}), dict(half, other=fl, swap=True),
                                                   {'kind': 'bin', 'op': 'mul', 't': '3', 'other': {'ty': 'frac', 'v': ex}, 'swap': True}]})
        # the mode must stay part of what is remembered: None / 0 / tolerance on the same float, back and forth
        steps = [_ff('float', x, 0), _ff('float', x), _ff('float', x, 0), _ff('time', x, 0), _ff('float', x)]
        if abs(x) < 1e6:
            steps[3:3] = [_ff('float', x, 0.25), _ff('float', x, 0.001)]
        cases.append({'kind': 'seq', 'steps': steps})
    for _ in range(40 * n):
        xs = [rng.choice([rnd_float(rng), X.rnd_float64(rng)]) for _ in range(rng.randint(1, 2))]
        steps = []
        for _ in range(rng.randint(3, 6)):
            x = rng.choice(xs)
            r = rng.random()
            if r < 0.45:
                steps.append(_ff('float', x, rng.choice([None, None, 0])))
            elif r < 0.8:
                steps.append(_ff(rng.choice(views(x)), x, rng.choice([None, None, 0])))
            else:
                other = rng.choice([{'ty': 'float', 'v': float(x).hex()}, {'ty': 'float', 'v': float(x).hex()},
                                    {'ty': 'frac', 'v': str(F(x))}, {'ty': 'time', 'v': str(F(x))}])
                steps.append({'kind': 'bin', 'op': rng.choice(['add', 'sub', 'mul']), 't': str(rnd_frac(rng)),
                              'other': other, 'swap': rng.random() < 0.5 and other['ty'] != 'time'})
        cases.append({'kind': 'seq', 'steps': steps})
    # (b) powers through the operand dispatch (class of seed C14-8: the reflected power with a base that is not an
    #     integer): every operand type as exponent of a time value and as base under an integer-valued time exponent
    for k in X.EXACT_KINDS + X.REAL_KINDS:
        for e in (2, -3, 0, 3):
            v = X.pow_operand(k, e, rng, as_base=False)
            if v is not None:
                base = F(0) if (e > 0 and rng.random() < 0.1) else rnd_frac(rng)
                cases.append({'kind': 'disp', 'op': 'pow', 't': str(base), 'v': v, 'swap': False})
            if k in ('sympy.Float', 'mpfr'):
                continue                      # their own power: an inexact float, not a TimeType operation
            v = X.pow_operand(k, e, rng, as_base=True)
            if v is not None:
                cases.append({'kind': 'disp', 'op': 'pow', 't': str(e), 'v': v, 'swap': True})
    for _ in range(40 * n):
        e = rng.randint(-4, 5)
        x = rng.choice([0.1, 0.3, 2.5, -0.7, 1.5, 1e-3, 12.25, -3.0, rnd_float(rng)])
        if abs(x) > 1e3 or (x == 0 and e < 0):
            x = 0.1
        cases.append({'kind': 'bin', 'op': 'pow', 't': str(e), 'other': {'ty': 'float', 'v': float(x).hex()}, 'swap': True})
    for a in (None, 'int', 'empty', '0d'):      # array / 0: every element operation raises, so does the array operation
        for op in ('div', 'mod', 'floordiv'):
            cases.append({'kind': 'disp', 'op': op, 't': '0', 'v': {'k': 'array', 'v': a}, 'swap': True})
    # (c) non-integral exponents (not a field operation; the result is an approximation and must not pose as exact)
    for a in (F(9), F(4), F(2), F(1, 4), F(27, 8), F(10), F(0), F(1)):
        for ex in (F(1, 2), F(3, 2), F(1, 3), F(-1, 2), F(5, 4), F(2, 3)):
            if a == 0 and ex < 0:
                continue
            for swap in (False, True):
                for ty in ('int', 'time', 'frac', 'float') if a.denominator == 1 else ('time', 'frac', 'float'):
                    if swap and ty == 'time':
                        continue
                    if ty == 'float' and F(float(a)) != a:
                        continue
                    # swap: <ty>(a) ** TimeType(ex); otherwise TimeType(a) ** <ty>(ex)
                    if not swap and (ty == 'int' or (ty == 'float' and F(float(ex)) != ex)):
                        continue
                    cases.append({'kind': 'powni', 'a': str(a), 'e': str(ex), 'ty': ty, 'swap': swap})
    return cases


def gen_round6(rng, tier, n):
    """Tolerance mode with results whose denominator is above 400: since round 6 check_spec decides their minimality with the
    Farey-neighbour criterion (Spec.farey_minimal, proved sound for every denominator) instead of only excluding
    denominators <= 400.  Deterministic: constants x tolerances down to 2^-50; the simple fraction p0/q0 (q0 > 400) exactly
    on an end point of the open interval (must not be returned), just inside (must be returned), just outside."""
    cases = []
    consts = [math.pi, math.e, 2 ** 0.5, 1 / 3, 0.1, (1 + 5 ** 0.5) / 2, math.pi * 1e-3, 123.456, -math.pi, 0.999999,
              5e-324 * 2 ** 1000]
    for x in consts:
        for tol in (1e-6, 1e-8, 1e-10, 1e-12, 1e-15, 2.0 ** -40, 2.0 ** -50):
            cases.append({'kind': 'from_float', 'x': float(x).hex(), 'mode': float(tol).hex()})
    for p0, q0 in ((1, 401), (355, 113 * 7), (500, 997), (-2018, 1009), (3, 4999), (123457, 10 ** 5 + 3)):
        f0 = F(p0, q0)
        for e in (F(1, 10 ** 7), F(1, 3 * 10 ** 9), F(7, 2 ** 40)):
            tiny = e / 10 ** 6
            for x in (f0 + e, f0 - e, f0 + e - tiny, f0 - e + tiny, f0 + e + tiny, f0):
                cases.append({'kind': 'approx_rat', 'x': str(x), 'e': str(e)})
    for _ in range(40 * n):
        q0 = rng.randint(401, 10 ** 6)
        f0 = F(rng.randint(-3 * q0, 3 * q0), q0)
        e = F(1, rng.randint(2 * q0 * q0, 50 * q0 * q0))     # narrower than the gap to any smaller denominator
        cases.append({'kind': 'approx_rat', 'x': str(f0 + e * F(rng.randint(-999, 999), 1000)), 'e': str(e)})
    return cases


def _operand_py(o):
    from qupulse.utils.types import TimeType
    if o['ty'] == 'int':
        return int(o['v'])
    if o['ty'] == 'float':
        return float.fromhex(o['v'])
    f = F(o['v'])
    if o['ty'] == 'frac':
        return f
    return TimeType.from_fraction(f.numerator, f.denominator)


def parse_repr(x):
    """repr(float) -> (neg, mantissa, exponent) with value = (-1)^neg * mantissa * 10^exponent"""
    s = repr(x)
    m = re.fullmatch(r'(-?)(\d+)(?:\.(\d+))?(?:e([+-]?\d+))?', s)
    if not m:
        raise ValueError('unexpected float repr %r' % s)
    neg, ip, fp, ex = m.group(1) == '-', m.group(2), m.group(3) or '', int(m.group(4) or 0)
    return neg, int(ip + fp), ex - len(fp)


def _outcome(fn):
    try:
        with vlib.time_limit(5):
            r = fn()
        return {'ret': r}
    except vlib.Timeout:
        return {'hang': True}
    except (ValueError, AssertionError, ZeroDivisionError) as e:
        return {'fail': type(e).__name__}
    except Exception as e:
        return {'crash': '%s: %s' % (type(e).__name__, e)}


def run_impl(case):
    from qupulse.utils.types import TimeType
    from qupulse.utils import numeric
    import gmpy2
    k = case['kind']
    if k == 'approx_int':
        o = _outcome(lambda: numeric._approximate_int(case['a'], case['d'], case['den']))
        if 'ret' in o:
            o['ret'] = [int(o['ret'][0]), int(o['ret'][1])]
        return o
    if k == 'approx_rat':
        x, e = F(case['x']), F(case['e'])
        o = _outcome(lambda: numeric.approximate_rational(gmpy2.mpq(x.numerator, x.denominator),
                                                          gmpy2.mpq(e.numerator, e.denominator), gmpy2.mpq))
        if 'ret' in o:
            o['ret'] = [int(o['ret'].numerator), int(o['ret'].denominator)]
        return o
    if k == 'seq':
        return {'steps': [run_impl(st) for st in case['steps']]}
    if k == 'powni':
        a, ex = F(case['a']), F(case['e'])
        mkv = {'int': lambda q: int(q), 'frac': lambda q: q, 'float': lambda q: float(q),
               'time': lambda q: TimeType.from_fraction(q.numerator, q.denominator)}
        if case['swap']:
            fn = lambda: mkv[case['ty']](a) ** mkv['time'](ex)
        else:
            fn = lambda: mkv['time'](a) ** mkv[case['ty']](ex)
        o = _outcome(fn)
        if 'ret' in o:
            r = o['ret']
            exact = isinstance(r, (int, F, TimeType)) or type(r) is TimeType._InternalType
            try:
                o = {'ret': vlib.frac_json(F(float(r)) if not exact else r), 'exact': bool(exact)}
            except Exception as e:
                o = {'crash': 'power result %r: %s' % (r, e)}
        return o
    if k in ('bin', 'cmp', 'hash'):
        tf = F(case['t'])
        t = TimeType.from_fraction(tf.numerator, tf.denominator)
        other = _operand_py(case['other'])
        if k == 'hash':
            return _outcome(lambda: [bool(t == other), hash(t) == hash(other)])
        fn = (BINOPS if k == 'bin' else CMPOPS)[case['op']][1]
        o = _outcome((lambda: fn(other, t)) if case['swap'] else (lambda: fn(t, other)))
        if k == 'bin' and not case['swap'] and 'ret' in o:
            # time values are immutable: the augmented assignment on a second name for the same object (u = t; u -= x,
            # also through +t, which may return the object itself) must leave t, and its hash, as they were
            keep, h0 = TimeType.from_fraction(tf.numerator, tf.denominator), hash(t)
            try:
                u = t
                u = IOPS[case['op']](u, other)
                w = +t
                w = IOPS[case['op']](w, other)
                if not (t == keep) or hash(t) != h0:
                    return {'crash': 'left operand changed by the augmented assignment %s on another name for it' % case['op']}
            except Exception as e:
                return {'crash': 'augmented assignment %s raises %s where the binary operator returns' % (case['op'], type(e).__name__)}
        if 'ret' in o:
            if k == 'cmp':
                o['ret'] = bool(o['ret']) if isinstance(o['ret'], (bool,)) or type(o['ret']).__name__ == 'bool_' else \
                    {'crash': 'non-bool %r' % (o['ret'],)}
                if isinstance(o['ret'], dict):
                    return o['ret']
            else:
                r = o['ret']
                if isinstance(r, float) or type(r).__name__ == 'mpfr':
                    return {'crash': 'inexact result type %s' % type(r).__name__}
                o['ret'] = vlib.frac_json(r)
        return o
    if k == 'conv':
        from qupulse.utils import types as qtypes
        tf = F(case['t'])
        how, _, arg = case['how'].partition(':')
        mk = {'time': lambda: TimeType.from_fraction(tf.numerator, tf.denominator), 'mpq': lambda: gmpy2.mpq(tf.numerator, tf.denominator),
              'Fraction': lambda: tf, 'int': lambda: int(tf), 'str': lambda: str(tf)}

        def conv():
            if how == 'ctor':
                r = TimeType(tf.numerator, tf.denominator) if arg == 'pair' else TimeType(mk[arg]())
            elif how == 'from_float':
                r = TimeType.from_float(mk[arg]())
            elif how == 'from_float0':
                r = TimeType.from_float(mk[arg](), 0)
            elif how == 'time_from_fraction':
                r = qtypes.time_from_fraction(tf.numerator, tf.denominator)
            elif how == 'time_from_float':
                r = qtypes.time_from_float(float.fromhex(case['x']))
            elif how == 'str':
                return vlib.frac_json(F(str(mk['time']())))
            elif how == 'repr':
                m = re.fullmatch(r'TimeType\((-?\d+), (\d+)\)', repr(mk['time']()))
                return vlib.frac_json(F(int(m.group(1)), int(m.group(2))))
            elif how == 'round':
                return vlib.frac_json(round(mk['time'](), int(arg)))
            if type(r) is not TimeType:
                raise TypeError('result type %s' % type(r).__name__)
            return vlib.frac_json(r)
        o = _outcome(conv)
        return o if 'ret' in o else {'crash': str(o)}
    if k == 'cons':
        tf = F(case['t'])
        t = TimeType.from_fraction(tf.numerator, tf.denominator)
        other = _operand_py(case['other'])

        def six(a, b):
            r = [a < b, a <= b, a > b, a >= b, a == b, a != b]
            if not all(type(x) is bool for x in r):
                raise TypeError('non-bool comparison result %r' % (r,))
            return r
        return _outcome(lambda: {'fwd': six(t, other), 'rev': six(other, t), 'ht': hash(t), 'ho': hash(other),
                                 'in_list': t in [other], 'in_dict': t in {other: 1}})
    if k == 'un':
        tf = F(case['t'])
        t = TimeType.from_fraction(tf.numerator, tf.denominator)
        o = _outcome(lambda: UNOPS[case['op']][1](t))
        if 'ret' in o:
            o['ret'] = vlib.frac_json(o['ret'])
        return o
    if k == 'disp':
        tf = F(case['t'])
        t = TimeType.from_fraction(tf.numerator, tf.denominator)
        try:
            other = X.pyobj(case['v'])
        except Exception as e:
            return {'crash': 'harness could not build the operand: %s' % e}
        fn = BINOPS[case['op']][1]
        if case['v']['k'] == 'array':
            return X.observe_array_binop(fn, t, other, case['swap'])
        return X.observe_binop((lambda: fn(other, t)) if case['swap'] else (lambda: fn(t, other)),
                               reflecting=case['v']['k'] == 'reflects')
    if k == 'hashval':
        q = F(case['q'])
        return _outcome(lambda: X.hash_obs(q))
    if k == 'frt':
        x = float.fromhex(case['x'])
        o = _outcome(lambda: TimeType.from_float(x))
        if 'ret' in o:
            r = o['ret']
            back = _outcome(lambda: float(r) == x)
            o['back'] = back.get('ret') is True
            o['ret'] = [int(r.numerator), int(r.denominator)]
        return o
    if k == 'from_float':
        x = float.fromhex(case['x'])
        mode = case['mode']
        if isinstance(mode, str):
            mode = float.fromhex(mode)
        o = _outcome(lambda: TimeType.from_float(x, mode))
        if 'ret' in o:
            r = o['ret']
            back = _outcome(lambda: float(r) == x)
            o['back'] = back.get('ret') is True
            o['ret'] = [int(r.numerator), int(r.denominator)]
        return o
    raise ValueError(k)


def _g_outcome(o, p):
    if 'ret' in o:
        return '(ORet %s)' % p(o['ret'])
    if 'fail' in o:
        return 'OFail'
    return None


def _g_operand(o):
    if o['ty'] == 'int':
        return '(OInt %s)' % gZ(int(o['v']))
    if o['ty'] == 'float':
        f = float.fromhex(o['v'])
        return '(OFloat %s %s)' % (gQ(F(f)), gQ(F(repr(f))))
    return '(%s %s)' % ('OTime' if o['ty'] == 'time' else 'OFrac', gQ(F(o['v'])))


CRASH = '(CHash 0 (OInt 0) true false)'   # a case that fails check_spec: used when the implementation crashed/hung


def to_coq(case, obs):
    k = case['kind']
    if 'crash' in obs or 'hang' in obs:
        return '(CCrash)'
    if k == 'conv' and 'ret' not in obs:
        return '(CCrash)'
    zz = lambda r: '(%s, %s)' % (gZ(r[0]), gZ(r[1]))
    if k == 'seq':
        return '(CSeq [%s])' % '; '.join(to_coq(c, o) for c, o in zip(case['steps'], obs['steps']))
    if k == 'powni':
        if 'ret' not in obs:
            return '(CCrash)'
        ex = F(case['e'])
        return '(CPowNI %s %s %s %s %s)' % (gQ(F(case['a'])), gZ(ex.numerator), X._lit(ex.denominator), gQ(F(obs['ret'])),
                                            gbool(obs['exact']))
    if k == 'approx_int':
        return '(CApproxInt %s %s %s %s)' % (gZ(case['a']), gZ(case['d']), gZ(case['den']), _g_outcome(obs, zz))
    if k == 'approx_rat':
        x, e = F(case['x']), F(case['e'])
        return '(CApproxRat %s %s %s %s %s)' % (gZ(x.numerator), gZ(x.denominator), gZ(e.numerator), gZ(e.denominator),
                                                _g_outcome(obs, zz))
    if k == 'bin':
        impl = 'None' if 'fail' in obs else '(Some %s)' % gQ(F(obs['ret']))
        return '(CBin %s %s %s %s %s)' % (BINOPS[case['op']][0], gQ(F(case['t'])), _g_operand(case['other']),
                                          gbool(case['swap']), impl)
    if k == 'cmp':
        if 'fail' in obs:
            return '(CCrash)'
        return '(CCmp %s %s %s %s %s)' % (CMPOPS[case['op']][0], gQ(F(case['t'])), _g_operand(case['other']),
                                          gbool(case['swap']), gbool(obs['ret']))
    if k == 'un':
        if 'fail' in obs:
            return '(CCrash)'
        return '(CUn %s %s %s)' % (UNOPS[case['op']][0], gQ(F(case['t'])), gQ(F(obs['ret'])))
    if k == 'hash':
        if 'fail' in obs:
            return '(CCrash)'
        return '(CHash %s %s %s %s)' % (gQ(F(case['t'])), _g_operand(case['other']), gbool(obs['ret'][0]),
                                        gbool(obs['ret'][1]))
    if k == 'conv':
        q, r = F(case['t']), F(obs['ret'])
        if case['how'].startswith('round:'):          # round(t, nd) = round_half_even(t * 10^nd) / 10^nd
            sc = F(10) ** int(case['how'][6:])
            return '(CUn RoundHalfEven %s %s)' % (gQ(q * sc), gQ(r * sc))
        return '(CUn Pos %s %s)' % (gQ(q), gQ(r))
    if k == 'cons':
        if 'ret' not in obs:
            return '(CCrash)'
        r = obs['ret']
        c6 = lambda b: '(mkCmp6 %s)' % ' '.join(gbool(x) for x in b)
        return '(CCons %s %s %s %s %s %s %s %s)' % (gQ(F(case['t'])), _g_operand(case['other']), c6(r['fwd']), c6(r['rev']),
                                                    gZ(r['ht']), gZ(r['ho']), gbool(r['in_list']), gbool(r['in_dict']))
    if k == 'disp':
        return '(CDisp %s %s %s %s %s)' % (BINOPS[case['op']][0], gQ(F(case['t'])), X.g_pyval(case['v']), gbool(case['swap']),
                                           X.g_bres(obs))
    if k == 'hashval':
        if 'ret' not in obs:
            return '(CCrash)'
        h = obs['ret']
        hi = '(Some %s)' % gZ(h['int']) if 'int' in h else 'None'
        hf = '(Some (%s, %s, %s))' % tuple(gZ(z) for z in h['float']) if 'float' in h else 'None'
        return '(CHashVal %s %s %s %s %s %s)' % (gQ(F(case['q'])), gZ(h['time']), gZ(h['mpq']), gZ(h['frac']), hi, hf)
    if k == 'frt':
        if 'ret' not in obs:
            return '(CCrash)'
        m, e = X.float_me(float.fromhex(case['x']))
        return '(CFloatRT %s %s %s %s %s)' % (gZ(m), gZ(e), gZ(obs['ret'][0]), gZ(obs['ret'][1]), gbool(obs['back']))
    if k == 'from_float':
        x = float.fromhex(case['x'])
        neg, mant, ex = parse_repr(x)
        mode = case['mode']
        if mode is None:
            m = 'FFDecimal'
        elif mode == 0:
            m = 'FFExact'
        else:
            m = '(FFTol %s)' % gQ(F(float.fromhex(mode)))
        impl = _g_outcome(obs, lambda r: '(%s # %s)' % (X._lit(r[0]), X._lit(r[1])))      # as returned (unreduced)
        return '(CFromFloat %s %s %s %s %s %s %s %s)' % (gQ(F(x)), gQ(F(repr(x))), gbool(neg), gZ(mant), gZ(ex), m,
                                                         impl, gbool(obs.get('back', False)))
    raise ValueError(k)


def nontrivial(case, obs):
    k = case['kind']
    if k == 'approx_int':
        return case['den'] > 3
    if k == 'approx_rat':
        return F(case['x']).denominator != 1
    if k in ('bin', 'cmp', 'hash', 'cons'):
        return F(case['t']).denominator != 1 or case['other']['ty'] == 'float'
    if k in ('un', 'conv'):
        return F(case['t']).denominator != 1
    if k == 'from_float':
        return not float.fromhex(case['x']).is_integer()
    if k == 'frt':
        return float.fromhex(case['x']) != 0
    if k == 'disp':
        return case['v']['k'] not in ('time', 'int')
    if k == 'hashval':
        return F(case['q']).denominator != 1 or abs(F(case['q'])) >= 2 ** 61 - 1
    if k == 'seq':
        return len({st['kind'] + st.get('how', '') for st in case['steps']}) > 1
    return True


def histogram_keys(case, obs):
    k = case['kind']
    keys = [k]
    if k in ('bin', 'cmp'):
        keys.append('%s:%s:%s' % (k, case['op'], case['other']['ty']))
    if k == 'conv':
        keys.append('conv:' + case['how'].split(':')[0])
    if k == 'cons':
        keys.append('cons:%s:%s' % (case['other']['ty'], 'equal' if obs.get('ret', {}).get('fwd', [0] * 6)[4] else 'differ'))
    if k == 'from_float':
        keys.append('from_float:mode=%s' % ('None' if case['mode'] is None else '0' if case['mode'] == 0 else 'tol'))
    if k == 'disp':
        keys.append('disp:%s' % case['v']['k'])
        keys.append('disp:result=%s' % obs.get('b', 'crash'))
    if k == 'seq':
        kinds = {('float' if st['kind'] == 'from_float' else st.get('how', st['kind']).split(':')[-1]) for st in case['steps']}
        keys.append('seq:len=%d' % len(case['steps']))
        keys.append('seq:' + ('float+rational-view' if 'float' in kinds and kinds & {'time', 'mpq', 'Fraction', 'int'} else 'other'))
        keys.append('obs:' + ('crash' if any('crash' in o or 'hang' in o for o in obs.get('steps', [{'crash': 1}])) else 'ret'))
        return keys
    if k == 'powni':
        keys.append('powni:%s:%s' % (case['ty'], 'reflected' if case['swap'] else 'direct'))
    if k == 'frt':
        x = abs(float.fromhex(case['x']))
        keys.append('frt:' + ('zero' if x == 0 else 'subnormal' if x < 2.0 ** -1022 else 'integral>2^53' if x >= 2.0 ** 53 else
                              'normal'))
    keys.append('obs:' + sorted(obs)[0])
    return keys


def classify(case, obs):
    return None


def search_failing(ctx, broken):
    """Brute-force specification against the implementation: exhaustive small kernel inputs and operator table."""
    from qupulse.utils import numeric

    def brute(a, d, den):
        lo, hi = F(a - d, den), F(a + d, den)
        q = 1
        while True:
            p = math.floor(lo * q) + 1
            if F(p, q) < hi:
                return p, q
            q += 1
    for den in range(2, 48):
        for a in range(1, den):
            for d in range(1, a + 1):
                case = {'kind': 'approx_int', 'a': a, 'd': d, 'den': den}
                obs = run_impl(case)
                want = brute(a, d, den)
                if obs.get('ret') != [want[0], want[1]]:
                    return case, obs, 'fraction with the smallest denominator in the open interval is %d/%d' % want
    # approximate_rational against brute force over small rationals and tolerances (incl. non-positive tolerances)
    for xq in range(1, 13):
        for xp in range(-2 * xq, 2 * xq + 1):
            if math.gcd(xp, xq) != 1:
                continue
            for dq in range(1, 13):
                for dp in range(-1, dq + 1):
                    if dp != 0 and math.gcd(dp, dq) != 1:
                        continue
                    x, e = F(xp, xq), F(dp, dq)
                    case = {'kind': 'approx_rat', 'x': str(x), 'e': str(e)}
                    obs = run_impl(case)
                    if e <= 0:
                        if 'fail' not in obs:
                            return case, obs, 'a tolerance <= 0 must be refused'
                        continue
                    q = 1
                    while True:
                        p = math.floor((x - e) * q) + 1
                        if F(p, q) < x + e:
                            break
                        q += 1
                    want = [xp, 1] if xq == 1 else [p, q]
                    if obs.get('ret') != want:
                        return case, obs, 'fraction with the smallest denominator in the open interval is %d/%d' % (p, q)
    return None

MANIFEST = {
    'level_text': 'Proved (all inputs, unbounded): approximate_rational and its integer kernel, re-translated from /repo on '
                  'every run, terminate within lcm(xq, dq) iterations and return the fraction of smallest denominator strictly '
                  'inside the tolerance interval; the executable specification evaluated on every tolerance-mode observation '
                  '(brute-force search up to denominator 400, Farey-neighbour criterion above) accepts a result if and only '
                  'if it is a fraction of smallest denominator strictly inside the interval, for every denominator (round 6; '
                  'round 5: sound up to 400, above only "no denominator <= 400 inside"); the hand model of from_float\'s '
                  'tolerance mode returns that fraction for every tolerance in (0, 1] and rejects tolerances outside [0, 1] '
                  '(a theorem about the model, not the code); the executable binary64 rounding-interval criterion evaluated per '
                  'float implies Flocq\'s round-to-nearest-even, hence float(from_float(x)) == x given correctly rounded '
                  'int/int; a model of CPython\'s numeric hash (mod 2^61-1) depends only on the rational value and agrees '
                  'with the int / float hash. Tested only (exact correspondence check, implementation = specification on '
                  'every generated input): that the TimeType operators, comparisons, rounding functions, hash, operand '
                  'dispatch (_converter / _try_from_any) and from_float (all three modes, incl. the glue around '
                  'approximate_rational) return the specified rational values; for the operator table the operational model '
                  'IS the specification applied to the converted operands (gmpy2.mpq trusted exact), so the symmetry / '
                  'Euclidean / order-consistency theorems are laws of the specification, not statements about the code.',
    'level_note': 'Trusted: Coq kernel, translators, gmpy2.mpq exactness, repr(float) shortest-round-trip contract (hypothesis '
                  'of C14_float_roundtrip; replaced per case by the proved criterion in C14_float_roundtrip_checked) and '
                  'correctly rounded int/int, the per-type probe table, harness. Not translated from the source: '
                  '_try_from_any (modelled by hand as a function of the answers an object gives; every path exercised by '
                  'built objects), the operator wrappers, from_float. Round 5: histories (several calls in one process, '
                  'each judged by the stateless specification), powers through the operand dispatch in both orders, '
                  'non-integral exponents (result must approximate and must not pose as exact); check_spec calls no '
                  'function of the operational model (Spec.v / Float64.v / documented_value only). No known findings.',
    'technique': 'Coq proof (Stern-Brocot invariant, modular arithmetic, Flocq) over AST-translated code + correspondence check',
    'design_ref': 'DESIGN.md §5 C14',
}
