"""C16 — the harness' OWN table player and quantiser (exact fractions, no qupulse code at all).

Used by c16.classify: a failing case may be filed under the known finding `single_mode_table_length_unchecked` only
when this replay shows that NOTHING ELSE is wrong with the observation (samples, markers, segment limits, upper table
bound).  The Python oracle of c16._run_impl cannot serve for that: it quantises with the repository's
`voltage_to_uint16` and plays with the repository's `PlottableProgram`, so a change of either would agree with itself.
Layout (as in Spec / Model.decode): per quantum of 16 samples 16 words of channel B, then 16 words of channel A whose
words 8..15 carry the 8 marker samples of the quantum in bit 14 (marker A) and bit 15 (marker B).
"""
import fractions

F = fractions.Fraction


def rint_half_even(q):
    """nearest integer of a Fraction, ties to the even one"""
    f = q.numerator // q.denominator
    r = q - f
    if r < F(1, 2):
        return f
    if r > F(1, 2):
        return f + 1
    return f if f % 2 == 0 else f + 1


def code_of(v, amp, off, tr):
    """14-bit code of the source voltage v on an output with the given amplitude / offset / affine transformation;
    None when the transformed voltage is outside [off - amp, off + amp]"""
    x = tr[0] * v + tr[1] - off
    if abs(x) > amp:
        return None
    return rint_half_even((x + amp) * 16383 / (2 * amp))


def unrle(r):
    out = []
    for x, n in r:
        out.extend([x] * n)
    return out


def decode(words):
    a, b, ma, mb = [], [], [], []
    for q in range(len(words) // 32):
        wb = words[32 * q: 32 * q + 16]
        wa = words[32 * q + 16: 32 * q + 32]
        b.extend(wb)
        a.extend(w & 16383 for w in wa)
        ma.extend(bool((w >> 14) & 1) for w in wa[8:])
        mb.extend(bool((w >> 15) & 1) for w in wa[8:])
    return a, b, ma, mb


def own_replay(case, obs):
    """None when the observation of an ACCEPTED program plays exactly the quantised source program and every segment
    and the UPPER table bound respect the device limits; otherwise a string saying what is wrong.  The lower table
    bound is deliberately not part of this function."""
    from props import c16
    if 'ok' not in obs:
        return 'not an accepted program'
    o = obs['ok']
    cfg = case['cfg']
    segs = [unrle(s) for s in o['segs']]
    if len(segs) != len(o['lens']):
        return 'number of segments and of reported lengths differ'
    for s, n in zip(segs, o['lens']):
        if len(s) != 2 * n or n < 192 or n % 16:
            return 'segment of %d words reported as %d points violates the device limits' % (len(s), n)
    if any(len(t) > cfg['max'] for t in o['seqs']):
        return 'sequencer table longer than max_seq_len'
    dec = [decode(s) for s in segs]
    got = ([], [], [], [])
    for r, n in o['adv']:
        if not 1 <= n <= len(o['seqs']):
            return 'advanced table names sequencer table %d of %d' % (n, len(o['seqs']))
        once = ([], [], [], [])
        for rr, i in o['seqs'][n - 1]:
            if not 0 <= i < len(dec):
                return 'sequencer table names segment %d of %d' % (i, len(dec))
            for _ in range(max(rr, 0)):
                for k in range(4):
                    once[k].extend(dec[i][k])
        for _ in range(max(r, 0)):
            for k in range(4):
                got[k].extend(once[k])
    tree = case['tree'] if case.get('first') is not None else obs.get('tree', case['tree'])
    flat = c16.flatten_tree(tree)
    pieces = {}
    for w in set(flat):
        d = case['wfs'][w]
        ln = F(d['len'])
        if ln.denominator != 1 or ln <= 0:
            return 'accepted a program with a piece of %s samples' % ln
        n = int(ln)
        per = {None: [F(0)] * n}
        for k in c16.desc_channels(d):
            per[k] = c16.desc_samples(d, k, n)
        pieces[w] = per
    for i, name in ((0, 'channel A'), (1, 'channel B')):
        c = cfg['channels'][i]
        amp, off = F(cfg['amps'][i]), F(cfg['offs'][i])
        tr = (F(cfg['trafo'][i][0]), F(cfg['trafo'][i][1]))
        want = []
        memo = {}
        for w in flat:
            if w not in memo:
                if c is None:
                    memo[w] = [8192] * len(pieces[w][None])
                else:
                    if c not in pieces[w]:
                        return 'piece %d does not define %s' % (w, c)
                    memo[w] = [code_of(v, amp, off, tr) for v in pieces[w][c]]
            want.extend(memo[w])
        if None in want:
            return 'accepted a voltage outside the range of %s' % name
        if want != got[i]:
            return 'own replay differs from the quantised source on %s (%d / %d samples)' % (name, len(got[i]), len(want))
    for i, name in ((0, 'marker A'), (1, 'marker B')):
        m = cfg['markers'][i]
        src = []
        for w in flat:
            if m is not None and m not in pieces[w]:
                return 'piece %d does not define %s' % (w, m)
            src.extend(pieces[w][m])
        want = [v != 0 for v in src[::2]]
        if want != got[2 + i]:
            return 'own replay differs from the source on %s (%d / %d samples)' % (name, len(got[2 + i]), len(want))
    return None
