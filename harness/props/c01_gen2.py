"""C01 — round-3 generator families for input classes the round-1/2 grammar could not produce.

NAME COINCIDENCE
  rebind : a MappingPT that REBINDS THE LOOP-INDEX NAME (`i -> v0 + dv*i`, `i -> 2*i`, `i -> i + 1`, ...) between a
           ForLoopPT and a body that reads `i`, for every node kind directly below the mapping (atom, repetition, sequence,
           reversal, parallel channel, arithmetic, inner loop over another / the SAME index name, second rebinding, count
           named `i`), with and without a repetition / sequence between the loop and the mapping, with a sibling that has
           to see the RAW index.  `enum_rebind_cases` = the exhaustive small scope.
  selfmap: parameter mappings that rebind a name to an expression OF ITSELF (`a -> 2*a`, applied once / twice), swap
           mappings `{a: b, b: a}`, 3-cycles, a rebinding seen only through an inner mapping; channel swap `{A: B, B: A}`.
  tname  : some parameter of the case (top-level parameter, loop index or mapped name) is renamed to `t`, the name
           FunctionPT uses internally for the time variable (invisible to the model: names are numbered).
STATEFUL / ALIASING
  alias  : the SAME template object used in several places of one tree under different scopes / channel mappings
           (`build` shares structurally equal sub-trees), `warm`: create_program is first called on the same object
           with OTHER parameter values.
DECLARED-BUT-UNUSED
  dropped: the channel that determines the duration (the LONGEST table channel) is the dropped one; a dropped channel
           named by an overwrite / a scalar mapping; empty overwrite / empty scalar mapping; `top_none`: parameters /
           channel mapping passed as None instead of an empty dict.
"""
import copy
import itertools
from fractions import Fraction as F

from props import c01_gen as G

C, V = G.C, G.V


def add(a, b):
    return ['+', a, b]


def mul(a, b):
    return ['*', a, b]


# ---- bodies that read one parameter -----------------------------------------------------------------------------------
def body_reading(rng, chans, name, kind=None, dur=None):
    """an atom over `chans` whose voltages are affine in parameter `name` (the generator need not know its value)"""
    kind = kind or rng.choice(['const', 'ramp', 'ramp', 'func', 'point', 'hold2'])
    dur = dur or F(rng.choice([1, 2, 2, 4]), 2)
    if kind == 'func' and len(chans) != 1:
        kind = 'ramp'

    def lvl(j):
        c = rng.choice([F(1), F(1, 2), F(-1), F(2)])
        return add(mul(V(name), C(c)), C(F(rng.randint(-4, 4), 4) + j))
    if kind == 'const':
        return {'k': 'const', 'd': C(dur), 'amps': [[ch, lvl(j)] for j, ch in enumerate(chans)]}
    if kind == 'func':
        return {'k': 'func', 'd': C(dur), 'ch': chans[0], 'a': lvl(0), 'b': C(F(rng.choice([-2, -1, 1, 2, 3]), 4))}
    if kind == 'point':
        e0 = lvl(0)
        return {'k': 'point', 'entries': [[C(0), [e0], 'hold'], [C(dur), [add(e0, C(dur * F(rng.choice([-2, 1, 3]), 4)))],
                                                                  rng.choice(['linear', 'hold', 'jump'])]],
                'chs': list(chans)}
    chs = []
    for j, ch in enumerate(chans):
        e0 = lvl(j)
        if kind == 'ramp':
            es = [[C(0), e0, 'hold'], [C(dur), add(e0, C(dur * F(rng.choice([-3, -1, 1, 2]), 4))), 'linear']]
        else:
            es = [[C(0), e0, 'hold'], [C(dur / 2), add(e0, C(1)), rng.choice(['hold', 'jump'])],
                  [C(dur), e0, rng.choice(['hold', 'jump'])]]
        chs.append([ch, es])
    return {'k': 'table', 'chs': chs}


REBINDS = ['affine', 'double', 'succ', 'neg', 'square', 'minus']
INNERS = ['atom', 'rep', 'rep1', 'rep-seq', 'seq-rep', 'rep-rep', 'rev-rep', 'rep-rev', 'arith-rep', 'par-rep', 'rep-map',
          'for-other', 'for-same', 'rep-count', 'rep-arith', 'seq']
OUTERS = ['direct', 'sibling-after', 'sibling-before', 'rep-between', 'rev-between', 'map-between']
RANGES = [(0, 2, 1), (1, 3, 1), (2, -1, -1), (0, 5, 2), (-1, 1, 1)]


def rebind_expr(kind, idx):
    i = V(idx)
    return {'affine': add(V('v0'), mul(V('dv'), i)), 'double': mul(C(2), i), 'succ': add(i, C(1)),
            'neg': ['-', C(0), i], 'square': mul(i, i), 'minus': ['-', V('v0'), i]}[kind]


def rebind_tree(rng, rebind, inner, outer, rng_tuple, idx='i', chans=('A',), atom_kind=None):
    chans = list(chans)

    def B():
        return body_reading(rng, chans, idx, atom_kind)
    two = C(2)
    if inner == 'atom':
        x = B()
    elif inner == 'rep':
        x = {'k': 'rep', 'n': C(rng.choice([2, 3])), 'body': B()}
    elif inner == 'rep1':
        x = {'k': 'rep', 'n': C(1), 'body': B()}
    elif inner == 'rep-seq':
        x = {'k': 'rep', 'n': two, 'body': {'k': 'seq', 'subs': [B(), B()]}}
    elif inner == 'seq-rep':
        x = {'k': 'seq', 'subs': [B(), {'k': 'rep', 'n': two, 'body': B()}]}
    elif inner == 'seq':
        x = {'k': 'seq', 'subs': [B(), B()]}
    elif inner == 'rep-rep':
        x = {'k': 'rep', 'n': two, 'body': {'k': 'rep', 'n': two, 'body': B()}}
    elif inner == 'rev-rep':
        x = {'k': 'rev', 'body': {'k': 'rep', 'n': two, 'body': B()}}
    elif inner == 'rep-rev':
        x = {'k': 'rep', 'n': two, 'body': {'k': 'rev', 'body': B()}}
    elif inner == 'arith-rep':
        x = {'k': 'arith', 'lhs': True, 'op': '+', 'scalar': V(idx), 'body': {'k': 'rep', 'n': two, 'body': B()}}
    elif inner == 'rep-arith':
        x = {'k': 'rep', 'n': two, 'body': {'k': 'arith', 'lhs': False, 'op': '-', 'scalar': mul(V(idx), C(F(1, 2))),
                                           'body': B()}}
    elif inner == 'par-rep':
        # a NEW channel where the mapping has no sibling (siblings must define the same channels), else an overwrite
        tgt = ('Z' if 'Z' not in chans else 3) if not outer.startswith('sibling') else chans[-1]
        x = {'k': 'par', 'body': {'k': 'rep', 'n': two, 'body': B()}, 'ow': [[tgt, V(idx)]]}
    elif inner == 'rep-map':        # a second rebinding below the repetition
        x = {'k': 'rep', 'n': two, 'body': {'k': 'map', 'pm': [[idx, add(V(idx), C(1))]], 'chm': [], 'body': B()}}
    elif inner == 'for-other':      # inner loop over another index whose range follows the rebound name
        x = {'k': 'for', 'idx': 'j', 'range': [C(0), C(2), C(1)],
             'body': {'k': 'rep', 'n': two,
                      'body': {'k': 'map', 'pm': [['k', add(V(idx), V('j'))]], 'chm': [], 'body': body_reading(rng, chans, 'k', atom_kind)}}}
    elif inner == 'for-same':       # inner loop over the SAME index name, its range read from the rebound value
        x = {'k': 'for', 'idx': idx, 'range': [V(idx), add(V(idx), C(2)), C(1)], 'body': {'k': 'rep', 'n': two, 'body': B()}}
    elif inner == 'rep-count':      # the count is the rebound name
        x = {'k': 'rep', 'n': V(idx), 'body': B()}
    else:
        raise ValueError(inner)
    m = {'k': 'map', 'pm': [[idx, rebind_expr(rebind, idx)]], 'chm': [], 'body': x}
    if outer == 'direct':
        body = m
    elif outer == 'sibling-after':
        body = {'k': 'seq', 'subs': [m, B()]}
    elif outer == 'sibling-before':
        body = {'k': 'seq', 'subs': [B(), m]}
    elif outer == 'rep-between':
        body = {'k': 'rep', 'n': two, 'body': m}
    elif outer == 'rev-between':
        body = {'k': 'rev', 'body': m}
    elif outer == 'map-between':    # a mapping that leaves the index alone, then the rebinding
        body = {'k': 'map', 'pm': [['v0', add(V('v0'), C(1))]], 'chm': [], 'body': m}
        if 'v0' not in G.free_params(m):
            body = m
    else:
        raise ValueError(outer)
    a, b, c = rng_tuple
    return {'k': 'for', 'idx': idx, 'range': [C(a), C(b), C(c)], 'body': body}


def _finish(pt, env, cm=None, **tags):
    used = G.free_params(pt)
    case = {'pt': pt, 'params': {k: str(v) for k, v in env.items() if k in used}, 'cm': cm or []}
    case.update(tags)
    return case


def gen_rebind_case(rng, combo=None):
    rebind, inner, outer, rt = combo or (rng.choice(REBINDS), rng.choice(INNERS), rng.choice(OUTERS), rng.choice(RANGES))
    env = {'v0': rng.choice([F(10), F(3), F(-2), F(1, 2)]), 'dv': rng.choice([F(-3), F(2), F(1), F(1, 2)])}
    if inner in ('rep-count', 'for-same'):      # the rebound value must be an integer
        env = {'v0': rng.choice([F(3), F(4)]), 'dv': rng.choice([F(1), F(-1), F(2)])}
    idx = rng.choice(['i', 'i', 'i', 'v0'] if rebind not in ('affine', 'minus') else ['i'])
    chans = rng.choice([['A'], ['A'], [0], ['A', 'B'], ['B', 0]])
    pt = rebind_tree(rng, rebind, inner, outer, rt, idx, chans)
    r = rng.random()
    wrap = 'plain'
    if r < 0.12:
        pt, wrap = {'k': 'seq', 'subs': [body_reading(rng, G.pt_channels(pt), 'v0'), pt]}, 'seq'
    elif r < 0.2:
        pt, wrap = {'k': 'rev', 'body': pt}, 'rev'
    elif r < 0.28:
        pt, wrap = {'k': 'rep', 'n': C(2), 'body': pt}, 'rep'
    elif r < 0.36:     # an enclosing loop over the same index name (shadowed by the inner loop)
        if idx == 'i' and 'i' not in G.free_params(pt):
            pt, wrap = {'k': 'for', 'idx': 'i', 'range': [C(0), C(2), C(1)],
                        'body': {'k': 'seq', 'subs': [body_reading(rng, G.pt_channels(pt), 'i'), pt]}}, 'for-same-outer'
    return _finish(pt, env, rebind='%s/%s/%s' % (rebind, inner, outer), family='rebind')


def enum_rebind_cases(rng):
    """EXHAUSTIVE small scope: every rebinding expression x node kind below the mapping x position of the mapping, over
    one range each (range drawn per combination), single channel."""
    out = []
    for rebind, inner, outer in itertools.product(REBINDS, INNERS, OUTERS):
        out.append(gen_rebind_case(rng, (rebind, inner, outer, rng.choice(RANGES))))
    return out


# ---- self-referential / swap mappings ---------------------------------------------------------------------------------
def gen_selfmap_case(rng):
    env = {'a': rng.choice([F(1), F(1, 2), F(-1), F(3)]), 'b': rng.choice([F(2), F(1, 4), F(-2)]),
           'c': rng.choice([F(0), F(3, 2), F(5)])}
    chans = rng.choice([['A'], ['A', 'B'], [0, 'B'], ['A', 'B', 'C']])
    names = ['a', 'b', 'c']

    def B3():   # reads a, b and c (different channels / different pieces)
        subs = []
        for j, nme in enumerate(names):
            subs.append(body_reading(rng, chans, nme))
        return {'k': 'seq', 'subs': subs}
    shape = rng.choice(['self', 'self2', 'swap', 'swap-self', 'cycle3', 'through', 'self-loop', 'swap-loop', 'chan-swap',
                        'chan-swap-par', 'swap-rep', 'partial-swap'])
    body = B3()
    if shape == 'self':
        pt = {'k': 'map', 'pm': [['a', mul(C(2), V('a'))]], 'chm': [], 'body': body}
    elif shape == 'self2':
        pt = {'k': 'map', 'pm': [['a', add(V('a'), C(1))]], 'chm': [],
              'body': {'k': 'rep', 'n': C(2), 'body': {'k': 'map', 'pm': [['a', mul(C(2), V('a'))]], 'chm': [], 'body': body}}}
    elif shape == 'swap':
        pt = {'k': 'map', 'pm': [['a', V('b')], ['b', V('a')]], 'chm': [], 'body': body}
    elif shape == 'partial-swap':     # b is rebound to a, a stays itself (identity completion)
        pt = {'k': 'map', 'pm': [['b', V('a')]], 'chm': [], 'body': body}
    elif shape == 'swap-self':
        pt = {'k': 'map', 'pm': [['a', add(V('b'), V('a'))], ['b', ['-', V('a'), V('b')]]], 'chm': [], 'body': body}
    elif shape == 'cycle3':
        pt = {'k': 'map', 'pm': [['a', V('b')], ['b', V('c')], ['c', V('a')]], 'chm': [], 'body': body}
    elif shape == 'through':      # the rebinding of `a` is visible only through the inner mapping of `b`
        pt = {'k': 'map', 'pm': [['a', mul(C(2), V('a'))]], 'chm': [],
              'body': {'k': 'map', 'pm': [['b', add(V('a'), C(1))]], 'chm': [], 'body': body}}
    elif shape == 'self-loop':    # a -> a + i inside a loop, body repeated
        pt = {'k': 'for', 'idx': 'i', 'range': [C(0), C(3), C(1)],
              'body': {'k': 'map', 'pm': [['a', add(V('a'), V('i'))]], 'chm': [],
                       'body': {'k': 'rep', 'n': C(2), 'body': body}}}
    elif shape == 'swap-loop':    # the loop index and a parameter change places
        pt = {'k': 'for', 'idx': 'i', 'range': [C(1), C(3), C(1)],
              'body': {'k': 'map', 'pm': [['a', V('i')], ['i', V('a')]], 'chm': [],
                       'body': {'k': 'seq', 'subs': [body, body_reading(rng, chans, 'i')]}}}
    elif shape == 'swap-rep':
        pt = {'k': 'map', 'pm': [['a', V('b')], ['b', V('a')]], 'chm': [],
              'body': {'k': 'rep', 'n': C(2), 'body': {'k': 'map', 'pm': [['a', V('b')], ['b', V('a')]], 'chm': [],
                                                       'body': body}}}
    else:
        if len(chans) < 2:
            chans = ['A', 'B']
        body = {'k': 'seq', 'subs': [body_reading(rng, chans, nme, rng.choice(['const', 'ramp', 'point'])) for nme in names]}
        sw = [[chans[0], chans[1]], [chans[1], chans[0]]]
        if shape == 'chan-swap':
            pt = {'k': 'map', 'pm': [], 'chm': sw, 'body': body}
            if rng.random() < 0.5:
                pt = {'k': 'map', 'pm': [], 'chm': sw, 'body': {'k': 'rep', 'n': C(2), 'body': pt}}   # swapped twice
        else:      # overwrite / scalar named after the swap
            inner = {'k': 'map', 'pm': [], 'chm': sw, 'body': body}
            pt = {'k': 'arith', 'lhs': False, 'op': '-', 'scalar': {'map': [[chans[0], V('a')]]}, 'body': inner} \
                if rng.random() < 0.5 else {'k': 'par', 'body': inner, 'ow': [[chans[1], V('b')]]}
            pt = {'k': 'map', 'pm': [], 'chm': sw, 'body': pt}
    cm = []
    if shape.startswith('chan') and rng.random() < 0.5:
        cm = [[chans[0], chans[1]], [chans[1], chans[0]]]       # ... and once more at the top
    return _finish(pt, env, cm, selfmap=shape, family='selfmap')


# ---- a parameter called `t` -------------------------------------------------------------------------------------------
def rename_param(n, old, new):
    """consistent renaming of a parameter name in a tree (expressions, loop indices, mapping keys)"""
    def rx(e):
        if e[0] == 'v':
            return ['v', new if e[1] == old else e[1]]
        if e[0] == 'c':
            return e
        return [e[0], rx(e[1]), rx(e[2])]
    k = n['k']
    m = dict(n)
    if k == 'const':
        m['d'] = rx(n['d'])
        m['amps'] = [[c, rx(e)] for c, e in n['amps']]
    elif k == 'table':
        m['chs'] = [[c, [[rx(t), rx(v), i] for t, v, i in es]] for c, es in n['chs']]
    elif k == 'point':
        m['entries'] = [[rx(t), [rx(v) for v in vs], i] for t, vs, i in n['entries']]
    elif k == 'func':
        m['d'], m['a'], m['b'] = rx(n['d']), rx(n['a']), rx(n['b'])
    elif k == 'rep':
        m['n'] = rx(n['n'])
    elif k == 'for':
        m['idx'] = new if n['idx'] == old else n['idx']
        m['range'] = [rx(e) for e in n['range']]
    elif k == 'map':
        m['pm'] = [[new if a == old else a, rx(b)] for a, b in n['pm']]
    elif k == 'par':
        m['ow'] = [[c, rx(e)] for c, e in n['ow']]
    elif k == 'arith':
        sc = n['scalar']
        m['scalar'] = {'map': [[c, rx(e)] for c, e in sc['map']]} if isinstance(sc, dict) else rx(sc)
    if 'subs' in n:
        m['subs'] = [rename_param(x, old, new) for x in n['subs']]
    for key in ('body', 'l', 'r'):
        if key in n:
            m[key] = rename_param(n[key], old, new)
    return m


def all_names(n, acc=None):
    acc = set() if acc is None else acc
    acc |= G.free_params(n)
    if n['k'] == 'for':
        acc.add(n['idx'])
    if n['k'] == 'map':
        acc |= set(a for a, _ in n['pm'])
    for x in n.get('subs', []):
        all_names(x, acc)
    for key in ('body', 'l', 'r'):
        if key in n:
            all_names(n[key], acc)
    return acc


def func_own_names(n, acc=None):
    """names that occur syntactically where qupulse reads `t` as the time variable: a FunctionPT's own expressions,
    ParallelChannelPT values, ArithmeticPT scalars"""
    acc = set() if acc is None else acc
    if n['k'] == 'func':
        for e in (n['d'], n['a'], n['b']):
            G.expr_vars(e, acc)
    if n['k'] == 'par':         # overwritten values and arithmetic scalars may be time dependent: `t` is the time there too
        for _, e in n['ow']:
            G.expr_vars(e, acc)
    if n['k'] == 'arith':
        sc = n['scalar']
        for e in ([e for _, e in sc['map']] if isinstance(sc, dict) else [sc]):
            G.expr_vars(e, acc)
    for x in n.get('subs', []):
        func_own_names(x, acc)
    for key in ('body', 'l', 'r'):
        if key in n:
            func_own_names(n[key], acc)
    return acc


def with_t_name(rng, case):
    """rename one parameter of the case to `t` (never one a FunctionPT reads directly); None if there is none"""
    names = sorted((all_names(case['pt']) | set(case['params'])) - func_own_names(case['pt']))
    if not names or 't' in names:
        return None
    old = rng.choice(names)
    c = copy.deepcopy(case)
    c['pt'] = rename_param(case['pt'], old, 't')
    c['params'] = {('t' if k == old else k): v for k, v in case['params'].items()}
    c['tname'] = True
    return c


def gen_tname_case(rng):
    """a FunctionPT next to / below nodes whose parameter is called `t`: sibling, loop index, mapped name, extra
    parameter, scalar of an enclosing arithmetic"""
    env = {'p': rng.choice([F(1), F(1, 2), F(-1)]), 't': rng.choice([F(2), F(3), F(-1, 2)])}
    ch = rng.choice(['A', 0])
    dur = F(rng.choice([1, 2, 4]), 2)
    func = {'k': 'func', 'd': C(dur), 'ch': ch, 'a': add(V('p'), C(F(rng.randint(-2, 2), 2))),
            'b': C(F(rng.choice([-2, -1, 1, 2]), 4))}
    shape = rng.choice(['sibling', 'loop', 'mapped', 'extra', 'scaled', 'loop-mapped', 'multi'])
    if shape == 'sibling':
        pt = {'k': 'seq', 'subs': [body_reading(rng, [ch], 't', 'const'), func, body_reading(rng, [ch], 't', 'ramp')]}
    elif shape == 'loop':
        pt = {'k': 'for', 'idx': 't', 'range': [C(0), C(2), C(1)],
              'body': {'k': 'seq', 'subs': [func, body_reading(rng, [ch], 't', 'const')]}}
    elif shape == 'mapped':
        pt = {'k': 'map', 'pm': [['p', mul(V('t'), C(2))]], 'chm': [], 'body': func}
    elif shape == 'loop-mapped':
        pt = {'k': 'for', 'idx': 't', 'range': [C(1), C(3), C(1)],
              'body': {'k': 'map', 'pm': [['p', add(V('t'), V('p'))]], 'chm': [], 'body': {'k': 'rep', 'n': C(2), 'body': func}}}
    elif shape == 'scaled':      # the enclosing arithmetic reads the whole scope (which holds `t`), its scalar does not name it
        pt = {'k': 'arith', 'lhs': True, 'op': rng.choice(['+', '*']), 'scalar': V('p'),
              'body': {'k': 'seq', 'subs': [func, body_reading(rng, [ch], 't', 'const')]}}
    elif shape == 'multi':
        other = 'B' if ch != 'B' else 'C'
        pt = {'k': 'multi', 'subs': [func, {'k': 'const', 'd': C(dur), 'amps': [[other, V('t')]]}]}
    else:
        pt = func
    case = _finish(pt, env, tname_shape=shape, family='tname', tname=True)
    case['params'].setdefault('t', str(env['t']))       # `extra`: provided although nothing declares it
    return case


# ---- aliasing: one template object in several places ------------------------------------------------------------------
def gen_alias_case(rng):
    env = {'p0': rng.choice([F(1), F(1, 2), F(2)]), 'p1': rng.choice([F(-1), F(3, 2), F(1, 4)])}
    ints = set(n for n, v in env.items() if v.denominator == 1)
    ctx = G.Ctx(rng, dict(env), ints, {})
    chans = rng.choice([['A'], ['A', 'B'], [0, 'B']])
    r = rng.random()
    if r < 0.5:
        x = body_reading(rng, chans, 'p0')
    else:
        x = G.gen_pt(ctx, chans, rng.randint(2, 3), None, ['const', 'table', 'func', 'point', 'seq', 'rep', 'rev', 'arith'])
        if 'p0' not in G.free_params(x):
            x = {'k': 'seq', 'subs': [x, body_reading(rng, chans, 'p0')]}
    X = lambda: copy.deepcopy(x)
    shape = rng.choice(['seq-map', 'seq-rev', 'rep-plain', 'loop-map', 'arith', 'chan-swap', 'nested-map', 'par', 'seq3'])
    if r >= 0.5 and shape in ('seq-map', 'loop-map', 'nested-map'):
        # a generic sub-tree was generated for the VALUES of p0 / p1 (durations, exact slopes): contexts that change a
        # parameter value would leave the dyadic domain (inexact float arithmetic), so it is only shared unchanged
        shape = rng.choice(['seq-rev', 'rep-plain', 'arith', 'par', 'seq3'])
    if shape == 'seq-map':
        pt = {'k': 'seq', 'subs': [X(), {'k': 'map', 'pm': [['p0', mul(V('p0'), C(2))]], 'chm': [], 'body': X()}, X()]}
    elif shape == 'seq-rev':
        pt = {'k': 'seq', 'subs': [X(), {'k': 'rev', 'body': X()}, X()]}
    elif shape == 'rep-plain':
        pt = {'k': 'seq', 'subs': [{'k': 'rep', 'n': C(2), 'body': X()}, X(), {'k': 'rep', 'n': C(1), 'body': X()}]}
    elif shape == 'loop-map':
        pt = {'k': 'for', 'idx': 'i', 'range': [C(0), C(2), C(1)],
              'body': {'k': 'seq', 'subs': [{'k': 'map', 'pm': [['p0', add(V('p0'), V('i'))]], 'chm': [], 'body': X()}, X()]}}
        pt = {'k': 'seq', 'subs': [pt, X()]}
    elif shape == 'arith':
        pt = {'k': 'seq', 'subs': [X(), {'k': 'arith', 'lhs': True, 'op': '*', 'scalar': C(2), 'body': X()},
                                   {'k': 'arith', 'lhs': False, 'op': '-', 'scalar': C(1), 'body': X()}, X()]}
    elif shape == 'chan-swap' and len(chans) >= 2:
        sw = [[chans[0], chans[1]], [chans[1], chans[0]]]
        pt = {'k': 'seq', 'subs': [X(), {'k': 'map', 'pm': [], 'chm': sw, 'body': X()}, X()]}
    elif shape == 'nested-map':
        m1 = {'k': 'map', 'pm': [['p0', add(V('p0'), C(1))]], 'chm': [], 'body': X()}
        pt = {'k': 'seq', 'subs': [copy.deepcopy(m1), {'k': 'map', 'pm': [['p0', V('p1')]], 'chm': [], 'body': copy.deepcopy(m1)}, X()]}
    elif shape == 'par':
        new = 'Z'
        pt = {'k': 'seq', 'subs': [{'k': 'par', 'body': X(), 'ow': [[new, C(1)]]},
                                   {'k': 'par', 'body': X(), 'ow': [[new, V('p1')]]}]}
    else:
        pt = {'k': 'seq', 'subs': [X(), X(), X()]}
    case = _finish(pt, env, alias=shape, family='alias')
    if rng.random() < 0.6:       # first instantiate the SAME object with other values
        case['warm'] = {k: str(F(v) + rng.choice([F(1), F(-1, 2), F(2)])) for k, v in case['params'].items()}
        if rng.random() < 0.2 and case['warm']:
            del case['warm'][sorted(case['warm'])[0]]           # ... or with a parameter missing (raises)
    return case


# ---- the dropped channel is the one that matters; declared-as-empty -----------------------------------------------------
def gen_dropped_case(rng):
    env = {'p0': rng.choice([F(1), F(1, 2), F(2)])}
    ctx = G.Ctx(rng, dict(env), set(), {})
    shape = rng.choice(['table-longest', 'table-longest', 'table-longest-map', 'multi', 'aarith', 'par-dropped', 'scalar-dropped',
                        'empty-ow', 'empty-scalar', 'point-first', 'all-but-one', 'rev-longest'])
    long_d = F(rng.choice([3, 4, 6]), 2)
    short_d = F(rng.choice([1, 2]), 2)

    def tbl(ch, d, final='hold'):
        return [ch, [[C(0), G.expr_for(ctx, G.dyadic(rng, -2, 2)), 'hold'],
                     [C(d / 2), G.expr_for(ctx, G.dyadic(rng, -2, 2)), rng.choice(['hold', 'jump'])],
                     [C(d), G.expr_for(ctx, G.dyadic(rng, -2, 2)), final]]]
    cm, tags = [], {}
    if shape in ('table-longest', 'table-longest-map', 'rev-longest'):
        chs = [tbl('A', short_d), tbl('B', long_d)]
        if rng.random() < 0.4:
            chs.insert(rng.randint(0, 2), tbl(0, F(1, 2)))
        if rng.random() < 0.5:
            chs.reverse()
        pt = {'k': 'table', 'chs': chs}
        if shape == 'table-longest':
            cm = [['B', None]]
        else:
            pt = {'k': 'map', 'pm': [], 'chm': [['B', None]], 'body': pt}
            if shape == 'rev-longest':
                pt = {'k': 'seq', 'subs': [{'k': 'rev', 'body': pt}, copy.deepcopy(pt)]}
    elif shape == 'multi':
        pt = {'k': 'multi', 'subs': [{'k': 'table', 'chs': [tbl('A', long_d)]},
                                     {'k': 'table', 'chs': [tbl('B', long_d), tbl('C', short_d)]}]}
        cm = [[rng.choice(['A', 'B']), None]]
    elif shape == 'aarith':
        pt = {'k': 'aarith', 'l': {'k': 'table', 'chs': [tbl('A', long_d), tbl('B', short_d)]}, 'op': rng.choice(['+', '-']),
              'r': {'k': 'table', 'chs': [tbl('B', long_d), tbl('C', short_d)]}}
        cm = [[rng.choice(['A', 'B', 'C']), None]]
    elif shape == 'par-dropped':      # the overwritten channel is dropped by an enclosing mapping
        pt = {'k': 'map', 'pm': [], 'chm': [['B', None]],
              'body': {'k': 'par', 'body': {'k': 'table', 'chs': [tbl('A', long_d)]}, 'ow': [['B', C(1)], ['C', V('p0')]]}}
    elif shape == 'scalar-dropped':   # the scalar mapping names a dropped channel (and only it / it and another)
        sub = [['B', C(2)]] + ([['A', V('p0')]] if rng.random() < 0.5 else [])
        pt = {'k': 'arith', 'lhs': rng.random() < 0.5, 'op': rng.choice(['+', '-', '*']), 'scalar': {'map': sub},
              'body': {'k': 'table', 'chs': [tbl('A', short_d), tbl('B', long_d)]}}
        cm = [['B', None]]
    elif shape == 'empty-ow':
        pt = {'k': 'par', 'body': {'k': 'table', 'chs': [tbl('A', long_d)]}, 'ow': []}
    elif shape == 'empty-scalar':
        pt = {'k': 'arith', 'lhs': rng.random() < 0.5, 'op': rng.choice(['+', '-', '*']), 'scalar': {'map': []},
              'body': {'k': 'table', 'chs': [tbl('A', long_d), tbl('B', short_d)]}}
    elif shape == 'point-first':      # the FIRST channel of a vector-valued PointPT is dropped
        pt = {'k': 'point', 'entries': [[C(0), [C(1), C(2), C(3)], 'hold'], [C(long_d), [C(-1), C(-2), C(-3)], 'hold']],
              'chs': ['A', 'B', 'C']}
        cm = [[rng.choice(['A', 'B']), None]]
    else:                             # every channel but one dropped
        pt = {'k': 'table', 'chs': [tbl('A', short_d), tbl('B', long_d), tbl('C', short_d)]}
        keep = rng.choice(['A', 'B', 'C'])
        cm = [[c, None] for c in ['A', 'B', 'C'] if c != keep]
    case = _finish(pt, env, cm, dropped=shape, family='dropped')
    if rng.random() < 0.3 and not case['cm'] and not case['params']:
        case['top_none'] = True
    return case


# ---- AtomicMultiChannelPT with a part of duration 0 (known finding multi-zero-duration-part) ---------------------------
def gen_multizero_case(rng):
    """AtomicMultiChannelPT whose parts get their durations from parameters / a loop index: all equal (fine), one part 0
    with its channel kept (FINDING: silently dropped; `multi_zero` flag), one part 0 with its channels dropped by the
    channel mapping (fine), all parts 0 (plays nothing), a part of NEGATIVE duration; standalone, in a sequence, under a
    loop over the duration (leaves over different channel sets: to_waveform raises), under time reversal"""
    shape = rng.choice(['zero-kept', 'zero-kept', 'zero-kept-last', 'zero-dropped', 'all-zero', 'negative-kept', 'loop',
                        'loop-dropped', 'equal', 'zero-kept-rev', 'zero-kept-three', 'loop-from-1', 'aarith-zero'])
    d1 = F(rng.choice([1, 2, 3]), 2)
    va, vb = G.dyadic(rng, -2, 2), G.dyadic(rng, -2, 2)
    chA, chB = rng.choice([('A', 'B'), (0, 'B'), ('A', 0)])
    pa = {'k': 'const', 'd': V('d'), 'amps': [[chA, C(va)]]}
    pb = {'k': 'const', 'd': C(d1), 'amps': [[chB, C(vb)]]} if rng.random() < 0.6 else \
        {'k': 'table', 'chs': [[chB, [[C(0), C(vb), 'hold'], [C(d1), C(vb + d1 * F(rng.choice([-1, 1, 2]), 4)), 'linear']]]]}
    multi = {'k': 'multi', 'subs': [pa, pb]}
    env, cm, flag = {'d': F(0)}, [], False
    pt = multi
    if shape in ('zero-kept', 'zero-kept-rev'):
        flag = True
        if shape == 'zero-kept-rev':
            pt = {'k': 'rev', 'body': multi}
    elif shape == 'zero-kept-last':
        pt, flag = {'k': 'multi', 'subs': [pb, pa]}, True
    elif shape == 'zero-kept-three':
        pc = {'k': 'const', 'd': C(d1), 'amps': [['C', C(1)]]}
        subs = [pa, pb, pc]
        rng.shuffle(subs)
        pt, flag = {'k': 'multi', 'subs': subs}, True
    elif shape == 'zero-dropped':
        cm = [[chA, None]]
    elif shape == 'all-zero':
        pt = {'k': 'multi', 'subs': [pa, {'k': 'const', 'd': V('d'), 'amps': [[chB, C(vb)]]}]}
    elif shape == 'negative-kept':
        env, flag = {'d': F(-1)}, True
    elif shape == 'equal':
        env = {'d': d1}
    elif shape in ('loop', 'loop-dropped', 'loop-from-1'):
        # d = loop index: 0 (the part on A vanishes), then 1; from 1: every iteration has both parts (if d1 = 1) or mismatches
        start = 1 if shape == 'loop-from-1' else 0
        pb = {'k': 'const', 'd': C(1), 'amps': [[chB, C(vb)]]}
        pt = {'k': 'for', 'idx': 'd', 'range': [C(start), C(2), C(1)], 'body': {'k': 'multi', 'subs': [pa, pb]}}
        env = {}
        flag = shape == 'loop'
        if shape == 'loop-dropped':
            cm = [[chA, None]]
    else:   # ArithmeticAtomicPT over a part of duration 0: the other operand alone (by design: a missing operand is neutral)
        pt = {'k': 'aarith', 'l': pa, 'op': rng.choice(['+', '-']), 'r': {'k': 'const', 'd': C(d1), 'amps': [[chA, C(vb)]]}}
    case = _finish(pt, env, cm, multizero=shape, family='multizero')
    if flag:
        case['multi_zero'] = True
    return case


def gen_round3(rng, tier):
    """all round-3 families; quick: ~260 cases"""
    q = tier == 'quick'
    out = []
    allr = enum_rebind_cases(rng)                       # 576 combinations
    out += rng.sample(allr, 70) if q else allr
    for _ in range(50 if q else 400):
        out.append(gen_rebind_case(rng))
    for _ in range(45 if q else 300):
        out.append(gen_selfmap_case(rng))
    for _ in range(25 if q else 150):
        out.append(gen_tname_case(rng))
    for _ in range(45 if q else 300):
        out.append(gen_alias_case(rng))
    for _ in range(40 if q else 250):
        out.append(gen_dropped_case(rng))
    for _ in range(26 if q else 130):
        c = gen_multizero_case(rng)
        out.append(c)
        if c.get('multi_zero'):      # inputs of the known finding: once more for the model comparison alone
            c2 = dict(c)
            c2['side'] = 'corr'
            out.append(c2)
    return out
