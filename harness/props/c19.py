"""C19 — waveform-memory placement never damages a segment that is still in use.

Decision level: the real `qupulse._program.tabor.find_place_for_segments_in_memory` (numpy arrays in, three arrays out or a
RuntimeError) against the Gallina model `QV.C19.Model.find_place`; the specification oracle is the four clauses of
`QV.C19.Spec.decision_okb` evaluated on the arrays the implementation returned.
"""
import itertools
import os

import vlib
from vlib import gZ, gbool, glist
from props import c19_prims
from props import c19_families

PID = 'C19'
COQ_DIRS = ['common', 'C19']
TARGETS = ['C19/Props.vo', 'C19/Corr.vo', 'C19/Sweep.vo']
MODEL_TARGETS = ['C19/Corr.vo', 'C19/Sweep.vo']
PROPS_FILE = 'C19/Props.v'
PROPS_MODULE = 'QV.C19.Props'
CORR_IMPORTS = ['QV.C19.Model', 'QV.C19.Spec', 'QV.C19.Driver', 'QV.C19.DriverLens', 'QV.C19.Corr']
CHECK_CORR = 'check_corr'
CHECK_SPEC = 'check_spec'
SHARD = 400
RULE = ('place cases: memory layout (slot hashes, reference counts, capacities, total capacity) + new segment hashes and '
        'lengths, run through the real find_place_for_segments_in_memory.  Small scope = slots over hashes {1,2,3} x '
        'capacities {192,208,384} x refcounts {0,1,2}, new segments over hashes {1,2,3,9} x lengths {192,208,384}, one '
        'total capacity per layout drawn from the values around the two RuntimeError thresholds.  quick: the scopes '
        '(slots,new) up to (4,3) sampled uniformly (200-400 each); thorough (trimmed in round 5, the 830 k-case version was killed '
        'for memory): (0,1..3) (1,1) (1,2) (2,1) complete as ordinary cases, the scopes up to (4,3) sampled (2-10 k each); (1,3) (2,2) '
        '(3,1) (2,3) swept completely and of (3,2) a window of 960 k consecutive layouts rotating with seed mod 3 (2.62 M layouts per run) '
        'INSIDE Coq (coq/C19/Sweep.v regenerates every layout '
        'from its index and evaluates check_spec && check_corr on the packed decision of the real function; obligation '
        'sweep_small_scopes_judged_in_coq; the python oracle runs beside it).  Plus random layouts with <= 7 slots / <= 5 new segments (duplicates, known '
        'hashes, lengths equal to / 16 below / above free capacities), larger random layouts (<= 30 slots, <= 12 new), a '
        'malformed stream (zero / negative lengths and capacities, negative reference counts, negative total capacity; '
        'compared with the model, the specification applies only when all reference counts are >= 0) and the driver\'s '
        'dtypes (uint32 capacities, incl. total capacity below the reserved capacity).  place:impl:feature: the copy of '
        'the placement in feature_awg/tabor.py (method of TaborChannelTuple, unstable default sort, MemoryError) on the '
        'driver\'s dtypes; exact comparison with the model where capacities and lengths are pairwise distinct, the four '
        'clauses always.  prim cases: every numpy primitive the model relies on (stable argsort, argsort()[::-1] picked '
        'through flatnonzero, flatnonzero, boolean-mask indexing, fancy indexing, searchsorted left/right with sorter, '
        'argmax of booleans and of a reversed view, a[idx] += 1 with duplicate indices, a[idx] -= 1 with negative '
        'indices, np.sum(a[m] + 16), w[m] = v, flatnonzero(r > 0)[-1] + 1 and r[:k], a[i] = v) and find_positions, on numpy '
        'itself: all arrays over 3 key values (all tie patterns) up to length 4 (quick) / 6 (thorough), all masks up to '
        'length 5 / 7, empty arrays in every dtype, random arrays up to 40 elements in int64/uint32/uint16/int32/uint64.  '
        'hist cases: random histories of <= 12 operations (upload / forced upload / free_program / remove / cleanup / '
        'clear; programs share and re-use segment hashes; total capacity 800..100000) run through the real bookkeeping '
        'of BOTH Tabor drivers (hardware/awgs/tabor.py::TaborChannelPair, hardware/feature_awg/tabor.py::TaborChannelTuple + '
        'TaborProgramManagement) against a fake instrument; observation after every operation.  Round 3: the idle segment '
        '(hash 0, 192 points, slot 0) appears in programs: 17 written-out histories x both drivers (programs sharing slot '
        '0 with each other and with the idle sequence, removed in either order, remove vs free, the idle segment twice '
        'in a program, a program that is the idle waveform, tight totals, the same content under three names, forced '
        're-upload of identical content, a name removed twice), random histories with 15 % / 40 % idle segments, all '
        'histories of length <= 2 (quick) / <= 3 (thorough) over 21 operations + samples of length 3-6.  sweep: complete '
        'scopes judged inside Coq from packed decisions (quick (1,1) (1,2) (2,1); thorough see above).  Round 4: '
        'dtype family (c19_families.dtype_family): reference counts {uint32,int64} x capacities {uint32,int64} x new lengths '
        '{uint64,uint32,int64,list,int32,uint16} (+ hashes as list) on 7 layouts at total = refusal threshold - 1 / threshold, '
        'sizes x1 and x65536 (quick 520; thorough 5680 with all totals around both thresholds and 4 scales), through the '
        'shared function and the feature copy, + random layouts in random dtype mixes (200 / 6000); histories draw the dtype '
        'of the lengths the stand-in TaborProgram delivers (uint64 = the real one 60 %, uint32, int64, list); '
        'tail_reuse_family: 26 histories x 4 length dtypes x both drivers in which an upload re-uses (by hash) a slot that is '
        'unreferenced and behind the last referenced slot and also appends (forced re-uploads, free without cleanup, '
        'refused uploads in between, tight totals); lens_family: 8 histories x 2 dtypes x both drivers in which freed slots '
        'are overwritten by shorter segments and 1/2/3 segments are appended (both branches of the length update in '
        '_amend_segments).  Observation of a history step now includes _segment_lengths and the fake instrument\'s table of '
        'defined segment lengths (:TRAC:DEF, download_segment_lengths, TRAC:DEL).  Round 5: every decision the driver obtains '
        'inside a history is recorded together with the driver\'s own arrays at call time and judged by the Python oracle of '
        'the four clauses; round 6: the recorded calls are part of the Coq case (CHistD: Spec.decision_okb on the driver\'s own '
        'arrays + comparison with the model of the decision function, the feature copy on tie-free inputs); short_in_hole_family: 54 histories x both drivers in which a shorter segment sits in '
        'a larger hole and an append lies exactly on / 1 below / slack below / slack+1 below the refusal threshold; 4 '
        'tight-total histories free-without-cleanup-then-another-name-appends.  Non-trivial = place '
        'case with a slot, an unknown segment and a decision or Fragmentation refusal; history that reaches >= 3 slots '
        'with a known program; primitive on >= 2 elements.')
TRUSTED = [
    'Coq 8.16.1 kernel + vm_compute (no native_compute)',
    'numpy primitives (argsort kind=stable, searchsorted, flatnonzero, argmax, boolean/fancy indexing, a[idx] += 1, ...) '
    'behave as their list models in coq/C19/Model.v + Driver.v: tied by a dedicated correspondence stream against numpy '
    'itself per primitive (prim cases: model output AND an independent specification, e.g. permutation + lexicographic '
    'order for the stable argsort) in addition to the end-to-end comparison; not proved about numpy',
    'harness: generators, exact integer printing, classification of the two RuntimeErrors by message text',
    'driver part: hardware/awgs/tabor.py and hardware/feature_awg/tabor.py are imported against empty stand-ins for '
    'tabor_control / pyvisa and run against harness/props/c19_driver.py::FakeDevice (abstract slot -> content memory '
    'interpreting :TRAC:SEL/:TRAC:DATA/TRAC:DEL); TaborProgram / make_compatible / make_combined_wave are replaced by '
    'stand-ins, sequencer tables / armed program / set_repetition_mode are switched off; no real instrument or simulator',
    'sweep of complete scopes: Python enumerates the layouts (harness/props/c19.py::_scope_item, _sweep_total) and packs the '
    'decisions; Coq enumerates the same index range itself (coq/C19/Sweep.v::scope_item, scope_total) and judges every layout; '
    'a disagreement between the two enumerations shows up as rejected layouts',
    'a program segment with the hash of the idle segment (stand-in Seg(0, 192)) stands for "bit-identical to the idle waveform"',
    'numpy integer dtype arithmetic (uint16/32/64, int32/64, python ints, mixed) equals integer arithmetic on the generated '
    'sizes: exercised by the dtype families against the Z model on both refusal thresholds, not proved',
    'round 5: the recording wrapper around the driver\'s _find_place_for_segments_in_memory (records the driver\'s arrays, calls '
    '/repo\'s method, records the returned arrays); since round 6 the recorded calls are judged by Coq (CHistD) and by the '
    'Python oracle',
    'fake instrument, length table: `:TRAC:DEF n, len` sets the defined length of slot n, download_segment_lengths(list) sets '
    'slot k+1 := list[k] for all k, TRAC:DEL n drops it; what the real instrument does with a slot defined shorter than its '
    'capacity (addresses) is not modelled',
]
ASSUMPTIONS = [
    'the three memory arrays have equal length and the two new-segment arrays have equal length (maintained by the driver, '
    'theorem C19_history_bookkeeping; the model returns BadInput otherwise)',
    'sizes stay far below 2^32 / 2^63 (numpy sums of uint32 / int64 arrays do not wrap); the one wrap-around that was '
    'reachable with realistic sizes (total_capacity - np.sum(uint32 capacities) < 0) was repaired in /repo 27dd4b7 '
    '(shared function) and 4f02520 (copy in feature_awg/tabor.py) and is exercised by the dtype:drv streams',
    'capacity theorem: segment lengths are >= 0 (numbers of points; unsigned in the driver) and total capacity >= 192',
    'length theorems (C19_history_lengths, C19_history_program_lengths): the length of a segment is a function of its hash '
    '(no two different segments share a hash; the idle segment has 192 points) - the same identification of content and '
    'hash the driver model rests on',
    'tie-order theorems: whatever numpy\'s default argsort does with equal keys, it returns a permutation of the positions '
    'that sorts the keys (oracle_ok); the oracle may answer differently in every call',
]

HASHES = [1, 2, 3]
CAPS = [192, 208, 384]
REFS = [0, 1, 2]


# ---------------------------------------------------------------------------------------------------------------------
# generators

def _totals(rng, refs, caps, new_hashes, new_lens, hashes):
    """total capacities around the two refusal thresholds"""
    reserved = sum(c for r, c in zip(refs, caps) if r > 0)
    unknown = sum(l + 16 for h, l in zip(new_hashes, new_lens) if h not in hashes)
    allc = sum(caps)
    cands = [reserved + unknown + d for d in (-16, -1, 0, 1, 16, 192, 400)]
    cands += [allc + d for d in (-1, 0, 15, 16, 17, 208, 224, 1000)]
    cands += [allc + unknown + d for d in (-1, 0, 1)]
    cands += [2 ** 20]
    return cands


def _mk(hashes, refs, caps, total, nh, nl, dtype='i8', aslist=False):
    return {'kind': 'place', 'hashes': list(hashes), 'refs': list(refs), 'caps': list(caps), 'total': int(total),
            'new_hashes': list(nh), 'new_lens': list(nl), 'dtype': dtype, 'aslist': bool(aslist)}


def _rand_place(rng, nmax, mmax, hpool, cpool, lpool, rpool):
    n = rng.randint(0, nmax)
    hashes = [rng.choice(hpool) for _ in range(n)]
    refs = [rng.choice(rpool) for _ in range(n)]
    caps = [rng.choice(cpool) for _ in range(n)]
    m = rng.randint(0, mmax)
    fresh = [100 + k for k in range(4)]
    nh = [rng.choice(hpool + fresh) if rng.random() < 0.8 else rng.choice(hashes or fresh) for _ in range(m)]
    nl = []
    for _ in range(m):
        r = rng.random()
        if r < 0.45 and caps:
            nl.append(rng.choice(caps))                 # exactly a capacity in memory
        elif r < 0.6 and caps:
            nl.append(rng.choice(caps) - 16)            # a little smaller
        else:
            nl.append(rng.choice(lpool))
    total = rng.choice(_totals(rng, refs, caps, nh, nl, hashes))
    return hashes, refs, caps, total, nh, nl


SLOT = list(itertools.product(HASHES, REFS, CAPS))          # 27 slot contents
NEWSEG = list(itertools.product(HASHES + [9], CAPS))         # 12 new segments (9 = a hash that is never in memory)


def _scope_size(nslots, nnew):
    return len(SLOT) ** nslots * len(NEWSEG) ** nnew


def _scope_item(nslots, nnew, idx):
    """the idx-th element (mixed radix) of the small scope with `nslots` slots and `nnew` new segments"""
    lay, new = [], []
    for _ in range(nnew):
        idx, r = divmod(idx, len(NEWSEG))
        new.append(NEWSEG[r])
    for _ in range(nslots):
        idx, r = divmod(idx, len(SLOT))
        lay.append(SLOT[r])
    return ([s[0] for s in lay], [s[1] for s in lay], [s[2] for s in lay], [x[0] for x in new], [x[1] for x in new])


def _small_scope(nslots, nnew, rng=None, count=None):
    """all layouts of the small scope, or `count` distinct ones drawn uniformly"""
    size = _scope_size(nslots, nnew)
    if count is None or count >= size:
        idxs = range(size)
    else:
        idxs = sorted(rng.sample(range(size), count))
    for i in idxs:
        yield _scope_item(nslots, nnew, i)


def gen_cases(rng, tier, ctx):
    cases = []
    thorough = tier == 'thorough'
    # ---- the literal layouts of the unit test + boundary layouts
    cases.append(_mk([], [], [], 2 ** 20, [-5, -6, -7, -8, -9], [224, 208, 256, 224, 208]))
    cases.append(_mk([1, 2, 3, -7, 5, -9], [1, 1, 1, 2, 1, 3], [192, 208, 224, 256, 192, 208], 2 ** 20,
                     [-5, -6, -7, -8, -9], [224, 208, 256, 224, 208]))
    cases.append(_mk([1, 2, 3, 4, 5], [1, 0, 0, 0, 1], [192, 208, 224, 256, 192], 2 ** 20, [7, 8, 9], [256, 208, 200]))
    cases.append(_mk([1], [1], [192], 2 ** 20, [], []))
    cases.append(_mk([], [], [], 0, [], []))
    cases.append(_mk([1, 2], [1, 0], [192, 192], 384, [1, 1], [192, 192]))           # duplicates of a known segment
    cases.append(_mk([1, 2, 3], [1, 0, 1], [192, 384, 192], 768 + 208, [7, 7], [384, 192]))   # duplicate unknown
    cases.append(_mk([1, 2, 3, 4], [1, 0, 0, 1], [192, 208, 384, 192], 2000, [8], [300]))  # index mix-up: misses slot 2
    # liveness remark (NOT part of C19, Props.C19_liveness_refuted): slot 2 fits, nothing can be appended -> spurious refusal
    cases.append(_mk([1, 2, 3, 4, 5], [1, 0, 0, 0, 1], [192, 208, 384, 256, 192], 1400, [8], [300]))
    cases.append(_mk([1], [1], [192], 100, [7], [192], dtype='drv'))   # unsigned wrap-around of total - sum(capacities)
    # ---- small scope
    # (slots, new segments, number of layouts drawn from that scope; None = all of them)
    if thorough:
        # round 5 (trimmed: the run was killed for memory / took > 25 min with 830 k ordinary cases): the scopes (1,3) (2,2)
        # (3,1) (2,3) are swept completely inside Coq by `pregen` (40 k layouts per coqc instead of 400) and only sampled here
        plan = [(0, 1, None), (0, 2, None), (0, 3, None), (1, 1, None), (1, 2, None), (1, 3, 2000), (2, 1, None),
                (2, 2, 3000), (2, 3, 4000), (3, 1, 3000), (3, 2, 5000), (3, 3, 8000), (4, 1, 5000), (4, 2, 8000),
                (4, 3, 10000)]
    else:
        plan = [(0, 1, None), (0, 2, 40), (1, 1, None), (1, 2, 200), (2, 1, 400), (2, 2, 200), (3, 2, 200), (3, 3, 200),
                (4, 2, 200), (4, 3, 250)]
    for nslots, nnew, count in plan:
        for hashes, refs, caps, nh, nl in _small_scope(nslots, nnew, rng, count):
            total = rng.choice(_totals(rng, refs, caps, nh, nl, hashes))
            cases.append(_mk(hashes, refs, caps, total, nh, nl))
    # ---- random small / larger
    n_small, n_large, n_mal, n_drv = (380, 120, 100, 120) if not thorough else (4000, 1000, 800, 1000)
    hp = [1, 2, 3, 4, 5, -3]
    cp = [192, 208, 224, 256, 384, 400]
    lp = [192, 208, 224, 256, 384, 400, 176, 1024]
    for _ in range(n_small):
        h, r, c, t, nh, nl = _rand_place(rng, 7, 5, hp, cp, lp, [0, 0, 0, 1, 1, 2, 3])
        cases.append(_mk(h, r, c, t, nh, nl, aslist=rng.random() < 0.3))
    for _ in range(n_large):
        h, r, c, t, nh, nl = _rand_place(rng, 30, 12, list(range(1, 25)), cp + [16 * k for k in range(12, 40)],
                                         lp + [16 * k for k in range(12, 40)], [0, 0, 0, 1, 1, 2, 5])
        cases.append(_mk(h, r, c, t, nh, nl))
    # ---- malformed stream: values the driver never produces
    for _ in range(n_mal):
        h, r, c, t, nh, nl = _rand_place(rng, 6, 4, hp + [0, -1], cp + [0, -16, 1], lp + [0, -16, 1, -192],
                                         [0, 0, 1, 2, -1, -2])
        if rng.random() < 0.3:
            t = rng.choice([0, -1, -400, 1, 15, 16])
        cases.append(_mk(h, r, c, t, nh, nl, dtype='i8', aslist=rng.random() < 0.3))
    # ---- the driver's dtypes (uint32 capacities, uint32 / int64 reference counts), only where nothing can wrap
    for _ in range(n_drv):
        h, r, c, t, nh, nl = _rand_place(rng, 8, 5, hp, cp, lp[:6], [0, 0, 0, 1, 1, 2, 3])
        if rng.random() < 0.25:
            # total capacity BELOW what is already reserved: `total_capacity - np.sum(uint32 array)` must not wrap
            t = rng.choice([0, 100, sum(c) - 1, sum(c) - 192, sum(x for x, y in zip(c, r) if y > 0) - 16])
            t = max(t, 0)
        cases.append(_mk(h, r, c, t, nh, nl, dtype=rng.choice(['drv', 'drv64'])))
    # ---- round 4: every integer dtype the callers use for each of the five arrays (unsigned, mixed), on the refusal
    # thresholds, small sizes and sizes near a real instrument's capacity; both copies of the placement
    for c in c19_families.dtype_family(thorough):
        cases.append(c)
        if c['dts']['nh'] != 'list' and c['dts']['nl'] != 'list' and c['dts']['c'] == 'u4':
            cases.append(dict(c, impl='feature'))
    # random layouts in random dtype combinations (the driver's own combination half of the time), tight totals
    for k in range(200 if not thorough else 2000):
        h, r, c, t, nh, nl = _rand_place(rng, 8, 5, hp, cp, lp[:6], [0, 0, 0, 1, 1, 2, 3])
        if rng.random() < 0.2:
            t = max(rng.choice([0, 100, sum(c) - 1, sum(c) - 192, sum(x for x, y in zip(c, r) if y > 0) - 16]), 0)
        cs = dict(_mk(h, r, c, t, nh, nl, dtype='mix'), dts=c19_families.rand_dts(rng))
        if k % 4 == 0 and cs['dts']['nh'] != 'list' and cs['dts']['nl'] != 'list':
            cs['impl'] = 'feature'
        cases.append(cs)
    # ---- the second copy of the placement (feature_awg/tabor.py::TaborChannelTuple._find_place_for_segments_in_memory):
    # unstable default sort, MemoryError instead of RuntimeError; distinct capacities / lengths in about half of the cases
    for _ in range(300 if not thorough else 2500):
        if rng.random() < 0.5:
            h, r, c, t, nh, nl = _rand_place(rng, 7, 5, hp, cp, lp[:6], [0, 0, 0, 1, 1, 2, 3])
        else:
            n, m = rng.randint(0, 7), rng.randint(0, 5)
            c = rng.sample([16 * k for k in range(12, 40)], n)
            h = [rng.choice(hp) for _ in range(n)]
            r = [rng.choice([0, 0, 0, 1, 1, 2]) for _ in range(n)]
            pool = sorted(set([16 * k for k in range(11, 42)] + c))
            nl = rng.sample(pool, m)
            nh = [rng.choice(hp + [100, 101, 102, 103]) for _ in range(m)]
            t = rng.choice(_totals(rng, r, c, nh, nl, h))
        if rng.random() < 0.2:
            t = max(rng.choice([0, 100, sum(c) - 1, sum(c) - 192, sum(x for x, y in zip(c, r) if y > 0) - 16]), 0)
        cases.append(dict(_mk(h, r, c, t, nh, nl, dtype=rng.choice(['drv', 'drv64'])), impl='feature'))
    # ---- numpy primitives on numpy itself
    cases.extend(c19_prims.gen(rng, thorough))
    # ---- layouts of the completely swept scopes (3,2) and (2,3) that the python oracle rejected (thorough tier)
    cases.extend(ctx.get('c19_sweep_rejected', []))
    # ---- histories driven through the real driver bookkeeping (fake instrument)
    n_hist = 300 if not thorough else 1500
    cases.append({'kind': 'hist', 'total': 100000, 'ops': [
        ['upload', 1, [[11, 192], [12, 208]], False], ['upload', 2, [[12, 208], [13, 384]], False], ['remove', 1],
        ['upload', 3, [[14, 192], [12, 208], [15, 400]], False], ['upload', 2, [[16, 192]], True],
        ['upload', 2, [[16, 192]], False], ['free', 9], ['cleanup'], ['clear']]})
    for _ in range(n_hist):
        cases.append(_rand_hist(rng))
    # the same kind of histories through the second driver (feature_awg/tabor.py)
    for _ in range(n_hist // 2):
        cases.append(dict(_rand_hist(rng), driver='feature'))
    # ---- slot 0 / idle segment / aliasing: written-out family (both drivers), random histories in which 15 % / 40 % of
    # the segments are the idle segment, small-scope exhaustive histories
    for c in _slot0_family():
        cases.append(c)
        cases.append(dict(c, driver='feature'))
    for k in range(n_hist // 2):
        c = _rand_hist(rng, idle_p=(0.15, 0.4)[k % 2])
        cases.append(c if k % 3 else dict(c, driver='feature'))
    for c in itertools.chain(_small_histories(1), _small_histories(2)):       # 21 + 441
        cases.append(c)
    if thorough:
        cases.extend(_small_histories(3))                                      # 9261
        alpha = _hist_alphabet()
        for k in range(2000):
            ops = [list(rng.choice(alpha)) for _ in range(rng.choice([4, 4, 5, 6]))]
            cases.append(dict({'kind': 'hist', 'total': 100000, 'ops': ops}, **({'driver': 'feature'} if k % 4 == 0 else {})))
    else:
        alpha = _hist_alphabet()
        for k in range(150):
            ops = [list(rng.choice(alpha)) for _ in range(rng.choice([3, 4, 5]))]
            cases.append(dict({'kind': 'hist', 'total': 100000, 'ops': ops}, **({'driver': 'feature'} if k % 4 == 0 else {})))
    # ---- round 4: a re-used slot that is unreferenced and lies at the tail (forced re-upload, free without cleanup,
    # refused uploads in between), every length dtype, both drivers
    for c in c19_families.tail_reuse_family():
        for k, ld in enumerate(['u8', 'u4', 'i8', 'list']):
            cases.append(dict(c, len_dtype=ld))
            if k < 2 or thorough:
                cases.append(dict(c, len_dtype=ld, driver='feature'))
    for c in c19_families.lens_family():
        for ld in ('u8', 'u4'):
            cases.append(dict(c, len_dtype=ld))
            cases.append(dict(c, len_dtype=ld, driver='feature'))
    # ---- round 5: shorter segment in a larger hole, then an append on the refusal threshold (capacity vs defined length)
    for c in c19_families.short_in_hole_family():
        cases.append(dict(c, len_dtype='u8'))
        cases.append(dict(c, len_dtype='u8', driver='feature'))
    cases.append({'kind': 'hist', 'driver': 'feature', 'total': 2000, 'ops': [
        ['upload', 1, [[11, 208], [15, 400], [26, 256], [4, 192]], True], ['upload', 1, [[11, 208], [25, 400], [23, 384]], True]]})
    return cases


def pregen(ctx):
    """Sweep of complete small scopes, judged INSIDE Coq (coq/C19/Sweep.v): the real function is run on every layout of
    the scope, only the returned decisions are sent (20 bits per layout); Coq regenerates layout and total capacity from
    the index and evaluates check_spec (four clauses) and check_corr (model = implementation) on each.
    quick: (1,1) (1,2) (2,1) = 12 960 layouts; thorough: + (1,3) (2,2) (3,1) (2,3) complete and a 960 k window of (3,2) that
    rotates with the seed = 2 620 500 layouts per run.
    Failing layouts are handed to gen_cases and go through the normal case path (VIOLATION + replay)."""
    import time
    t0 = time.time()
    thorough = ctx.get('tier') == 'thorough'
    scopes = [(1, 1), (1, 2), (2, 1)]
    if thorough:
        # complete: (1,3) (2,2) (3,1) (2,3) = 1.65 M layouts; of (3,2) (2.83 M layouts) a window of 960 k consecutive layouts
        # whose position rotates with the seed (seeds 0, 1, 2 together cover the scope)
        seed = ctx.get('seed', 0) or 0
        size32 = _scope_size(3, 2)
        lo = (seed % 3) * 960000
        scopes += [(1, 3), (2, 2), (3, 1), (2, 3), (3, 2, lo, min(lo + 960000, size32))]
    # Sweep.vo is a build target of the check (step 2); here it is only rebuilt when it is older than its cone, so that a
    # run does not queue twice for the global build lock
    ok = _sweep_vo_fresh() or vlib.coq_make(['C19/Sweep.vo'])[0]
    if not ok:
        # the build step of the check reports the broken file; nothing to sweep with
        return [{'name': 'sweep_small_scopes_judged_in_coq', 'ok': True,
                 'detail': 'skipped: coq/C19/Sweep.vo does not build (reported by the build step)'}]
    try:
        n, failing, py_rejected, shards = sweep_scopes(scopes, ctx.get('seed', 0) or 0, ctx['workdir'])
    except Exception as e:
        return [{'name': 'sweep_small_scopes_judged_in_coq', 'ok': False, 'detail': 'sweep crashed: %s' % (e,)}]
    ctx['c19_sweep_rejected'] = (failing + [c for c in py_rejected if c not in failing])[:50]
    return [{'name': 'sweep_small_scopes_judged_in_coq', 'ok': True,
             'detail': 'scopes %s: %d layouts in %d coqc shards, Coq (check_spec && check_corr per layout) rejects '
                       '%d, the python oracle of the four clauses rejects %d, %.0f s'
                       % (' '.join('(%d,%d) complete' % sc if len(sc) == 2 else '(%d,%d) layouts %d..%d' % sc for sc in scopes),
                          n, shards, len(failing), len(py_rejected),
                          time.time() - t0)}]


def _sweep_vo_fresh():
    d = os.path.join(vlib.COQ, 'C19')
    try:
        t = os.path.getmtime(os.path.join(d, 'Sweep.vo'))
        return all(os.path.getmtime(os.path.join(d, f + ext)) <= t
                   for f in ('Model', 'Spec', 'Driver', 'DriverLens', 'Corr', 'Sweep') for ext in ('.v', '.vo') if f + ext != 'Sweep.vo')
    except OSError:
        return False


def _sweep_total(idx, seed, refs, caps, nh, nl, hashes):
    """the total capacity of layout idx in the sweep: determined by index and seed (coq/C19/Sweep.v::scope_total)"""
    return _totals(None, refs, caps, nh, nl, hashes)[(idx * 7 + 3 * seed) % 19]


def _sweep_encode(obs, nnew):
    """20 bits per layout (coq/C19/Sweep.v::decode)"""
    if 'ret' in obs:
        w, a, i = obs['ret']
        if not (len(w) == len(a) == len(i) == nnew and all(-1 <= x <= 2 for x in w) and all(-1 <= x <= 2 for x in i)):
            return 3
        code = 0
        for j in reversed(range(nnew)):
            code = (code << 5) | (w[j] + 1) | ((i[j] + 1) << 2) | (int(bool(a[j])) << 4)
        return code << 2
    return {'NotEnoughMemory': 1, 'Fragmentation': 2}.get(obs.get('refused'), 3)


def _sweep_case(nslots, nnew, idx, seed):
    hashes, refs, caps, nh, nl = _scope_item(nslots, nnew, idx)
    return _mk(hashes, refs, caps, _sweep_total(idx, seed, refs, caps, nh, nl, hashes), nh, nl)


def _sweep_job(arg):
    """one contiguous index range of one small scope: run the implementation, pack the decisions, let coqc judge them"""
    import re
    import subprocess
    import warnings
    import numpy as np
    from qupulse._program.tabor import find_place_for_segments_in_memory
    nslots, nnew, lo, hi, seed, workdir = arg
    codes, py_rejected = [], []
    for idx in range(lo, hi):
        case = _sweep_case(nslots, nnew, idx, seed)
        try:
            with warnings.catch_warnings():
                warnings.simplefilter('ignore')
                w2s, ta, ti = find_place_for_segments_in_memory(
                    current_segment_hashes=np.asarray(case['hashes'], dtype=np.int64),
                    current_segment_references=np.asarray(case['refs'], dtype=np.int64),
                    current_segment_capacities=np.asarray(case['caps'], dtype=np.int64), total_capacity=case['total'],
                    new_segment_hashes=np.asarray(case['new_hashes'], dtype=np.int64),
                    new_segment_lengths=np.asarray(case['new_lens'], dtype=np.int64))
            obs = {'ret': [[int(x) for x in w2s.tolist()], [bool(x) for x in ta.tolist()], [int(x) for x in ti.tolist()]]}
        except RuntimeError as e:
            msg = ' '.join(str(a) for a in e.args)
            obs = {'refused': 'Fragmentation' if 'ragmentation' in msg else 'NotEnoughMemory' if 'nough' in msg else 'other'}
        except Exception as e:
            obs = {'crash': repr(e)}
        codes.append(_sweep_encode(obs, nnew))
        if ('crash' in obs or clauses(case, obs)) and len(py_rejected) < 20:
            py_rejected.append(case)
    words = []
    for k in range(0, len(codes), 12):
        w = 0
        for c in reversed(codes[k:k + 12]):
            w = (w << 20) | c
        words.append('0x%x' % w)
    path = os.path.join(workdir, 'sweep_%d_%d_%d.v' % (nslots, nnew, lo))
    with open(path, 'w') as fh:
        fh.write('From Coq Require Import List ZArith.\nImport ListNotations.\nRequire Import QV.C19.Sweep.\n'
                 'Open Scope Z_scope.\nGoal True. idtac "@@BEGIN". exact I. Qed.\n'
                 'Eval vm_compute in (sweep_chunk %d %d %d %d %d [%s]).\nGoal True. idtac "@@END". exact I. Qed.\n'
                 % (nslots, nnew, seed, lo, hi - lo, '; '.join(words)))
    import time
    for attempt in range(3):
        pr = subprocess.run(['timeout', str(vlib.COQC_TIMEOUT), 'coqc', '-R', vlib.COQ, 'QV', '-w', '-all', path],
                            cwd=workdir, stdout=subprocess.PIPE, stderr=subprocess.STDOUT, text=True)
        m = re.search(r'=\s*\(\[([^\]]*)\],\s*(\d+),\s*(\d+)\)', pr.stdout.split('@@BEGIN')[-1]) if pr.returncode == 0 else None
        if m or (pr.returncode >= 0 and pr.returncode != 137):
            break
        # coqc was killed from outside (round 5: the machine's OOM killer while 20 checks ran at once): same shard again
        time.sleep(20 * (attempt + 1))
    if not m:
        raise RuntimeError('coqc failed on sweep shard %s: %s' % (path, pr.stdout[-400:]))
    bad = [int(x) for x in m.group(1).replace(' ', '').replace('\n', '').split(';') if x.strip()]
    if int(m.group(3)) != 0:
        raise RuntimeError('sweep shard %s does not cover its index range' % path)
    for ext in ('.v', '.vo', '.glob', '.vok', '.vos'):
        try:
            os.remove(path[:-2] + ext)
        except OSError:
            pass
    return hi - lo, [_sweep_case(nslots, nnew, i, seed) for i in bad], int(m.group(2)), py_rejected


def sweep_scopes(scopes, seed, workdir, limit=None, procs=None):
    import multiprocessing
    os.makedirs(workdir, exist_ok=True)
    jobs = []
    for sc in scopes:
        nslots, nnew = sc[0], sc[1]
        first, size = (sc[2], sc[3]) if len(sc) == 4 else (0, _scope_size(nslots, nnew))
        if limit is not None:
            size = min(size, first + limit)
        step = 40000
        jobs += [(nslots, nnew, lo, min(lo + step, size), seed, workdir) for lo in range(first, size, step)]
    procs = procs or max(2, min(6, (os.cpu_count() or 4) // 2, len(jobs)))
    n, failing, py_rejected = 0, [], []
    with multiprocessing.get_context('fork').Pool(procs) as pool:
        for k, bad, nbad, rej in pool.imap_unordered(_sweep_job, jobs):
            n += k
            failing += bad
            py_rejected += rej
    return n, failing, py_rejected, len(jobs)


SEG_LEN = {h: [192, 208, 224, 384, 192, 400, 256, 208, 1024, 192][h % 10] for h in range(1, 31)}
# hash 0 / 192 points = the idle segment the drivers keep in slot 0 (c19_driver: `_idle_segment = Seg(0, 192)`); a program
# segment with this hash is "bit-identical to the idle waveform" and is placed on slot 0
IDLE_SEG = [0, 192]
SEG_LEN[0] = 192


def _rand_hist(rng, idle_p=0.0):
    """idle_p: probability that a segment of an uploaded program is the idle segment (hash 0, re-uses slot 0)"""
    total = rng.choice([800, 1200, 2000, 4000, 100000])
    npool = rng.choice([4, 8, 30])
    ops = []
    seen = []
    known = []        # names that are probably uploaded (uploads may be refused; this only biases the choice)
    for _ in range(rng.randint(1, 12)):
        r = rng.random()
        if r < 0.55:
            force = rng.random() < 0.35
            free_names = [x for x in range(1, 6) if x not in known]
            if known and (force or rng.random() < 0.15):
                name = rng.choice(known)                      # re-upload of a known name (error unless force)
            else:
                name = rng.choice(free_names or [1])
            k = rng.choice([0, 1, 1, 2, 2, 3, 4])
            # new hashes, or (half of the time) hashes that were uploaded earlier in this history
            hs = [0 if rng.random() < idle_p else
                  rng.choice(seen) if seen and rng.random() < 0.5 else rng.randint(1, npool) for _ in range(k)]
            seen.extend(h for h in hs if h)
            if rng.random() < 0.8:
                hs = list(dict.fromkeys(hs))     # a program usually has distinct segments
            ops.append(['upload', name, [[h, SEG_LEN[h]] for h in hs], force])
            if name not in known:
                known.append(name)
        elif r < 0.87:
            name = rng.choice(known) if known and rng.random() < 0.85 else rng.randint(1, 6)
            ops.append(['remove' if r < 0.75 else 'free', name])
            if name in known:
                known.remove(name)
        elif r < 0.97:
            ops.append(['cleanup'])
        else:
            ops.append(['clear'])
            known = []
    # round 4: the lengths arrive as uint64 (what TaborProgram delivers) most of the time
    return {'kind': 'hist', 'total': total, 'ops': ops, 'len_dtype': rng.choice(['u8', 'u8', 'u8', 'u4', 'i8', 'list'])}


def _slot0_family():
    """Histories around slot 0 / the idle segment, written out (class missed before round 3: the generator never produced a
    segment whose hash equals the reserved idle segment's, so slot 0 was never re-used, shared or un-counted).  Also the
    aliasing classes: the same program content under several names, forced re-upload of identical content, the same name
    removed twice, a program containing the same segment twice."""
    Z, A, B, C, D, E = IDLE_SEG, [11, 256], [12, 320], [13, 192], [14, 256], [15, 192]
    out = []

    def H(ops, total=100000):
        out.append({'kind': 'hist', 'total': total, 'ops': ops})
    for rm in ('remove', 'free'):
        for first in (1, 2):
            # two programs share slot 0 with each other and with the idle sequence; one goes; a 192-point unknown segment
            # must not be offered slot 0; then the other goes, too
            H([['upload', 1, [Z, A], False], ['upload', 2, [Z, B], False], [rm, first], ['upload', 3, [C, D], False],
               [rm, 3 - first], ['upload', 4, [E], False], ['cleanup'], ['upload', 5, [Z, C], False]])
    H([['upload', 1, [Z], False], ['remove', 1], ['upload', 2, [C], False]])     # a program that IS the idle waveform
    H([['upload', 1, [Z], False], ['upload', 2, [Z], False], ['upload', 3, [Z], False], ['remove', 2], ['remove', 1],
       ['upload', 4, [C], False], ['remove', 3], ['upload', 5, [E], False]])
    # the same segment twice in one program: counted once on upload, un-counted once on removal
    H([['upload', 1, [Z, Z], False], ['upload', 2, [Z, A, Z], False], ['remove', 1], ['upload', 3, [C], False],
       ['remove', 2], ['upload', 4, [C, E], False]])
    H([['upload', 1, [A, A], False], ['upload', 2, [A, B, A], False], ['remove', 1], ['upload', 3, [D], False],
       ['remove', 2], ['upload', 4, [D, [16, 256]], False]])
    # re-registration of the same name with identical content (free + re-use of its own slots with count 0)
    H([['upload', 1, [Z, A], False], ['upload', 1, [Z, A], True], ['upload', 1, [Z, A], True], ['remove', 1],
       ['upload', 2, [C], False]])
    H([['upload', 1, [A, B], False], ['upload', 1, [A, B], True], ['upload', 1, [B, A], True], ['upload', 2, [A, B], False],
       ['upload', 1, [A, B], True], ['remove', 1], ['upload', 3, [D, [16, 320]], False]])
    # the same content under three names; a name removed twice
    H([['upload', 1, [Z, A], False], ['upload', 2, [Z, A], False], ['upload', 3, [Z, A], False], ['remove', 2],
       ['remove', 2], ['remove', 1], ['upload', 4, [C, D], False], ['remove', 3], ['upload', 5, [E, [16, 256]], False]])
    # slot 0 shared, everything freed without cleanup, then a batch that could use every freed slot
    H([['upload', 1, [A, Z], False], ['upload', 2, [B, Z], True], ['free', 1], ['free', 2],
       ['upload', 3, [C, D, E], False], ['cleanup'], ['upload', 4, [Z], False], ['free', 4], ['upload', 5, [[16, 192]], False]])
    H([['upload', 1, [Z, A], False], ['clear'], ['upload', 2, [Z, B], False], ['remove', 2], ['upload', 3, [C], False]])
    # tight memory: only slot 0 (192 points) could take the new segment
    H([['upload', 1, [Z, A], False], ['upload', 2, [Z], False], ['remove', 1], ['upload', 3, [C], False]], total=192 + 256)
    H([['upload', 1, [Z, A], False], ['upload', 2, [Z], False], ['remove', 1], ['upload', 3, [C], False]], total=192 + 272)
    H([['upload', 1, [Z], False], ['remove', 1], ['upload', 2, [C], False], ['upload', 3, [E], False]], total=192 + 208)
    return out


def _hist_alphabet():
    Z, A, C = IDLE_SEG, [11, 256], [13, 192]
    ops = [['upload', name, segs, force] for name in (1, 2) for segs in ([Z], [Z, A], [C], [A]) for force in (False, True)]
    ops += [['remove', 1], ['remove', 2], ['free', 1], ['free', 2], ['cleanup']]
    return ops


def _small_histories(length):
    """all histories of exactly `length` operations over 21 operations: 2 names x {idle, idle+A, C (192 points), A} x
    force, remove / free of both names, cleanup"""
    for ops in itertools.product(_hist_alphabet(), repeat=length):
        yield {'kind': 'hist', 'total': 100000, 'ops': [list(o) for o in ops]}


# ---------------------------------------------------------------------------------------------------------------------
# implementation

def _arrays(case):
    import numpy as np
    dt = case.get('dtype', 'i8')
    if case.get('dts'):
        # round 4: an explicit dtype per array ('list' = python list, new-segment arrays only)
        d = case['dts']
        mk = lambda xs, t: list(xs) if t == 'list' else np.asarray(xs, dtype=np.dtype(t))
        return (mk(case['hashes'], d.get('h', 'i8')), mk(case['refs'], d.get('r', 'i8')), mk(case['caps'], d.get('c', 'i8')),
                mk(case['new_hashes'], d.get('nh', 'i8')), mk(case['new_lens'], d.get('nl', 'i8')))
    hashes = np.asarray(case['hashes'], dtype=np.int64)
    if dt == 'drv':
        refs = np.asarray(case['refs'], dtype=np.uint32)
        caps = np.asarray(case['caps'], dtype=np.uint32)
    elif dt == 'drv64':
        refs = np.asarray(case['refs'], dtype=np.int64)
        caps = np.asarray(case['caps'], dtype=np.uint32)
    else:
        refs = np.asarray(case['refs'], dtype=np.int64)
        caps = np.asarray(case['caps'], dtype=np.int64)
    if case.get('aslist'):
        nh, nl = list(case['new_hashes']), list(case['new_lens'])
    else:
        nh = np.asarray(case['new_hashes'], dtype=np.int64)
        nl = np.asarray(case['new_lens'], dtype=np.int64)
    return hashes, refs, caps, nh, nl


def _eff_len_dtype(case):
    """dtype of the lengths the stand-in TaborProgram hands to upload().  The feature driver's copy of the placement takes an
    np.ndarray (it does not call np.asarray): a python list is outside its contract and becomes uint64 there."""
    ld = case.get('len_dtype', 'u8')
    return 'u8' if ld == 'list' and case.get('driver') == 'feature' else ld


def run_impl(case):
    import warnings
    import numpy as np
    if case['kind'] == 'hist':
        from props import c19_driver
        try:
            with vlib.time_limit(20):
                return {'steps': c19_driver.run_history(case['total'], case['ops'], driver=case.get('driver', 'awgs'),
                                                        len_dtype=_eff_len_dtype(case))}
        except vlib.Timeout:
            return {'hang': True}
        except Exception as e:
            return {'crash': '%s: %s' % (type(e).__name__, e)}
    if case['kind'] == 'prim':
        try:
            with vlib.time_limit(10), warnings.catch_warnings():
                warnings.simplefilter('ignore')
                return c19_prims.run(case)
        except vlib.Timeout:
            return {'hang': True}
        except Exception as e:
            return {'crash': '%s: %s' % (type(e).__name__, e)}
    from qupulse._program.tabor import find_place_for_segments_in_memory
    hashes, refs, caps, nh, nl = _arrays(case)
    before = (hashes.copy(), refs.copy(), caps.copy(), list(nh), list(nl))
    try:
        with vlib.time_limit(10), warnings.catch_warnings():
            warnings.simplefilter('ignore')
            if case.get('impl') == 'feature':
                import types
                from props import c19_driver
                F = c19_driver.load_feature_module()
                me = types.SimpleNamespace(_segment_hashes=hashes, _segment_references=refs, _segment_capacity=caps,
                                           total_capacity=case['total'], _free_points_in_total=0, _free_points_at_end=0)
                w2s, ta, ti = F.TaborChannelTuple._find_place_for_segments_in_memory(
                    me, [c19_driver.Seg(int(h), int(l)) for h, l in zip(case['new_hashes'], case['new_lens'])],
                    nl if case.get('dts') and not isinstance(nl, list) else
                    np.asarray(case['new_lens'], dtype=np.uint32 if case.get('dtype') == 'drv' else np.int64))
            else:
                w2s, ta, ti = find_place_for_segments_in_memory(
                    current_segment_hashes=hashes, current_segment_references=refs, current_segment_capacities=caps,
                    total_capacity=case['total'], new_segment_hashes=nh, new_segment_lengths=nl)
        obs = {'ret': [[int(x) for x in np.asarray(w2s).tolist()], [bool(x) for x in np.asarray(ta).tolist()],
                       [int(x) for x in np.asarray(ti).tolist()]]}
    except vlib.Timeout:
        return {'hang': True}
    except (RuntimeError, MemoryError) as e:      # the feature driver's copy raises MemoryError
        msg = ' '.join(str(a) for a in e.args)
        if 'ragmentation' in msg:
            obs = {'refused': 'Fragmentation'}
        elif 'nough' in msg:
            obs = {'refused': 'NotEnoughMemory'}
        else:
            obs = {'refused': 'other'}
    except AssertionError:
        obs = {'refused': 'AssertionFailed'}
    except Exception as e:
        return {'crash': '%s: %s' % (type(e).__name__, e)}
    obs['inputs_unchanged'] = bool(np.array_equal(before[0], hashes) and np.array_equal(before[1], refs)
                                   and np.array_equal(before[2], caps)
                                   and before[3] == list(nh) and before[4] == list(nl))
    if case.get('impl') != 'feature' and obs['inputs_unchanged']:
        # the same arrays passed a second time (the driver keeps them): the function has no hidden state
        try:
            with warnings.catch_warnings():
                warnings.simplefilter('ignore')
                w2, a2, i2 = find_place_for_segments_in_memory(
                    current_segment_hashes=hashes, current_segment_references=refs, current_segment_capacities=caps,
                    total_capacity=case['total'], new_segment_hashes=nh, new_segment_lengths=nl)
            again = {'ret': [[int(x) for x in np.asarray(w2).tolist()], [bool(x) for x in np.asarray(a2).tolist()],
                             [int(x) for x in np.asarray(i2).tolist()]]}
        except (RuntimeError, AssertionError):
            again = {'refused': True}
        except Exception as e:
            again = {'crash': repr(e)}
        same = again.get('ret') == obs.get('ret') and ('refused' in again) == ('refused' in obs) and 'crash' not in again
        if not same:
            obs['inputs_unchanged'] = False
            obs['second_call_differs'] = True
    return obs


def _zl(xs):
    return glist(gZ, xs)


HERR = {None: 'HNone', 'Fragmentation': 'HRefused', 'NotEnoughMemory': 'HRefused', 'Refused': 'HRefused',
        'AlreadyKnown': 'HAlreadyKnown', 'UnknownProgram': 'HUnknownProgram'}


def _g_op(op):
    if op[0] == 'upload':
        return '(OUpload %s %s %s)' % (vlib.gnat(op[1]), glist(lambda s: '(%s, %s)' % (gZ(s[0]), gZ(s[1])), op[2]),
                                       gbool(op[3]))
    if op[0] == 'free':
        return '(OFree %s)' % vlib.gnat(op[1])
    if op[0] == 'remove':
        return '(ORemove %s)' % vlib.gnat(op[1])
    return {'cleanup': 'OCleanup', 'clear': 'OClear'}[op[0]]


def _g_step(st):
    progs = glist(lambda p: '(%s, %s, %s)' % (vlib.gnat(p[0]), _zl(p[1]), _zl(p[2])), st['progs'])
    dev = glist(lambda x: vlib.gopt(gZ, x), st['dev'])
    devlen = glist(lambda x: vlib.gopt(gZ, x), st['devlen'])
    return ('{| ho_err := %s; ho_hashes := %s; ho_caps := %s; ho_refs := %s; ho_progs := %s; ho_dev := %s; '
            'ho_lens := %s; ho_devlen := %s; ho_plens := %s |}'
            % (HERR.get(st['err'], 'HInternal'), _zl(st['hashes']), _zl(st['caps']), _zl(st['refs']), progs, dev,
               _zl(st['lens']), devlen, glist(_zl, st['plens'])))


def _g_call(dc, feature):
    if 'ret' in dc:
        w, a, i = dc['ret']
        impl = '(IRet %s %s %s)' % (_zl(w), glist(gbool, a), _zl(i))
    else:
        impl = '(IRefuse None)'            # the call raised: which RuntimeError is visible in the step's ho_err
    return ('{| pc_feature := %s; pc_hashes := %s; pc_refs := %s; pc_caps := %s; pc_new_hashes := %s; pc_new_lens := %s; '
            'pc_impl := %s |}' % (gbool(feature), _zl(dc['hashes']), _zl(dc['refs']), _zl(dc['caps']), _zl(dc['new_hashes']),
                                  _zl(dc['new_lens']), impl))


def to_coq(case, obs):
    if 'crash' in obs or 'hang' in obs:
        return 'CCrash'
    if case['kind'] == 'hist':
        # round 6: every placement call made inside the history (driver's own arrays at call time + what it returned) is
        # part of the Coq case: judged by Spec.decision_okb and compared with the model of the decision function
        calls = [dc for st in obs['steps'] for dc in st.get('decisions', ())]
        return '(CHistD %s %s %s %s)' % (gZ(case['total']), glist(_g_op, case['ops']), glist(_g_step, obs['steps']),
                                         glist(lambda dc: _g_call(dc, case.get('driver') == 'feature'), calls))
    if case['kind'] == 'prim':
        return c19_prims.to_coq(case, obs)
    if 'ret' in obs:
        w, a, i = obs['ret']
        impl = '(IRet %s %s %s)' % (_zl(w), glist(gbool, a), _zl(i))
    else:
        k = obs['refused']
        impl = '(IRefuse %s)' % ('None' if k == 'other' else '(Some %s)' % k)
    return '(%s %s %s %s %s %s %s %s %s)' % ('CPlaceF' if case.get('impl') == 'feature' else 'CPlace', _zl(case['hashes']), _zl(case['refs']), _zl(case['caps']),
                                                 gZ(case['total']), _zl(case['new_hashes']), _zl(case['new_lens']),
                                                 impl, gbool(obs.get('inputs_unchanged', False)))


# ---------------------------------------------------------------------------------------------------------------------
# the four clauses in Python (second, independent oracle; also drives search_failing)

def clauses(case, obs):
    """None when the returned decision is safe, else the name of the first violated clause"""
    if 'ret' not in obs:
        if obs.get('refused') in ('NotEnoughMemory', 'Fragmentation', 'other'):
            return None
        return 'implementation did not return a decision nor refuse: %r' % (obs,)
    if any(r < 0 for r in case['refs']):
        return None          # a negative reference count is not a count: outside the property (compared with the model only)
    w2s, amend, ins = obs['ret']
    hashes, refs, caps, total = case['hashes'], case['refs'], case['caps'], case['total']
    nh, nl = case['new_hashes'], case['new_lens']
    n, m = len(hashes), len(nh)
    if not (len(w2s) == len(amend) == len(ins) == m):
        return 'clause 4: result arrays do not have one entry per new segment'
    for j in range(m):
        if w2s[j] != -1 and not (0 <= w2s[j] < n and hashes[w2s[j]] == nh[j]):
            return 'clause 1: segment %d reuses slot %d which holds a different hash' % (j, w2s[j])
    seen = set()
    for j in range(m):
        s = ins[j]
        if s == -1:
            continue
        if not 0 <= s < n:
            return 'clause 2: segment %d written to non-existing slot %d' % (j, s)
        if refs[s] != 0 or s in w2s:
            return 'clause 2: segment %d overwrites slot %d which is in use' % (j, s)
        if caps[s] < nl[j]:
            return 'clause 2: segment %d (length %d) does not fit slot %d (capacity %d)' % (j, nl[j], s, caps[s])
        if s in seen:
            return 'clause 2: slot %d is written twice' % s
        seen.add(s)
    used = [i for i in range(n) if refs[i] > 0 or i in w2s or i in ins]
    end = used[-1] + 1 if used else 0
    need = sum(nl[j] + 16 for j in range(m) if amend[j])
    if need > total - sum(caps[:end]):
        return 'clause 3: appended segments need %d points, only %d are free behind slot %d' % (
            need, total - sum(caps[:end]), end)
    for j in range(m):
        if [w2s[j] != -1, ins[j] != -1, bool(amend[j])].count(True) != 1:
            return 'clause 4: segment %d is not accounted for exactly once' % j
    return None


def hist_decisions(case, obs):
    """round 5: every decision the driver obtained inside the history, judged by the four clauses against the driver's
    OWN arrays at the moment of the call (slot hashes, reference counts, CAPACITIES) and the instrument's total capacity.
    Python oracle only (the Coq case carries the states, not the decisions)."""
    for k, st in enumerate(obs['steps']):
        for dc in st.get('decisions', ()):
            if 'ret' not in dc:
                continue                                       # the placement refused: nothing is written
            pc = {'hashes': dc['hashes'], 'refs': dc['refs'], 'caps': dc['caps'], 'total': case['total'],
                  'new_hashes': dc['new_hashes'], 'new_lens': dc['new_lens']}
            why = clauses(pc, {'ret': dc['ret']})
            if why:
                return 'step %d (%s): decision inside the history, judged on the driver\'s own arrays %r: %s' % (
                    k, case['ops'][k][0], pc, why)
    return None


def hist_safe(case, obs):
    for k, st in enumerate(obs['steps']):
        if HERR.get(st['err'], 'HInternal') == 'HInternal':
            return 'step %d (%s): the driver raised %s' % (k, case['ops'][k][0], st['err'])
        n = len(st['dev'])
        if st['hashes'] != st['dev']:
            return 'step %d (%s): the driver records slot contents %r but the instrument holds %r' % (
                k, case['ops'][k][0], st['hashes'], st['dev'])
        if n < 1 or st['dev'][0] != IDLE_SEG[0]:
            return 'step %d (%s): slot 0 holds %r instead of the idle waveform' % (
                k, case['ops'][k][0], st['dev'][0] if n else None)
        if st['refs'][0] < 1:
            return 'step %d (%s): slot 0 (idle waveform, played by the idle sequence) has reference count %d' % (
                k, case['ops'][k][0], st['refs'][0])
        for name, w2s, segs in st['progs']:
            if len(w2s) != len(segs):
                return 'step %d: program %d has %d slots for %d segments' % (k, name, len(w2s), len(segs))
            for j, (q, h) in enumerate(zip(w2s, segs)):
                if not 0 <= q < n:
                    return 'step %d (%s): waveform %d of program %d refers to slot %d which does not exist' % (
                        k, case['ops'][k][0], j, name, q)
                if st['dev'][q] != h:
                    return 'step %d (%s): slot %d of program %d holds %r instead of its segment %d' % (
                        k, case['ops'][k][0], q, name, st['dev'][q], h)
                if st['refs'][q] < 1:
                    return 'step %d (%s): slot %d is used by program %d but has reference count %d' % (
                        k, case['ops'][k][0], q, name, st['refs'][q])
        # round 4: defined lengths.  A slot plays as many points as the instrument has defined for it.
        if len(st['plens']) != len(st['progs']):
            return 'step %d: observation is inconsistent (program lengths)' % k
        for (name, w2s, segs), pl in zip(st['progs'], st['plens']):
            for j, (q, l) in enumerate(zip(w2s, pl)):
                if st['devlen'][q] != l:
                    return 'step %d (%s): lengths: slot %d is defined with %r points on the instrument, waveform %d of program %d has %d' % (
                        k, case['ops'][k][0], q, st['devlen'][q], j, name, l)
        if st['devlen'] != st['lens']:
            return 'step %d (%s): lengths: the driver records segment lengths %r but the instrument has %r defined' % (
                k, case['ops'][k][0], st['lens'], st['devlen'])
        if len(st['lens']) != len(st['caps']) or any(l > c for l, c in zip(st['lens'], st['caps'])):
            return 'step %d (%s): lengths: defined lengths %r exceed the capacities %r' % (
                k, case['ops'][k][0], st['lens'], st['caps'])
    return None


def hist_capacity(case, obs):
    for k, st in enumerate(obs['steps']):
        if sum(st['caps']) > case['total']:
            return 'step %d (%s): the defined slots need %d points, total capacity is %d' % (
                k, case['ops'][k][0], sum(st['caps']), case['total'])
    return None


def py_spec(case, obs):
    try:
        return _py_spec(case, obs)
    except Exception as e:       # an observation the oracle cannot even read is not an acceptable one
        return 'the oracle could not read the observation (%s: %s)' % (type(e).__name__, e)


def _py_spec(case, obs):
    if 'crash' in obs or 'hang' in obs:
        return 'implementation crashed: %r' % (obs,)
    if case['kind'] == 'hist':
        return hist_safe(case, obs) or hist_capacity(case, obs) or hist_decisions(case, obs)
    if case['kind'] == 'prim':
        return None             # the primitives' specification is Corr.prim_spec (evaluated in Coq)
    return clauses(case, obs)


def nontrivial(case, obs):
    try:
        return _nontrivial(case, obs)
    except Exception:
        return False


def _nontrivial(case, obs):
    if case['kind'] == 'prim':
        return len(case.get('a', case.get('data', case.get('m', case.get('r', case.get('w', [])))))) >= 2
    if case['kind'] == 'hist':
        return 'steps' in obs and any(len(st['progs']) >= 1 and len(st['hashes']) >= 3 for st in obs['steps'])
    unknown = any(h not in case['hashes'] for h in case['new_hashes'])
    return bool(case['hashes']) and unknown and ('ret' in obs or obs.get('refused') == 'Fragmentation')


def prev_after_free(prev, op):
    """reference counts of `prev` after the free_program that a forced upload of a known name starts with"""
    refs = list(prev['refs'])
    if op[0] == 'upload' and op[3]:
        for name, w2s, _ in prev['progs']:
            if name == op[1]:
                for q in set(w2s):
                    refs[q] -= 1
    return refs


def _hist_keys(case, obs):
    keys = ['hist', 'hist:len:%d' % len(case['ops']), 'hist:driver:%s' % case.get('driver', 'awgs'),
            'hist:len_dtype:%s' % _eff_len_dtype(case)]
    if 'steps' not in obs:
        return keys + ['obs:crash']
    prev = None
    for op, st in zip(case['ops'], obs['steps']):
        keys.append('hist:op:%s%s:%s' % (op[0], ':force' if op[0] == 'upload' and op[3] else '', st['err'] or 'ok'))
        if prev is not None and op[0] == 'upload' and st['err'] is None:
            if any(a != b for a, b in zip(prev['dev'], st['dev'])):
                keys.append('hist:upload-overwrote-a-freed-slot')
            if len(st['dev']) > len(prev['dev']):
                keys.append('hist:upload-appended')
            if any(r2 > r1 >= 1 for r1, r2 in zip(prev['refs'][1:], st['refs'][1:])):
                keys.append('hist:upload-shared-a-slot')
        users0 = sum(1 for _, w2s, _ in st['progs'] if 0 in w2s)
        if users0 >= 1:
            keys.append('hist:slot0-used-by-a-program')
        if users0 >= 2:
            keys.append('hist:slot0-shared-by-programs')
        if prev is not None and op[0] in ('remove', 'free') and st['err'] is None and \
                sum(1 for _, w2s, _ in prev['progs'] if 0 in w2s) > users0 >= 1:
            keys.append('hist:slot0-user-removed-while-another-stays')
        if op[0] == 'upload' and any(sg[0] == 0 for sg in op[2]):
            keys.append('hist:program-contains-idle-segment')
        if op[0] == 'upload' and len({tuple(sg) for sg in op[2]}) < len(op[2]):
            keys.append('hist:program-with-duplicate-segment')
        if prev is not None and op[0] in ('remove', 'cleanup') and len(st['dev']) < len(prev['dev']):
            keys.append('hist:cleanup-dropped-slots')
        if any(l < c for l, c in zip(st['lens'], st['caps'])):
            keys.append('hist:lens:slot-defined-shorter-than-capacity')
            if op[0] == 'upload' and prev is not None and any(l < c for l, c in zip(prev['lens'], prev['caps'])):
                slack = sum(c - l for l, c in zip(prev['lens'], prev['caps']))
                room = case['total'] - sum(prev['caps']) - sum(n + 16 for _, n in op[2])
                if st['err'] in ('Fragmentation', 'NotEnoughMemory') and -slack <= room < 0:
                    keys.append('hist:lens:append-refused-within-the-slack-of-shorter-defined-slots')
                if st['err'] is None and room == 0 and len(st['dev']) > len(prev['dev']):
                    keys.append('hist:lens:append-fits-exactly-behind-shorter-defined-slots')
        if prev is not None and op[0] == 'upload' and st['err'] is None and len(st['dev']) > len(prev['dev']) - 0:
            keys.append('hist:lens:amend-' + ('flush-length-table' if st['flushes'] > prev['flushes'] else 'per-segment-def'))
        if prev is not None and op[0] == 'upload' and st['err'] is None and prev['refs'] and len(prev['refs']) >= 2:
            # the upload re-used a slot that was unreferenced and behind the last referenced slot (seed C19-6 class)
            last_ref = max((i for i, r in enumerate(prev_after_free(prev, op)) if r > 0), default=-1)
            pr = prev_after_free(prev, op)
            new = [p for p in st['progs'] if p[0] == op[1]]
            if new and any(q > last_ref and q < len(pr) and pr[q] == 0 and prev['hashes'][q] == h
                           for q, h in zip(new[0][1], new[0][2])):
                keys.append('hist:upload-reused-unreferenced-tail-slot')
                if len(st['dev']) > last_ref + 1 + sum(1 for q in new[0][1] if last_ref < q < len(pr)):
                    keys.append('hist:upload-reused-unreferenced-tail-slot-and-appended')
        prev = st
    return sorted(set(keys))


def histogram_keys(case, obs):
    # round 5: statistics must never take the check down — a changed implementation may deliver observations the keys
    # were not written for (seed C19-4 left NO slot with a positive count; `max()` of nothing crashed the whole run,
    # which try_seed then reported as "missed")
    try:
        return _histogram_keys(case, obs)
    except Exception as e:
        return [case.get('kind', '?'), 'obs:histogram-keys-failed:%s' % type(e).__name__]


def _histogram_keys(case, obs):
    if case['kind'] == 'hist':
        return _hist_keys(case, obs)
    if case['kind'] == 'prim':
        return c19_prims.keys(case, obs)
    keys = ['place', 'place:impl:%s' % case.get('impl', 'shared'), 'slots:%s' % min(len(case['hashes']), 8), 'new:%s' % min(len(case['new_hashes']), 6),
            'dtype:%s' % case.get('dtype', 'i8')]
    if case.get('dts'):
        d = case['dts']
        keys += ['dts:refs:%s' % d['r'], 'dts:caps:%s' % d['c'], 'dts:new_lens:%s' % d['nl'], 'dts:new_hashes:%s' % d['nh']]
        if d['nl'] in ('u8', 'u4', 'u2') or d['c'] == 'u4' or d['r'] == 'u4':
            keys.append('dts:some-unsigned')
        if case.get('note') == 'dtype-family':
            keys.append('dts:family')
        if max(case['caps'] + case['new_lens'] + [0]) >= 2 ** 20:
            keys.append('dts:sizes-near-instrument-capacity')
    if 'ret' in obs:
        w, a, i = obs['ret']
        keys.append('obs:decision')
        if any(x != -1 for x in w):
            keys.append('has:reused')
        if any(x != -1 for x in i):
            keys.append('has:inserted')
            if any(x != -1 and case['caps'][x] > l for x, l in zip(i, case['new_lens']) if 0 <= x < len(case['caps'])):
                keys.append('has:inserted-into-larger-slot')
        if any(a):
            keys.append('has:amended')
        if len(set(case['new_hashes'])) < len(case['new_hashes']):
            keys.append('has:duplicate-new-hash')
        if case.get('impl') == 'feature':
            keys.append('place:feature:' + ('ties' if len(set(case['caps'])) < len(case['caps'])
                                            or len(set(case['new_lens'])) < len(case['new_lens']) else 'tie-free'))
        free = [c for r, c in zip(case['refs'], case['caps']) if r == 0]
        if any(a) and any(c >= l for c in free for l, am in zip(case['new_lens'], a) if am):
            keys.append('has:amended-although-a-free-slot-could-fit')
    elif 'refused' in obs:
        keys.append('obs:refused:' + obs['refused'])
        unknown = [l for h, l in zip(case['new_hashes'], case['new_lens']) if h not in case['hashes']]
        if obs['refused'] == 'Fragmentation' and len(case['new_hashes']) == 1 and len(unknown) == 1 and any(
                r == 0 and c >= unknown[0] for r, c in zip(case['refs'], case['caps'])):
            keys.append('obs:refused-although-a-free-slot-fits(liveness remark, not C19)')
    else:
        keys.append('obs:crash')
    return keys


def classify(case, obs):
    # no open findings: `append-behind-freed-trailing-slots` was repaired in /repo 4f02520 (a history that over-commits
    # the memory is a VIOLATION again)
    return None


def shrink(case, obs, ctx):
    """drop new segments / trailing slots while the Python oracle still rejects"""
    why0 = py_spec(case, obs)
    if not why0:
        return case, obs
    kind0 = why0.split(':')[0] if case['kind'] == 'place' else why0.split(':', 1)[-1].split()[0:2]

    def bad(c):
        # still rejected, and for the same reason class (same clause / same kind of history defect)
        o = run_impl(c)
        w = py_spec(c, o)
        if not w or classify(c, o) is not None:
            return None
        k = w.split(':')[0] if c['kind'] == 'place' else w.split(':', 1)[-1].split()[0:2]
        return o if k == kind0 else None
    cur, cur_obs = case, obs
    if case['kind'] == 'hist':
        changed = True
        while changed:
            changed = False
            for i in range(len(cur['ops'])):
                c = dict(cur, ops=cur['ops'][:i] + cur['ops'][i + 1:])
                o = bad(c)
                if o:
                    cur, cur_obs, changed = c, o, True
                    break
        return cur, cur_obs
    changed = True
    while changed:
        changed = False
        for j in range(len(cur['new_hashes'])):
            c = dict(cur, new_hashes=cur['new_hashes'][:j] + cur['new_hashes'][j + 1:],
                     new_lens=cur['new_lens'][:j] + cur['new_lens'][j + 1:])
            o = bad(c)
            if o:
                cur, cur_obs, changed = c, o, True
                break
        if changed:
            continue
        for i in reversed(range(len(cur['hashes']))):
            c = dict(cur, hashes=cur['hashes'][:i] + cur['hashes'][i + 1:], refs=cur['refs'][:i] + cur['refs'][i + 1:],
                     caps=cur['caps'][:i] + cur['caps'][i + 1:])
            o = bad(c)
            if o:
                cur, cur_obs, changed = c, o, True
                break
    return cur, cur_obs


def search_failing(ctx, broken):
    """The four clauses against the implementation on the whole small scope (<= 3 slots x <= 2 new, all boundary
    totals), then random layouts near the disagreeing case."""
    import random
    rng = random.Random(12345)
    budget = 60000
    for nslots, nnew in [(1, 1), (2, 1), (1, 2), (2, 2), (3, 1), (3, 2)]:
        for hashes, refs, caps, nh, nl in _small_scope(nslots, nnew, rng, 4000):
            for total in set(_totals(rng, refs, caps, nh, nl, hashes)):
                case = _mk(hashes, refs, caps, total, nh, nl)
                obs = run_impl(case)
                why = py_spec(case, obs)
                if why:
                    return case, obs, why
                budget -= 1
                if budget <= 0:
                    break
    for _ in range(4000):
        case = _rand_hist(rng)
        obs = run_impl(case)
        why = py_spec(case, obs)
        if why and classify(case, obs) is None:
            return shrink(case, obs, ctx) + (why,)
    hp = [1, 2, 3, 4, 5]
    cp = [192, 208, 224, 256, 384, 400]
    for _ in range(20000):
        h, r, c, t, nh, nl = _rand_place(rng, 7, 5, hp, cp, cp + [176], [0, 0, 0, 1, 1, 2])
        case = _mk(h, r, c, t, nh, nl)
        obs = run_impl(case)
        why = py_spec(case, obs)
        if why:
            return shrink(case, obs, ctx) + (why,)
    return None


MANIFEST = {
    'level_text': 'Proof (decision function): for ALL memory layouts and new-segment lists the Gallina model of '
                  'find_place_for_segments_in_memory / find_positions, when it returns a decision, satisfies the four '
                  'clauses (reuse only on equal hash; overwritten slots unreferenced, large enough, pairwise distinct; '
                  'appended segments fit behind the last used slot; every segment accounted for exactly once).  Proof '
                  '(histories): over all upload/forced upload/free/remove/cleanup/clear histories every known program\'s '
                  'slots hold its own data and stay referenced, and the defined slots never need more than the total '
                  'capacity (unguarded since /repo 4f02520); reference counts dominate the number of programs playing from '
                  'a slot (+1 for the idle slot 0, which keeps the idle waveform and is never released, also when programs '
                  'with an identical segment share it); round 4: the count of every slot EQUALS the number of known programs '
                  'playing from it (+1 for slot 0), and - in the model extended by _segment_lengths and the instrument\'s '
                  'table of defined lengths (refinement of the driver model, proved) - every slot is defined with the length of '
                  'the segment it holds, in particular every waveform of every known program.  Proof (unstable sort of the '
                  'feature copy): for EVERY tie order of its two argsort calls (oracle per call) the decision satisfies the '
                  'four clauses and the history theorem holds.  Proof (numpy primitives): each of the 14 list models meets the '
                  'independent specification evaluated on numpy\'s output.  The models are tied to the code by exact correspondence '
                  'checks against the real function, against the real bookkeeping of both Tabor drivers on a fake '
                  'instrument, and per numpy primitive against numpy.',
    'level_note': 'Clause map in notes/C19.md.  Every clause is PROVED about hand-written Gallina models and TESTED on the implementation; none is proved of the Python code itself.  '
                  'The capacity theorem counts slot capacities only (not the 16 points of spacing per segment); the '
                  'decisions taken inside histories: theorem about the model (C19_history_decisions), and on the real drivers '
                  'every recorded call is judged by Spec.decision_okb inside Coq (round 6, CHistD) and by the Python oracle.  '
                  'Round 6: C19_check_accepts_model - the history checker run on the real drivers (obs_safe after every '
                  'operation + capacities fit) accepts the observation of every state of the modelled driver over every history '
                  '(each conjunct of the test follows from the proved invariants; hypotheses: hash determines length, lengths '
                  '>= 0, total >= 192); this is a statement about the checker and the model, not about the Python drivers.  '
                  'The history theorems are about a hand-written model of the driver bookkeeping; both driver files need '
                  'tabor_control, so the model is tied to them only by running the real classes against a fake instrument '
                  'with sampling replaced by stand-ins.  The copy of the placement inside feature_awg/tabor.py sorts '
                  'unstably: compared exactly only on tie-free inputs, four clauses always (that all tie orders are safe is '
                  'a theorem about the oracle model, not a comparison).  The length theorems assume that a hash determines the '
                  'segment length.  A liveness remark (spurious '
                  'Fragmentation refusal, C19_liveness_refuted) is recorded but is not part of the property.  Trusted: '
                  'Coq kernel, numpy primitives as list models (tested per primitive against a specification the model '
                  'provably meets; nothing is proved about numpy), harness, fake instrument.',
    'technique': 'Coq proof (loop invariants over list models of the numpy code; history invariants) + correspondence check',
    'design_ref': 'DESIGN.md §5 C19',
}
